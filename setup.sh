#!/bin/bash
# Build the overlay interpreter used by every check (offline, from the wheelhouse).
#   /verif/.venv  = python 3.12 of /venv + z3-solver + cvc5, and /venv's site-packages on the path
set -e
cd "$(dirname "$0")"
export PIP_NO_INDEX=1 PIP_DISABLE_PIP_VERSION_CHECK=1
V=.venv
if [ ! -x $V/bin/python ] || ! $V/bin/python -c "import z3, numpy" 2>/dev/null; then
  rm -rf $V
  /venv/bin/python -m venv $V --without-pip
  SP=$($V/bin/python -c "import sysconfig; print(sysconfig.get_paths()['purelib'])")
  echo "import site; site.addsitedir('/venv/lib/python3.12/site-packages')" > $SP/_overlay_venv.pth
  /venv/bin/python -m pip install -q --no-index --find-links /opt/veriftools/wheels --target $SP z3-solver cvc5 2>&1 | tail -2 || true
fi
$V/bin/python -c "import z3, numpy; print('overlay venv ok: z3', z3.get_version_string(), 'numpy', numpy.__version__)"
mkdir -p evidence replays
# the engine's summation / index rules, proved with Mathlib (lean/Rules.lean); recorded for the evidence files' trusted base
if command -v lean >/dev/null 2>&1 && [ -f lean/Rules.lean ]; then
  SHA=$(sha256sum lean/Rules.lean | cut -c1-16)
  if ! grep -q "\"$SHA\"" lean/compiled.json 2>/dev/null; then
    T0=$(date +%s); OKV=false
    if (cd lean && timeout 1200 lean Rules.lean > compile.log 2>&1) && ! grep -q "error\|sorry" lean/compile.log; then OKV=true; fi
    N=$(grep -c "^theorem " lean/Rules.lean)
    echo "{\"sha256\": \"$SHA\", \"ok\": $OKV, \"theorems\": $N, \"seconds\": $(( $(date +%s) - T0 )), \"lean\": \"$(lean --version | cut -c1-40)\"}" > lean/compiled.json
  fi
  echo "lean rules: $(cat lean/compiled.json)"
fi
