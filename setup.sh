#!/bin/bash
# Build the overlay interpreter used by every check (offline, from the wheelhouse).
#   /verif/.venv  = python 3.12 of /venv + z3-solver + cvc5, and /venv's site-packages on the path
set -e
cd "$(dirname "$0")"
export PIP_NO_INDEX=1 PIP_DISABLE_PIP_VERSION_CHECK=1
V=.venv
if [ ! -x $V/bin/python ] || ! $V/bin/python -c "import z3, numpy" 2>/dev/null; then
  rm -rf $V
  /venv/bin/python -m venv $V --without-pip
  SP=$($V/bin/python -c "import sysconfig; print(sysconfig.get_paths()['purelib'])")
  echo "import site; site.addsitedir('/venv/lib/python3.12/site-packages')" > $SP/_overlay_venv.pth
  /venv/bin/python -m pip install -q --no-index --find-links /opt/veriftools/wheels --target $SP z3-solver cvc5 2>&1 | tail -2 || true
fi
$V/bin/python -c "import z3, numpy; print('overlay venv ok: z3', z3.get_version_string(), 'numpy', numpy.__version__)"
mkdir -p evidence replays
