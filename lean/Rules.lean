/-
  /verif/lean/Rules.lean -- the summation / index-arithmetic rules that the gvc engine applies
  (gvc/bigsum.py, gvc/arr.py), stated and proved with Mathlib.  Compiled by `./setup.sh`
  (`lean lean/Rules.lean`); the result is recorded in lean/compiled.json and quoted in every
  evidence file's trusted base.  The correspondence between a statement here and the rule as
  implemented in Python is by inspection (listed as such in DESIGN.md 8.4).
-/
import Mathlib.Algebra.BigOperators.Group.Finset.Basic
import Mathlib.Algebra.BigOperators.Ring.Finset
import Mathlib.Algebra.BigOperators.Intervals
import Mathlib.Algebra.Order.BigOperators.Group.Finset
import Mathlib.Data.Fintype.BigOperators
import Mathlib.Data.Fintype.Card
import Mathlib.Data.Real.Basic
import Mathlib.Tactic

open Finset BigOperators

namespace Gvc

/-- bigsum linearity (SumExpr.binop add / scale, `_merge_terms`) -/
theorem sum_linear (n : ℕ) (c : ℝ) (f g : ℕ → ℝ) :
    ∑ i ∈ range n, (c * f i + g i) = c * ∑ i ∈ range n, f i + ∑ i ∈ range n, g i := by
  rw [Finset.sum_add_distrib, Finset.mul_sum]

/-- bigsum congruence (`_term_equal`: bodies agree point-wise under the range hypotheses) -/
theorem sum_congr_range (n : ℕ) (f g : ℕ → ℝ) (h : ∀ i, i < n → f i = g i) :
    ∑ i ∈ range n, f i = ∑ i ∈ range n, g i :=
  Finset.sum_congr rfl (fun i hi => h i (Finset.mem_range.mp hi))

/-- Fubini for finite sums (`_term_equal`: the order of the bound variables is free) -/
theorem sum_fubini (n m : ℕ) (f : ℕ → ℕ → ℝ) :
    ∑ i ∈ range n, ∑ j ∈ range m, f i j = ∑ j ∈ range m, ∑ i ∈ range n, f i j :=
  Finset.sum_comm

/-- nested sums are the sum over the product box (`bigsum` of a body that is a sum) -/
theorem sum_product_box (n m : ℕ) (f : ℕ → ℕ → ℝ) :
    ∑ p ∈ range n ×ˢ range m, f p.1 p.2 = ∑ i ∈ range n, ∑ j ∈ range m, f i j :=
  Finset.sum_product _ _ _

/-- delta elimination: Σ_c [c = c0]·t(c) = t(c0)·[c0 < n] -/
theorem sum_delta (n c0 : ℕ) (t : ℕ → ℝ) :
    ∑ c ∈ range n, (if c = c0 then t c else 0) = if c0 < n then t c0 else 0 := by
  rw [Finset.sum_ite_eq' (range n) c0 t]
  simp [Finset.mem_range]

/-- a sum whose summand vanishes on the whole box is zero (`_drop_zero`) -/
theorem sum_zero_of_body_zero (n : ℕ) (f : ℕ → ℝ) (h : ∀ i, i < n → f i = 0) :
    ∑ i ∈ range n, f i = 0 :=
  Finset.sum_eq_zero (fun i hi => h i (Finset.mem_range.mp hi))

/-- non-negativity (`bigsum.nonneg`) -/
theorem sum_nonneg_range (n : ℕ) (f : ℕ → ℝ) (h : ∀ i, i < n → 0 ≤ f i) :
    0 ≤ ∑ i ∈ range n, f i :=
  Finset.sum_nonneg (fun i hi => h i (Finset.mem_range.mp hi))

/-- a sum of squares is zero iff every term is (C18: loss is zero exactly on equal arguments) -/
theorem sum_sq_eq_zero_iff (n : ℕ) (f : ℕ → ℝ) :
    ∑ i ∈ range n, f i ^ 2 = 0 ↔ ∀ i, i < n → f i = 0 := by
  rw [Finset.sum_eq_zero_iff_of_nonneg (fun i _ => sq_nonneg (f i))]
  constructor
  · intro h i hi
    exact pow_eq_zero_iff (two_ne_zero) |>.mp (h i (Finset.mem_range.mpr hi))
  · intro h i hi
    rw [h i (Finset.mem_range.mp hi)]; norm_num

/-- re-indexing by the reflection x ↦ n-1-x of an axis (`_reindexed_equal`, sgn = -1) -/
theorem sum_reflect (n : ℕ) (f : ℕ → ℝ) :
    ∑ i ∈ range n, f (n - 1 - i) = ∑ i ∈ range n, f i :=
  Finset.sum_range_reflect f n

/-- re-indexing by any bijection between finite index types (`Equiv.sum_comp`): the general rule -/
theorem sum_reindex {α β : Type*} [Fintype α] [Fintype β] (σ : α ≃ β) (f : β → ℝ) :
    ∑ x, f (σ x) = ∑ y, f y :=
  Equiv.sum_comp σ f

/-- the argument used for the signed-permutation pixel maps: an INJECTIVE map between finite boxes of equal
    cardinality is a bijection, so sums may be re-indexed along it -/
theorem sum_reindex_of_injective {α β : Type*} [Fintype α] [Fintype β] (σ : α → β)
    (hinj : Function.Injective σ) (hcard : Fintype.card α = Fintype.card β) (f : β → ℝ) :
    ∑ x, f (σ x) = ∑ y, f y := by
  have hb : Function.Bijective σ := (Fintype.bijective_iff_injective_and_card σ).mpr ⟨hinj, hcard⟩
  exact Equiv.sum_comp (Equiv.ofBijective σ hb) f

/-- re-indexing by a cyclic shift of a toroidal axis (`_shifted_equal`): x ↦ x - τ (mod n) on Fin n -/
theorem sum_cyclic_shift (n : ℕ) [NeZero n] (τ : Fin n) (f : Fin n → ℝ) :
    ∑ x, f (x - τ) = ∑ x, f x :=
  Equiv.sum_comp (Equiv.subRight τ) f

theorem sum_cyclic_shift' (n : ℕ) [NeZero n] (τ : Fin n) (f : Fin n → ℝ) :
    ∑ x, f (x + τ) = ∑ x, f x :=
  Equiv.sum_comp (Equiv.addRight τ) f

/-- the engine writes the shifted index without `mod`: q = x - τ, plus n if negative -/
theorem cyclic_index_form (n x τ : ℕ) (hx : x < n) (hτ : τ < n) :
    ((x + n - τ) % n = if τ ≤ x then x - τ else x + n - τ) := by
  split_ifs with h
  · have : x + n - τ = (x - τ) + n := by omega
    rw [this, Nat.add_mod_right, Nat.mod_eq_of_lt (by omega)]
  · exact Nat.mod_eq_of_lt (by omega)

/-- mixed radix (structured axes of gvc/arr.py): digits are recovered by div / mod -/
theorem mixed_radix_div (i t T : ℕ) (ht : t < T) : (i * T + t) / T = i := by
  rw [Nat.mul_comm, Nat.mul_add_div (by omega : 0 < T), Nat.div_eq_of_lt ht, Nat.add_zero]

theorem mixed_radix_mod (i t T : ℕ) (ht : t < T) : (i * T + t) % T = t := by
  rw [Nat.mul_comm, Nat.mul_add_mod, Nat.mod_eq_of_lt ht]

theorem mixed_radix_inj (i j s t T : ℕ) (hs : s < T) (ht : t < T)
    (h : i * T + s = j * T + t) : i = j ∧ s = t := by
  have h1 := congrArg (· / T) h
  have h2 := congrArg (· % T) h
  simp only [mixed_radix_div _ _ _ hs, mixed_radix_div _ _ _ ht,
    mixed_radix_mod _ _ _ hs, mixed_radix_mod _ _ _ ht] at h1 h2
  exact ⟨h1, h2⟩

theorem mixed_radix_bound (i t L B : ℕ) (hi : i < L / B) (ht : t < B) : i * B + t < L := by
  have hB : 0 < B := by omega
  have h1 : (i + 1) * B ≤ L := by
    calc (i + 1) * B ≤ (L / B) * B := Nat.mul_le_mul_right B hi
      _ ≤ L := Nat.div_mul_le_self L B
  nlinarith

/-- windowing arithmetic of C15: number of windows and the last index read stay inside the trajectory -/
theorem window_last_index (T p f dt s w : ℕ) (hw : w + s + (p + f - 1) * dt < T) (j : ℕ) (hj : j < p + f) :
    s + w + j * dt < T := by
  have : j * dt ≤ (p + f - 1) * dt := Nat.mul_le_mul_right dt (by omega)
  omega

end Gvc
