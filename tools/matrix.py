#!/usr/bin/env python3
"""seed x check matrix.  For every seeded change: a scratch worktree of /repo HEAD under /tmp (removed afterwards),
patch applied there, the selected checks run against that tree (GINJAX_SRC), evidence and replays redirected to a scratch
directory (GVC_OUT) so /verif/evidence is never touched.  Writes seeded/<id>/result.json.
usage: tools/matrix.py [-j N] [--props own|fast|all|C01,C02] [--tier quick] [seed ids...]"""
import json, os, subprocess, sys, time, shutil, glob, argparse
from concurrent.futures import ThreadPoolExecutor
ROOT = os.path.dirname(os.path.dirname(os.path.abspath(__file__)))
SLOW = {"C01", "C06", "C08", "C09"}
ALL = [f"C{i:02d}" for i in range(1, 21)]
# checks that own functions other properties' seeds tend to modify
RELATED = {"C05": ["C01"], "C07": ["C06", "C08"], "C09": ["C08"], "C01": ["C02"], "C14": ["C02"], "C11": ["C06"], "C20": ["C06"],
           "C06": ["C07"], "C04": ["C01"], "C10": ["C08"]}


def run_seed(sid, props, tier, workers):
    d = os.path.join(ROOT, "seeded", sid)
    meta = json.load(open(os.path.join(d, "meta.json")))
    own = meta["property"]
    if props == "own":
        ps = [own]
    elif props == "fast":
        ps = [own] + [p for p in RELATED.get(own, []) if p != own] + [p for p in ALL if p not in SLOW and p != own and p not in RELATED.get(own, [])]
    elif props == "all":
        ps = [own] + [p for p in ALL if p != own]
    else:
        ps = props.split(",")
    wt = f"/tmp/mx_{sid}"
    out = f"/tmp/mx_out_{sid}"
    subprocess.run(["git", "-C", "/repo", "worktree", "remove", "--force", wt], capture_output=True)
    shutil.rmtree(wt, ignore_errors=True); shutil.rmtree(out, ignore_errors=True)
    subprocess.run(["git", "-C", "/repo", "worktree", "add", "-q", "--detach", wt, "HEAD"], check=True)
    res = {"seed": sid, "property": own, "tier": tier, "checks": {}}
    try:
        subprocess.run(["git", "-C", wt, "apply", os.path.join(d, "patch.diff")], check=True)
        env = dict(os.environ, GINJAX_SRC=os.path.join(wt, "src"), GVC_OUT=out, GVC_WORKERS=str(workers))
        rp = os.path.join(d, "result.json")
        old = json.load(open(rp))["checks"] if os.path.exists(rp) else {}
        res["checks"].update(old)
        for p in ps:
            t = time.time()
            r = subprocess.run([os.path.join(ROOT, "check"), p, "--tier", tier], capture_output=True, text=True, env=env, cwd=ROOT)
            vl = [l for l in r.stdout.splitlines() if l.startswith("VIOLATION")]
            ref = [l.strip()[:300] for l in r.stdout.splitlines() if l.strip().startswith("REFUTED") or l.strip().startswith("NATIVE")]
            res["checks"][p] = {"exit": r.returncode, "violation_lines": vl[:3], "first_refuted": ref[:2], "seconds": round(time.time() - t, 1),
                                "summary": next((l for l in r.stdout.splitlines() if l.startswith("[")), "")[:200]}
            print(f"{sid} {p} exit={r.returncode} viol={len(vl)} {time.time() - t:.0f}s", flush=True)
            json.dump(res, open(rp, "w"), indent=1)
    finally:
        subprocess.run(["git", "-C", "/repo", "worktree", "remove", "--force", wt], capture_output=True)
        shutil.rmtree(wt, ignore_errors=True); shutil.rmtree(out, ignore_errors=True)
    return res


if __name__ == "__main__":
    ap = argparse.ArgumentParser()
    ap.add_argument("-j", type=int, default=3)
    ap.add_argument("--props", default="fast")
    ap.add_argument("--tier", default="quick")
    ap.add_argument("seeds", nargs="*")
    a = ap.parse_args()
    seeds = a.seeds or sorted(os.path.basename(p) for p in glob.glob(os.path.join(ROOT, "seeded", "*")) if os.path.isdir(p))
    workers = max(4, 16 // a.j)
    with ThreadPoolExecutor(a.j) as ex:
        rs = list(ex.map(lambda s: run_seed(s, a.props, a.tier, workers), seeds))
    for r in rs:
        det = [p for p, x in r["checks"].items() if x["exit"] == 1 and x["violation_lines"]]
        odd = [p for p, x in r["checks"].items() if x["exit"] not in (0, 1)]
        print(f"{r['seed']:12s} own={r['property']} detected_by={det} other_exit={odd}")
