#!/usr/bin/env python3
"""rewrite the per-property status table of DESIGN.md 8.3 from the committed evidence files (obligation counts) and the
descriptions below"""
import json, os, re
ROOT = os.path.dirname(os.path.dirname(os.path.abspath(__file__)))
ROWS = {
 "C01": ("proof", "`convolve_with(g·A, g·C) == g·convolve_with(A,C)` element-wise + metadata, every extent, pixel, filter value and symbolic explicit padding, incl. image dilation on toroidal axes; padding helpers symmetric; cyclic translations", "g ∈ B_2 (all 8), B_3 (12 class reps quick / 48 thorough); types, filter sides 1–3, dilations 1–2, padding kinds, torus flags", "lax.conv / pad(wrap) contracts assumed"),
 "C02": ("proof", "real `times_group_element`/`get_rotated_keys`/`hash` and the GeometricImage/MultiImage entry points equal `act_spec`; identity / composition / inverse laws of `act_spec`; flags travel with axes", "all g (2/8/48), all pairs (64; 48×6 generators quick, 2304 thorough); k ≤ 2–3; 0–2 leading axes", "np.rint/remainder/einsum models"),
 "C03": ("other (bounded) + deductive part", "`normalize` / `rectify`: on every path the filter itself or a non-zero scalar multiple (symbolic pixels); `get_invariant_filters(_dict/_list)` modular over the generator: every family under its own type, nothing lost", "every listed (group, d, M, k, parity) instance of the generator, decided exactly in rational arithmetic (run-time contract)", "the generator `get_unique_invariant_filters` itself: bounded"),
 "C04": ("proof", "`convolve`/`convolve_ravel`/`convolve_contract` == direct-sum definition, symbolic batch, channels (BigSum), extents, padding amounts, values", "d, tensor orders, filter sides, stride, dilations, padding kind, torus flags", "lax.conv / pad contracts assumed"),
 "C05": ("proof", "every algebra op commutes with every g at the declared type + typing rule; `multicontract` == the contraction of the un-ordered pairing for **every** pairing, pair order and orientation", "g (all 8 / 12–48), operand types k ≤ 2–3; pairings of k = 4, 5 (6 thorough)", "einsum/tensordot/trace models"),
 "C06": ("proof", "`ConvContract(g·x) == g·ConvContract(x)` for all weights, biases, channel counts, numbers of filters, extents, and the *general* invariant bank; fresh and pytree-round-tripped layers", "g, 4–8 signature/option combos, 5 bias modes, equal-channel non-sorted-target config", "invariance of the bank = statement's pre-condition"),
 "C07": ("proof (modular)", "real ConvBlock/ResNet/DilResNet/UNet code: every layer receives g·(its input) and its contract's pre-condition holds (incl. norm-based pooling for non-scalars), outputs compared", "15 (quick) / 31 architecture configs × 2–8 g", "leaf contracts owned by C06/C08/C02, a reduced grid of which is re-run inside this check (8.7)"),
 "C08": ("proof", "VN nonlinearity; GroupNorm/LayerNorm (scalar path through the eqx.nn.GroupNorm formula contract with symbolic eps, weight, bias, channels-per-group; vector path modular: GroupNorm against the contract of `_group_norm_K1`, and `_group_norm_K1`'s real body around the assumed `eigh` contract); average_pool, unpool; max pooling by norm under the no-ties pre-condition", "g, types, VN channels {1,2}, groups {1,2}, eigenvector sign vectors (all 2^d)", "`jnp.linalg.eigh` and `jnp.argmax` contracts assumed (8.4) and exercised natively on every run; 3-d max-pool translation bounded"),
 "C09": ("proof (induction)", "gradient-path obligation on the real ConvContract (bank reaches arithmetic only through `stop_gradient`), real `train_step` on a symbolic model pytree: static fields untouched, bank leaves scaled by one factor; `ml.train`'s loops by loop invariants (C19, re-run); pytree-round-tripped layers (C11, re-run)", "bias modes × signatures; 4 architectures", "optax/equinox update contracts assumed; real training runs bounded"),
 "C10": ("proof", "`GroupAverage(h·x) == h·GroupAverage(x)` for an *uninterpreted* inner model, stateless and **stateful**; Climate1D round trip + reflection intertwining; ModelWrapper layout", "groups (B_2, SO(2)-part, C2×C2, ⟨r90⟩, ⟨flip⟩; C2³ thorough), signatures, key orders", "group closure checked per group"),
 "C11": ("proof", "`individual_convolve` == defining sum; `__call__` modular over it for all five bias settings; exactly the requested types in order; public `__call__` == defining sum on fresh and pytree-round-tripped layers with equal channel counts", "signature pairs, options, D", "–"),
 "C12": ("proof", "`+ - * /`, `==`, vector round trip pair blocks by key, for all extents/values", "key sets ≤ 3 types, all insertion orders, 5 construction histories", "jit/vmap reorder = sorted-key flatten (assumed)"),
 "C13": ("proof", "all re-layout round trips element-wise (incl. `concat_inverse` with explicit zero entries); `ml.save` / `ml.load` modular: every leaf (arrays and non-array fields) of the saved model comes back, three call histories", "signatures, D, 0–3 leading axes; `to_images` channel counts 1–3", "Equinox (de)serialisation contract assumed; real files: bounded native"),
 "C14": ("proof", "per-image ops act independently on every leading index (independent symbolic sizes per leading axis); component selection by index and by **slice**", "D, signature, 1–3 leading axes, g", "model-level vmap clause: assumed + bounded"),
 "C15": ("proof", "window formula for all T, p, f, dt, s, channels, extents; gather indices proved in range", "D, key sets, downsample count", "average_pool stubbed by contract"),
 "C16": ("proof (induction)", "step against sliding-window spec (incl. explicit zero-count constant entries); `autoregressive_map` for **all n** by base/step/exit through the real loop body", "key layouts, D", "model = opaque function"),
 "C17": ("proof", "batches are an aligned partition for all L, B and an uninterpreted bijection as the shuffle", "devices {1,2(,4)}, co-batched count, key sets", "floor(L/B) exact for L < 2^53"),
 "C18": ("proof", "each loss == statement's formula (BigSum linearity/congruence/Fubini), keyed pairing, g-invariance", "key sets, all order pairs, D, reduce", "reals"),
 "C19": ("proof (induction)", "every path of the real `stop()` vs the spec transition, all loss representations (64-bit scalars through `jnp.asarray` are rounded); constructor VC ⇒ all histories; `ml.train`: epoch loop and batch loop by **loop invariants through the real bodies, symbolic numbers of epochs and batches**", "class × loss representation × verbose", "ghost stubs for get_batches / train_step / map_loss_in_batches inside the loop contract; unrolled 0–3 epochs kept as extra bounded obligations"),
 "C20": ("proof (modular)", "output signature == requested signature, every call-site pre-condition; conventional-mode re-layout (C13, re-run)", "15 equivariant + 11 conventional configs", "functional layer contracts (C11), eqx.nn.Conv shape contract"),
}
lines = ["| id | level | obligations (quick) | what is proved for all inputs | what is enumerated | bounded / assumed parts |", "|---|---|---|---|---|---|"]
for pid, (lvl, proved, enum, rest) in ROWS.items():
    ev = json.load(open(os.path.join(ROOT, "evidence", f"{pid}.json")))
    c = ev["coverage"]
    n = str(c["obligations"])
    if c.get("bounded_contract_evaluations"):
        n = f"{c['discharged_deductively']} deductive + {c['bounded_contract_evaluations']} bounded evaluations"
    if c.get("known_finding_obligations"):
        n += f" + {c['known_finding_obligations']} known finding"
    lines.append(f"| {pid} | {lvl} | {n} | {proved} | {enum} | {rest} |")
p = os.path.join(ROOT, "DESIGN.md")
s = open(p).read()
a = s.index("| id | level | obligations (quick) |")
b = s.index("\n\n", a)
s = s[:a] + "\n".join(lines) + s[b:]
open(p, "w").write(s)
print("\n".join(l[:110] for l in lines))
