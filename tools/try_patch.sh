#!/bin/bash
# tools/try_patch.sh <patch> <PROP> [tier] [-R]: apply a patch to /repo, run one check, undo the patch
P=$1; PROP=$2; TIER=${3:-quick}; REV=$4
cd /repo || exit 9
git diff --quiet || { echo "/repo not clean"; exit 9; }
git apply $REV "$P" || { echo "patch does not apply"; exit 9; }
cd /verif && ./check $PROP --tier $TIER; rc=$?
git -C /repo checkout -- . 
echo "exit=$rc"
