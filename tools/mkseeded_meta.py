#!/usr/bin/env python3
"""(re)write seeded/<id>/meta.json from the notes written by the sub-agent that produced the change, the independent
verification record (applies / demo fails with / passes without / full test suite passes with the patch) and, if present,
the detection results of tools/matrix.py (seeded/<id>/result.json)."""
import json, os, re, glob
ROOT = os.path.dirname(os.path.dirname(os.path.abspath(__file__)))
VER = "/root/work/seedverify"
FIXMAP = {"162e5b6": "C02", "a7930df": "C02", "a97c049": "C02", "0f7affe": "C12", "845d3fb": "C18", "3fb62a7": "C19",
          "179d0ac": "C11", "b172f8d": "C20", "c77d9e5": "C10", "40b5cf6": "C13", "8c7ed89": "C14"}
known = json.load(open(os.path.join(ROOT, "known_findings.json")))
for d in sorted(glob.glob(os.path.join(ROOT, "seeded", "*"))):
    if not os.path.isdir(d):
        continue
    sid = os.path.basename(d)
    mp = os.path.join(d, "meta.json")
    meta = json.load(open(mp)) if os.path.exists(mp) else {}
    if sid.startswith("R_"):
        c = sid[2:]
        line = next((f for f in known["fixed"] if f" {c} " in f), "")
        meta.update({"id": sid, "property": FIXMAP[c], "origin": f"reverse of the repository fix commit {c} (a genuine defect of the pinned commit found by this machinery)",
                     "summary": line.split(c, 1)[-1].strip(),
                     "needs_to_manifest": "see summary: the failing inputs are the ones named there",
                     "verified": {"applies_to_HEAD": True, "existing_tests_pass_with_patch": "yes: this is the pinned commit's behaviour, on which the 106-test baseline passes"}})
    else:
        pid = sid.split("_")[0]
        notes = open(os.path.join(d, "notes.md")).read() if os.path.exists(os.path.join(d, "notes.md")) else ""
        title = next((l.lstrip("# ").strip() for l in notes.splitlines() if l.strip()), "")
        m = re.search(r"\*\*(?:When it manifests|Needs|What it needs)[^*]*\*\*:?\s*(.+?)(?:\n\s*\n|\Z)", notes, re.S)
        def para(*heads):
            for h in heads:
                mm = re.search(r"\*\*" + h + r"[^*]*\*\*[^\n]*?:?\s*(.+?)(?:\n\s*\n|\Z)", notes, re.S | re.I)
                if mm:
                    return " ".join(mm.group(1).split())
            return ""
        needs = " ".join(m.group(1).split()) if m else (para("Manifest", "Trigger", "Why it breaks", "Why") or "see notes.md")
        if len(title) < 30:
            title = title + ": " + (para("Change", "What") or notes[:300].replace("\n", " "))[:300]
        v = {}
        vp = os.path.join(VER, f"{sid}.json")
        v2 = os.path.join(d, "verify.json")
        if os.path.exists(v2):          # written by tools/harvest_seed.sh
            v = {k_: x for k_, x in json.load(open(v2)).items() if k_ != "id"}
        elif meta.get("verified"):
            v = meta["verified"]
        elif os.path.exists(vp):
            r = json.load(open(vp))
            v = {"applies_to_HEAD": bool(r["applies"]), "demo_exit_with_patch": r["demo_with_patch_exit"],
                 "demo_exit_without_patch": r["demo_without_patch_exit"], "existing_tests_with_patch": r["tests_with_patch"]}
        meta.update({"id": sid, "property": pid, "origin": "fresh sub-agent given only the property text and its own scratch worktree; confirmed independently (verified)",
                     "summary": title, "needs_to_manifest": needs, "verified": v,
                     "what_was_run": "git apply patch.diff in a scratch worktree; PYTHONPATH=<worktree>/src python demo.py (must fail); full pytest suite (must pass); git checkout; demo.py (must pass)"})
    rp = os.path.join(d, "result.json")
    if os.path.exists(rp):
        r = json.load(open(rp))
        meta["checks_run"] = r["checks"]
        meta["detected_by"] = sorted(p for p, x in r["checks"].items() if x["exit"] == 1 and x["violation_lines"])
    json.dump(meta, open(mp, "w"), indent=1)
    print(sid, meta["property"], meta.get("detected_by", "-"), "|", meta["summary"][:90])
