#!/bin/bash
# run every claimed check (default: quick) on the current /repo tree; summary at the end
TIER=${1:-quick}
cd /verif
git -C /repo diff --quiet || { echo "/repo has uncommitted changes"; exit 9; }
for p in $(python3 -c "import json;print(' '.join(c['property_id'] for c in json.load(open('MANIFEST.json'))['checks']))"); do
  ./check $p --tier $TIER > /tmp/runall_$p.log 2>&1; rc=$?
  echo "$p exit=$rc $(grep '^\[' /tmp/runall_$p.log | tail -1)"
done
