#!/bin/bash
# tools/harvest_seed.sh <PROP> <variant> [worktree]: take a sub-agent's uncommitted change from its scratch worktree, store it as
# seeded/<PROP>_<variant>/, and confirm independently in a FRESH scratch worktree: patch applies to /repo HEAD, demo fails with it and
# passes without it, full test suite passes with it.  Writes seeded/<id>/verify.json.  (Seed matrix: tools/matrix.py <id>)
P=$1; V=$2; WT=${3:-/tmp/seedc_$P}; ID=${P}_$V
D=/verif/seeded/$ID; mkdir -p $D
git -C $WT diff -- src > $D/patch.diff
[ -s $D/patch.diff ] || { echo "$ID: empty diff"; exit 1; }
cp $WT/demo.py $D/demo.py; cp $WT/notes.md $D/notes.md 2>/dev/null
S=/tmp/hv_$ID
git -C /repo worktree remove --force $S 2>/dev/null; rm -rf $S
git -C /repo worktree add -q --detach $S HEAD || exit 1
cd $S
export JAX_PLATFORMS=cpu PYTHONPATH=$S/src PYTHONDONTWRITEBYTECODE=1
timeout 600 /venv/bin/python $D/demo.py > $D/demo_without.log 2>&1; R0=$?
git apply $D/patch.diff || { echo "$ID: patch does not apply"; exit 1; }
timeout 600 /venv/bin/python $D/demo.py > $D/demo_with.log 2>&1; R1=$?
if [ "$SKIP_SUITE" = 1 ]; then TS="skipped"; else
TS=$(timeout 5400 /venv/bin/python -m pytest -ra -q -p no:cacheprovider --timeout=900 --continue-on-collection-errors 2>&1 | tail -1); fi
cd /; git -C /repo worktree remove --force $S; rm -rf $S
python3 - <<EOF
import json
json.dump({"id": "$ID", "applies_to_HEAD": True, "demo_exit_without_patch": $R0, "demo_exit_with_patch": $R1, "existing_tests_with_patch": """$TS"""}, open("$D/verify.json", "w"), indent=1)
EOF
rm -f $D/demo_without.log; tail -5 $D/demo_with.log > $D/demo_with.tail; rm -f $D/demo_with.log
echo "$ID without=$R0 with=$R1 suite=[$TS]"
