#!/usr/bin/env python3
"""regenerate /verif/MANIFEST.json from the property modules present in gvc/props"""
import json, os, sys, importlib
ROOT = os.path.dirname(os.path.dirname(os.path.abspath(__file__)))
sys.path.insert(0, ROOT)
props = [json.loads(l) for l in open(os.path.join(ROOT, "properties.jsonl"))]
NOT_YET = "check not built yet in this round (see DESIGN.md section 6 build order); not claimed rather than claimed through another technique"
checks, na = [], []
for p in props:
    pid = p["id"]
    path = os.path.join(ROOT, "gvc", "props", pid.lower() + ".py")
    if not os.path.exists(path):
        na.append({"property_id": pid, "reason": NOT_YET})
        continue
    src = open(path).read()
    meta = {}
    # read the MANIFEST block: a dict literal assigned to MANIFEST in the module
    import ast
    tree = ast.parse(src)
    for node in tree.body:
        if isinstance(node, ast.Assign) and getattr(node.targets[0], "id", "") == "MANIFEST":
            meta = ast.literal_eval(node.value)
    if not meta:
        na.append({"property_id": pid, "reason": NOT_YET})
        continue
    if meta.get("not_applicable"):
        na.append({"property_id": pid, "reason": meta["not_applicable"]})
        continue
    checks.append({
        "property_id": pid,
        "quick_cmd": f"./check {pid} --tier quick",
        "thorough_cmd": f"./check {pid} --tier thorough",
        "evidence_file": f"/verif/evidence/{pid}.json",
        "replay_cmd_template": "./check replay {path}",
        "engine": "gvc",
        "level_claimed": {"category": meta["category"], "text": meta["text"], "design_ref": meta.get("design_ref", f"DESIGN.md section 3, {pid}")},
        "level_note": meta["note"],
        "technique": meta["technique"],
    })
man = {
    "version": 1,
    "setup_cmd": "./setup.sh",
    "hooks": {"guard": "GINJAX_VERIF", "enable": "no source hooks are needed: contracts are sidecar files under /verif/gvc and the repository source is loaded unmodified from /repo/src on every run",
              "baseline_off_cmd": "cd /repo && /venv/bin/python -m pytest -ra -q -p no:cacheprovider --timeout=900 --continue-on-collection-errors",
              "source_commits": [], "add_only": True},
    "engines": [{"name": "gvc", "path": "/verif/gvc", "serves_properties": [c["property_id"] for c in checks],
                 "kind_free_text": "contract-based deductive verification: symbolic execution of the real ginjax source under CPython with proxy ints/reals/structured arrays, library contract models, sidecar contracts + spec functions, VCs discharged by z3; native replay harness for counterexamples and bounded stand-ins"}],
    "checks": checks,
    "notes": "Every check re-imports the ginjax source from /repo/src (working tree) on every run. fix: commits in /repo are listed in /verif/known_findings.json under 'fixed'. See DESIGN.md.",
    "not_applicable": na,
}
json.dump(man, open(os.path.join(ROOT, "MANIFEST.json"), "w"), indent=1)
print("claimed:", [c["property_id"] for c in checks], "not_applicable:", [n["property_id"] for n in na])
