#!/bin/bash
# tools/suite_seed.sh <id>: full 106-test suite with seeded/<id>/patch.diff applied in a fresh scratch worktree; updates verify.json
ID=$1; D=/verif/seeded/$ID; S=/tmp/st_$ID
git -C /repo worktree remove --force $S 2>/dev/null; rm -rf $S
git -C /repo worktree add -q --detach $S HEAD || exit 1
cd $S && git apply $D/patch.diff || exit 1
export JAX_PLATFORMS=cpu PYTHONPATH=$S/src PYTHONDONTWRITEBYTECODE=1
TS=$(timeout 5400 /venv/bin/python -m pytest -ra -q -p no:cacheprovider --timeout=900 --continue-on-collection-errors 2>&1 | tail -1)
cd /; git -C /repo worktree remove --force $S; rm -rf $S
python3 - <<EOF
import json
p="$D/verify.json"; d=json.load(open(p)); d["existing_tests_with_patch"]="""$TS"""; json.dump(d, open(p,"w"), indent=1)
EOF
echo "$ID suite=[$TS]"
