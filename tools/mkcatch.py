#!/usr/bin/env python3
"""seeded/MATRIX.md: which check reports which seeded change (from seeded/<id>/result.json written by tools/matrix.py)"""
import json, os, glob
ROOT = os.path.dirname(os.path.dirname(os.path.abspath(__file__)))
rows = []
for d in sorted(glob.glob(os.path.join(ROOT, "seeded", "*"))):
    rp, mp = os.path.join(d, "result.json"), os.path.join(d, "meta.json")
    if not (os.path.exists(rp) and os.path.exists(mp)):
        continue
    r, m = json.load(open(rp)), json.load(open(mp))
    det = sorted(p for p, x in r["checks"].items() if x["exit"] == 1 and x["violation_lines"])
    ran = sorted(r["checks"])
    odd = sorted(p for p, x in r["checks"].items() if x["exit"] not in (0, 1))
    nfi = sorted(p for p in det if all("no-failing-input-found" in l for l in r["checks"][p]["violation_lines"]))
    rows.append((m["id"], m["property"], det, ran, odd, nfi, m["summary"]))
out = ["| seed | aimed at | reported by (quick tier) | own check reports it | summary |", "|---|---|---|---|---|"]
for sid, prop, det, ran, odd, nfi, summ in rows:
    own = "yes" if prop in det else ("**no**" if prop in ran else "not run")
    dets = ", ".join(p + (" (no replay)" if p in nfi else "") for p in det) or "**none**"
    summ = summ.replace("|", "/")
    out.append(f"| {sid} | {prop} | {dets} | {own} | {summ[:110]} |")
missed = [r[0] for r in rows if not r[2]]
out.append("")
out.append(f"{len(rows)} seeded changes, {len(rows) - len(missed)} reported by at least one check; not reported: {missed or 'none'}. "
           "Checks run per seed: the aimed-at property, the checks owning related functions, and every check that takes < 1 min.")
open(os.path.join(ROOT, "seeded", "MATRIX.md"), "w").write("\n".join(out) + "\n")
print("\n".join(out[-3:]))
