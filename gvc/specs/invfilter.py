"""The general G-invariant filter of type (k,p), side M, dimension D, from the definition of invariance only:
F is invariant iff for every g in G and every (pixel a, component t):  F(a)[t] = det(g)^p prod_m g[t_m,u_m] F(g^T(a-c)+c)[u].
For signed permutation matrices this relates single entries up to a sign, so the invariant filters are exactly:
one free real parameter per orbit of entries whose stabiliser acts with sign +1, zero on the other orbits."""
import itertools
import numpy as np
from .act import perm_of, det_of


def orbits(D, M, k, p, ops):
    """-> (points, rep_of: dict point -> (rep_index or None, sign)), n_free"""
    Ms = (M,) * D if isinstance(M, int) else tuple(M)
    pts = [(a, t) for a in itertools.product(*[range(m) for m in Ms]) for t in itertools.product(range(D), repeat=k)]
    idx = {P: i for i, P in enumerate(pts)}
    parent = list(range(len(pts)))
    sign = [1] * len(pts)           # F(P) = sign[P] * F(parent[P])
    zero = [False] * len(pts)

    def find(i):
        s = 1
        while parent[i] != i:
            s *= sign[i]
            i = parent[i]
        return i, s

    for g in ops:
        g = np.asarray(g)
        if sorted(np.abs(g) @ np.array(Ms)) != sorted(Ms) and False:
            pass
        col, sgn = perm_of(g)
        det = det_of(g)
        r = [Ms[col[i]] for i in range(D)]
        if tuple(r) != tuple(Ms):
            continue                # g does not map the filter's box to itself (non-square filter): not a symmetry of it
        for (a, t) in pts:
            src = [None] * D
            for i in range(D):
                j = col[i]
                v = sgn[i] * (a[i] - (r[i] - 1) / 2) + (Ms[j] - 1) / 2
                src[j] = int(round(v))
            coef = (det if p % 2 else 1)
            u = []
            for tm in t:
                coef *= sgn[tm]
                u.append(col[tm])
            P, Q = idx[(a, t)], idx[(tuple(src), tuple(u))]
            rp, sp = find(P)
            rq, sq = find(Q)
            # F(P) = coef * F(Q)  =>  sp*F(rp) = coef*sq*F(rq)
            if rp == rq:
                if sp != coef * sq:
                    zero[rp] = True
            else:
                parent[rp] = rq
                sign[rp] = sp * coef * sq
                zero[rq] = zero[rq] or zero[rp]
    rep = {}
    reps = []
    for P, i in idx.items():
        r, s = find(i)
        if zero[r]:
            rep[P] = (None, 0)
        else:
            if r not in reps:
                reps.append(r)
            rep[P] = (reps.index(r), s)
    return pts, rep, len(reps)


def invariant_bank_sym(D, M, k, p, ops, nf_atom, name):
    """SArray (n_filters, M.., tensor): the general invariant filter per filter index f, parameters opaque"""
    import z3
    from .. import arr
    from ..arr import Atom
    pts, rep, nfree = orbits(D, M, k, p, ops)
    R = z3.Function(name, z3.IntSort(), z3.IntSort(), z3.RealSort())
    Ms = (M,) * D if isinstance(M, int) else tuple(M)
    dims = [nf_atom] + [Atom(m) for m in Ms] + [Atom(D) for _ in range(k)]

    def elem(idx):
        f = idx[0]
        a = tuple(int(v) for v in idx[1:1 + D])
        t = tuple(int(v) for v in idx[1 + D:])
        r, s = rep[(a, t)]
        if r is None:
            return 0
        return arr.t_bin("mul", s, R(arr.t_z3(f), z3.IntVal(r)))

    return arr.SArray(dims, elem), nfree
