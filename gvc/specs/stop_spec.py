"""Specification of the stopping conditions, written from the property statement (C19) only.

State of a patience condition after a history h of monitored losses:
    best(eps) = +inf, since(eps) = 0, best_model(eps) = whatever was there
    on a loss l:  improve  <=>  l < best - min_delta
                  improve:      best, since, best_model := l, 0, model passed at this epoch
                  otherwise:    since += 1
    stop is signalled  <=>  since > patience            (evaluated after the update)
    a missing loss (None) leaves the state unchanged and never stops.
Epoch condition: stop <=> current_epoch >= epochs, best_model := the model passed.
"""
INF = float("inf")


def patience_step(best, since, best_model, loss, model, patience, min_delta):
    """concrete (float) version, used by the native harness"""
    if loss is None:
        return best, since, best_model, False
    if loss < best - min_delta:
        best, since, best_model = loss, 0, model
    else:
        since = since + 1
    return best, since, best_model, since > patience


def patience_history(losses, models, patience, min_delta, best_model0=None):
    """run the spec over a history; returns the list of stop signals and the final state"""
    best, since, bm = INF, 0, best_model0
    out = []
    for l, m in zip(losses, models):
        best, since, bm, r = patience_step(best, since, bm, l, m, patience, min_delta)
        out.append(r)
    return out, (best, since, bm)
