"""conv_spec -- the mathematical definition of the geometric convolution, from the statement of C04:

    out[b,o,i][t_img, t_f] = sum_c sum_a P[b,c, i*stride + a*dilation - lo][t_img] * F[o,c,a][t_f]

P = the (optionally zero-interleaved) image, wrapped periodically on toroidal axes and zero-padded
elsewhere; image tensor indices first, the filter's after; output extent
floor((N' + lo + hi - dil*(M-1) - 1)/stride) + 1 with N' = (N-1)*lhs_dil + 1.
Padding kinds: TORUS (periodic half-width ((M-1)/2)*dil on torus axes, the same amount of zeros on the
others; odd M), SAME (zeros ((M-1)//2)*dil both sides), VALID, an integer p, explicit (lo,hi) pairs;
None means TORUS if any axis is toroidal, else SAME."""
import itertools
import numpy as np


def resolve_padding(D, M, is_torus, padding, rdil):
    """-> per axis (mode, lo, hi) with mode 'wrap' or 'zero'"""
    if padding is None:
        padding = "TORUS" if any(is_torus) else "SAME"
    out = []
    for d in range(D):
        half = ((M[d] - 1) // 2) * rdil[d]
        if padding == "TORUS":
            out.append(("wrap" if is_torus[d] else "zero", half, half))
        elif padding == "SAME":
            out.append(("zero", half, half))
        elif padding == "VALID":
            out.append(("zero", 0, 0))
        elif isinstance(padding, (tuple, list)):
            out.append(("zero", padding[d][0], padding[d][1]))
        else:                                   # an integer (possibly symbolic)
            out.append(("zero", padding, padding))
    return out


def conv_np(A, F, D, is_torus, stride=1, padding=None, lhs_dilation=None, rhs_dilation=1):
    """concrete oracle.  A: (batch,in_c,spatial,tensor k), F: (out_c,in_c,M..,tensor k')"""
    is_torus = (is_torus,) * D if isinstance(is_torus, bool) else tuple(is_torus)
    stride = (stride,) * D if isinstance(stride, int) else tuple(stride)
    rdil = (rhs_dilation,) * D if isinstance(rhs_dilation, int) else tuple(rhs_dilation)
    ldil = (1,) * D if lhs_dilation is None else tuple(lhs_dilation)
    B, Cin = A.shape[:2]
    N = A.shape[2:2 + D]
    k = A.ndim - 2 - D
    Co = F.shape[0]
    M = F.shape[2:2 + D]
    kf = F.ndim - 2 - D
    pads = resolve_padding(D, M, is_torus, padding, rdil)
    outN = []
    for d in range(D):
        Np = (N[d] - 1) * ldil[d] + 1
        outN.append((Np + pads[d][1] + pads[d][2] - rdil[d] * (M[d] - 1) - 1) // stride[d] + 1)
    out = np.zeros((B, Co) + tuple(outN) + (D,) * (k + kf))
    for i in itertools.product(*[range(n) for n in outN]):
        for a in itertools.product(*[range(m) for m in M]):
            src = []
            ok = True
            for d in range(D):
                pos = i[d] * stride[d] + a[d] * rdil[d] - pads[d][1]
                if pads[d][0] == "wrap":
                    src.append((pos // ldil[d]) % N[d] if pos % ldil[d] == 0 else None)
                    if pos % ldil[d]:
                        ok = False
                else:
                    if pos < 0 or pos % ldil[d] or pos // ldil[d] >= N[d]:
                        ok = False
                    src.append(pos // ldil[d])
            if not ok:
                continue
            P = A[(slice(None), slice(None)) + tuple(src)]          # (B, Cin, tensor k)
            Fa = F[(slice(None), slice(None)) + tuple(a)]           # (Co, Cin, tensor kf)
            # sum over c of outer product
            o = np.tensordot(P, Fa, axes=([1], [1]))                 # (B, tensor k, Co, tensor kf)
            o = np.moveaxis(o, 1 + k, 1)                             # (B, Co, tensor k, tensor kf)
            out[(slice(None), slice(None)) + tuple(i)] += o
    return out


def contract_np(conv, D, k_img):
    """Kronecker contraction of each image tensor index with the corresponding leading filter index:
    conv: (B, Co, spatial, (D,)*k_img [image], (D,)*kf [filter]); contracts image index m with filter index m"""
    out = conv
    base = 2 + D
    for m in range(k_img):
        # after previous contractions the image indices left start at base, filter indices at base + (k_img - m)
        out = np.trace(out, axis1=base, axis2=base + (k_img - m))
    return out


def conv_sym(A, F, D, is_torus, stride, padding, ldil, rdil):
    """symbolic spec on SArrays.  A dims: [batch, in_c] + spatial + tensor; F dims: [out_c, in_c] + M.. + tensor.
    stride / ldil / rdil: D-tuples of python ints; padding: 'TORUS'|'SAME'|'VALID'|None|int or SInt|tuple of pairs"""
    import z3
    from .. import arr, sym, bigsum
    from ..sym import zi, mk, valid
    from ..arr import Atom
    k = A.ndim - 2 - D
    kf = F.ndim - 2 - D
    M = [sym.concrete_int(arr.extent(d)) for d in F.dims[2:2 + D]]
    N = [arr.extent(d) for d in A.dims[2:2 + D]]
    pads = resolve_padding(D, M, is_torus, padding, rdil)
    out_sp = []
    for d in range(D):
        Np = (N[d] - 1) * ldil[d] + 1
        num = Np + pads[d][1] + pads[d][2] - rdil[d] * (M[d] - 1) - 1
        out_sp.append(Atom(sym.int_floordiv(num, stride[d]) + 1))
    dims = [A.dims[0], F.dims[0]] + out_sp + A.dims[2 + D:] + F.dims[2 + D:]
    taps = list(itertools.product(*[range(m) for m in M]))
    cdim = A.dims[1]

    def elem(idx):
        b, o = idx[0], idx[1]
        i = [zi(v) for v in idx[2:2 + D]]
        t_img = list(idx[2 + D:2 + D + k])
        t_f = list(idx[2 + D + k:])

        def body(cv):
            c = cv[0]
            cF = arr.conv_idx(cdim, c, F.dims[1])
            tot = 0
            for a in taps:
                conds, src = [], []
                for d in range(D):
                    pos = z3.simplify(i[d] * stride[d] + a[d] * rdil[d] - zi(pads[d][1]))
                    if ldil[d] != 1:
                        conds.append(pos % ldil[d] == 0)
                        q = pos / ldil[d]
                    else:
                        q = pos
                    if pads[d][0] == "wrap":
                        n = zi(N[d])
                        if valid(z3.And(q >= 0, q < n)):
                            s = q
                        elif sym.concrete_int(N[d]) is not None and not valid(z3.And(q >= -n, q < 2 * n)):
                            s = q % n                  # periodic image, several periods (concrete extent: linear)
                        elif valid(q < 0):
                            s = q + n
                        elif valid(q >= n):
                            s = q - n
                        else:
                            s = z3.If(q < 0, q + n, z3.If(q >= n, q - n, q))
                        src.append(z3.simplify(s))
                    else:
                        conds += [q >= 0, q < zi(N[d])]
                        src.append(z3.simplify(q))
                cond = z3.simplify(z3.And(*conds)) if conds else z3.BoolVal(True)
                if z3.is_false(cond) or valid(z3.Not(cond)):
                    continue
                with sym.scope([cond]):
                    pv = A.elem([b, c] + [z3.simplify(s) for s in src] + t_img)
                fv = F.elem([o, cF] + list(a) + t_f)
                term = arr.t_bin("mul", pv, fv)
                if arr._num(term) and term == 0:
                    continue
                if not valid(cond):
                    term = arr.t_cond(cond, term)
                tot = arr.t_bin("add", tot, term)
            return tot

        ci = arr.concrete_indices(cdim)
        if ci is not None:
            tot = 0
            for c in ci:
                tot = arr.t_bin("add", tot, body([c]))
            return tot
        return bigsum.bigsum([cdim], body)

    return arr.SArray(dims, elem)
