"""act_spec -- the group action on a geometric image, written from the statement of C02 only:

    (g.A)(x)[t_1..t_k] = det(g)^p * prod_m g[t_m, u_m] * A(g^-1 (x - c') + c)[u_1..u_k]

taken about the image centre: c = (s-1)/2 for the source extents s, c' = (r-1)/2 for the result
extents r = |g| s, and g^-1 = g^T for a signed permutation matrix g.  Symbolic (SArray) and concrete
(numpy) versions."""
import itertools
import numpy as np


def perm_of(g):
    """for a signed permutation matrix: col[i] = the column j with g[i,j] != 0, sign[i] = g[i,j]"""
    D = g.shape[0]
    col = [int(np.argmax(np.abs(g[i]))) for i in range(D)]
    sgn = [int(round(float(g[i, col[i]]))) for i in range(D)]
    return col, sgn


def det_of(g):
    return int(round(float(np.linalg.det(np.asarray(g, dtype=float)))))


def act_np(A, D, p, g):
    """concrete oracle on a numpy array of shape spatial + (D,)*k"""
    g = np.asarray(g)
    s = A.shape[:D]
    k = A.ndim - D
    r = tuple(int(v) for v in np.abs(g) @ np.array(s))
    out = np.zeros(r + (D,) * k, dtype=np.float64)
    det = det_of(g)
    c, cp = (np.array(s) - 1) / 2, (np.array(r) - 1) / 2
    for x in itertools.product(*[range(n) for n in r]):
        src = g.T @ (np.array(x) - cp) + c
        si = tuple(int(round(v)) for v in src)
        assert np.allclose(src, si)
        T = A[si]
        for m in range(k):
            T = np.moveaxis(np.tensordot(g, T, axes=([1], [m])), 0, m)
        out[x] = (det ** p) * T
    return out


def act_sym(A, D, k, p, g, lead=0):
    """symbolic version on an SArray with dims lead + spatial + tensor (tensor atoms concrete D)"""
    import z3
    from .. import arr, sym
    from ..sym import zi
    g = np.asarray(g)
    col, sgn = perm_of(g)
    det = det_of(g)
    sdims = A.dims[lead:lead + D]
    rdims = [sdims[col[i]] for i in range(D)]          # result axis i has the extent of source axis col[i]
    dims = A.dims[:lead] + rdims + A.dims[lead + D:]

    def elem(idx):
        x = idx[lead:lead + D]
        t = idx[lead + D:]
        # source pixel: g^T (x - c') + c, component j gets the contribution of the row i with col[i] == j
        src = [None] * D
        for i in range(D):
            j = col[i]
            sj, ri = zi(arr.extent(sdims[j])), zi(arr.extent(rdims[i]))
            real = sgn[i] * (z3.ToReal(zi(x[i])) - (z3.ToReal(ri) - 1) / 2) + (z3.ToReal(sj) - 1) / 2
            real = z3.simplify(real)
            if not sym.valid(z3.IsInt(real)):
                raise sym.OutOfReach("act_spec: source pixel not integral")
            src[j] = z3.simplify(z3.ToInt(real))
        coef = det ** p if p % 2 else 1
        if p % 2 == 0:
            coef = 1
        u = []
        tdims = A.dims[lead + D:]
        for tm, td in zip(t, tdims):
            tm = arr.to_flat(td, tm)                 # the tensor axis may be a concatenation (e.g. jnp.stack of components)
            if arr.is_z3(tm):
                raise sym.OutOfReach("act_spec needs concrete tensor indices (enumerate them)")
            tm = int(tm)
            coef *= sgn[tm]
            u.append(col[tm] if isinstance(td, arr.Atom) else arr.Flat(col[tm]))
        val = A.elem(list(idx[:lead]) + src + u)
        return arr.t_bin("mul", coef, val)

    return arr.SArray(dims, elem)


def rotated_flags(is_torus, g):
    col, _ = perm_of(np.asarray(g))
    return tuple(is_torus[col[i]] for i in range(len(col)))


def shift_sym(X, taus, D, lead=0):
    """cyclic translation of the spatial axes of an SArray (dims lead + spatial + tensor):
    (T X)[.., i_d, ..] = X[.., (i_d - tau_d) mod N_d, ..]; taus are integer terms with 0 <= tau_d < N_d"""
    import z3
    from .. import arr, sym
    from ..sym import zi

    def elem(idx):
        src = list(idx[:lead])
        for d in range(D):
            q = z3.simplify(zi(idx[lead + d]) - zi(taus[d]))
            n = zi(X.dims[lead + d].ext)
            if sym.valid(q >= 0):
                s_ = q
            elif sym.valid(q < 0):
                s_ = q + n
            else:
                s_ = z3.If(q < 0, q + n, q)
            src.append(z3.simplify(s_))
        return X.elem(src + list(idx[lead + D:]))
    return arr.SArray(list(X.dims), elem, X.dtype)
