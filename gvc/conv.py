"""contract model of jax.lax.conv_general_dilated (and conv_general_dilated_patches): the documented
direct-sum definition of XLA's convolution for the dimension numbers ginjax uses
(NHWC / HWIO / NHWC and NHWDC / HWDIO / NHWDC), with window strides, padding, lhs (image) dilation,
rhs (filter) dilation and feature_group_count.  This is an ASSUMED contract of the library: it is the
definition at the ravelled level; everything ginjax does around it (re-layouts, grouping, padding
choice, wrap) is what gets verified."""
from __future__ import annotations
import itertools
import z3
from . import sym, arr
from .sym import OutOfReach, Refuted, SInt, zi, mk, valid, concrete_int
from .arr import SArray, Atom, Prod, extent, factors, lift


def _used(name):
    from . import lib
    lib.used(name)


def out_extent(N, M, stride, lo, hi, ldil, rdil):
    """standard size formula: floor((N' + lo + hi - rdil*(M-1) - 1)/stride) + 1 with N' = (N-1)*ldil + 1"""
    Np = (N - 1) * ldil + 1
    num = Np + lo + hi - rdil * (M - 1) - 1
    return sym.int_floordiv(num, stride) + 1


def _same_padding(N, M, stride, ldil, rdil):
    """XLA 'SAME': output ceil(N'/stride); total padding split low = total // 2"""
    Np = (N - 1) * ldil + 1
    outn = sym.int_floordiv(Np + stride - 1, stride)
    tot = (outn - 1) * stride + (M - 1) * rdil + 1 - Np
    if isinstance(tot, SInt):
        if valid(tot.e >= 0):
            pass
        elif valid(tot.e <= 0):
            tot = 0
        else:
            tot = mk(z3.If(tot.e > 0, tot.e, 0))
    else:
        tot = max(tot, 0)
    lo = sym.int_floordiv(tot, 2)
    return lo, tot - lo


def _split_groups(dim, G, inner_ext=None, what=""):
    """split a feature Dim into (group factors, inner factors) with prod(group factors) == G"""
    fs = factors(dim)
    if concrete_int(G) == 1:
        return [], fs
    acc = 1
    for i, f in enumerate(fs):
        acc = acc * extent(f)
        if arr.ext_eq(acc, G):
            rest = fs[i + 1:]
            if inner_ext is not None:
                r = 1
                for x in rest:
                    r = r * extent(x)
                if not arr.ext_eq(r, inner_ext):
                    break
            return fs[: i + 1], rest
    raise OutOfReach(f"conv: cannot split the {what} feature axis {dim} into {G} groups along its structure")


def conv_general_dilated(lhs, rhs, window_strides, padding, lhs_dilation=None, rhs_dilation=None,
                         dimension_numbers=None, feature_group_count=1, **kw):
    _used("lax.conv_general_dilated (direct-sum definition, NHWC/HWIO, groups, dilations, padding)")
    lhs, rhs = lift(lhs), lift(rhs)
    dn = dimension_numbers
    if dn not in (("NHWC", "HWIO", "NHWC"), ("NHWDC", "HWDIO", "NHWDC")):
        raise OutOfReach(f"conv_general_dilated: dimension numbers {dn} not modelled")
    D = len(dn[0]) - 2
    if lhs.ndim != D + 2 or rhs.ndim != D + 2:
        raise ValueError(f"conv_general_dilated: operand ranks {lhs.ndim}, {rhs.ndim} for {D} spatial dimensions")
    stride = [concrete_int(s) for s in window_strides]
    ldil = [1] * D if lhs_dilation is None else [concrete_int(s) for s in lhs_dilation]
    rdil = [1] * D if rhs_dilation is None else [concrete_int(s) for s in rhs_dilation]
    if any(v is None or v < 1 for v in stride + ldil + rdil) or len(stride) != D or len(ldil) != D or len(rdil) != D:
        raise OutOfReach("conv: symbolic / malformed strides or dilations")
    M = [concrete_int(extent(d)) for d in rhs.dims[:D]]
    if any(m is None for m in M):
        raise OutOfReach("conv: symbolic filter extent")
    N = [extent(d) for d in lhs.dims[1:1 + D]]
    if isinstance(padding, str):
        if any(v != 1 for v in ldil):
            # library pre-condition (jax raises exactly this)
            raise ValueError("String padding is not implemented for transposed convolution using this op. Please either "
                             "exactly specify the required padding or use conv_transpose.")
        if padding.upper() == "VALID":
            pads = [(0, 0)] * D
        elif padding.upper() == "SAME":
            pads = [_same_padding(N[d], M[d], stride[d], ldil[d], rdil[d]) for d in range(D)]
        else:
            raise ValueError(f"conv_general_dilated: unknown padding {padding}")
    else:
        pads = [tuple(p) for p in padding]
        if len(pads) != D or any(len(p) != 2 for p in pads):
            raise ValueError("conv_general_dilated: padding must be a sequence of (low, high) pairs, one per spatial dimension")
    G = feature_group_count
    Idim, Odim = rhs.dims[D], rhs.dims[D + 1]
    Cdim = lhs.dims[D + 1]
    # C = G * I and O divisible by G: library pre-conditions
    st, m = sym.refute_or_prove(zi(extent(Cdim)) == zi(G) * zi(extent(Idim)))
    if st == "refuted":
        raise Refuted("conv_general_dilated: lhs feature count != feature_group_count * rhs input feature count", m)
    if st != "proved":
        raise OutOfReach("conv: feature count relation undecided")
    g_l, in_l = _split_groups(Cdim, G, extent(Idim), "lhs")
    g_o, in_o = _split_groups(Odim, G, None, "rhs output")
    gl_dim, go_dim = arr.mkprod(g_l) if g_l else None, arr.mkprod(g_o) if g_o else None
    inl_dim = arr.mkprod(in_l)
    out_sp = []
    for d in range(D):
        e = out_extent(N[d], M[d], stride[d], pads[d][0], pads[d][1], ldil[d], rdil[d])
        st, m = sym.refute_or_prove(zi(e) >= 0)
        if st != "proved":
            raise OutOfReach("conv: output extent possibly negative (outside the contract model)")
        out_sp.append(Atom(e))
    dims = [lhs.dims[0]] + out_sp + [Odim]
    taps = list(itertools.product(*[range(m) for m in M]))

    def split_idx(dim, parts_g, parts_in, ix):
        """index of a feature Dim -> (group digits, inner digits) as lists following the factor lists"""
        fs = factors(dim)
        if isinstance(ix, arr.Flat):
            raise OutOfReach("conv: flat index into a structured feature axis")
        vals = list(ix) if isinstance(dim, Prod) else [ix]
        return vals[: len(parts_g)], vals[len(parts_g):]

    def elem(idx):
        n = idx[0]
        x = [zi(v) for v in idx[1:1 + D]]
        o = idx[1 + D]
        og, oin = split_idx(Odim, g_o, in_o, o)
        # group digits of the output select the same group of the lhs features
        if g_l:
            gidx_o = tuple(og) if len(g_o) > 1 else og[0]
            gidx_l = arr.conv_idx(go_dim, gidx_o, gl_dim)
            gl_vals = list(gidx_l) if isinstance(gl_dim, Prod) and not isinstance(gidx_l, arr.Flat) else [gidx_l]
            if isinstance(gidx_l, arr.Flat) and isinstance(gl_dim, Prod):
                raise OutOfReach("conv: group index not structurally convertible")
        else:
            gl_vals = []

        def body(cvals):
            c = cvals[0]
            cin = list(c) if isinstance(inl_dim, Prod) else [c]
            lf = gl_vals + cin
            lfeat = tuple(lf) if isinstance(Cdim, Prod) else lf[0]
            rin = arr.conv_idx(inl_dim, c, Idim)
            tot = 0
            for a in taps:
                conds = []
                pos = []
                for d in range(D):
                    pd = z3.simplify(x[d] * stride[d] + a[d] * rdil[d] - zi(pads[d][0]))
                    if ldil[d] == 1:
                        q = pd
                    else:
                        conds.append(pd % ldil[d] == 0)
                        q = pd / ldil[d]
                    conds += [q >= 0, q < zi(N[d])]
                    pos.append(q)
                cond = z3.simplify(z3.And(*conds))
                if z3.is_false(cond) or valid(z3.Not(cond)):
                    continue
                with sym.scope([cond]):
                    pos_s = [z3.simplify(p) for p in pos]
                    lv = lhs.elem([n] + [arr.Flat(p) if not isinstance(lhs.dims[1 + d], Atom) else p for d, p in enumerate(pos_s)] + [lfeat])
                rv = rhs.elem(list(a) + [rin, o])
                term = arr.t_bin("mul", lv, rv)
                if arr._num(term) and term == 0:
                    continue
                if not valid(cond):
                    term = arr.t_cond(cond, term)
                tot = arr.t_bin("add", tot, term)
            return tot

        ci = arr.concrete_indices(inl_dim)
        if ci is not None:
            tot = 0
            for c in ci:
                tot = arr.t_bin("add", tot, body([c]))
            return tot
        from .bigsum import bigsum
        return bigsum([inl_dim], body)

    return SArray(dims, elem, "real")


def conv_general_dilated_patches(lhs, filter_shape, window_strides, padding, lhs_dilation=None, rhs_dilation=None,
                                 dimension_numbers=None, **kw):
    """patches[n, c*prod(filter_shape) + flat(a), x...] = lhs[n, x*stride + a - lo ..., c]   (output 'NCHW' layout,
    channel-major then filter position, as documented)"""
    _used("lax.conv_general_dilated_patches (channel-major patch extraction)")
    lhs = lift(lhs)
    dn = dimension_numbers
    if dn not in (("NHWC", "OIHW", "NCHW"), ("NHWDC", "OIHWD", "NCHWD")):
        raise OutOfReach(f"conv_general_dilated_patches: dimension numbers {dn} not modelled")
    D = len(dn[0]) - 2
    M = [concrete_int(m) for m in filter_shape]
    stride = [concrete_int(s) for s in window_strides]
    pads = [tuple(p) for p in padding]
    if any(v is None for v in M + stride) or lhs_dilation is not None or rhs_dilation is not None:
        raise OutOfReach("conv_general_dilated_patches: symbolic window / dilations not modelled")
    if any(concrete_int(p[0]) != 0 or concrete_int(p[1]) != 0 for p in pads):
        raise OutOfReach("conv_general_dilated_patches: padding not modelled")
    N = [extent(d) for d in lhs.dims[1:1 + D]]
    out_sp = [Atom(out_extent(N[d], M[d], stride[d], 0, 0, 1, 1)) for d in range(D)]
    Cdim = lhs.dims[1 + D]
    fdim = arr.mkprod([Cdim] + [Atom(m) for m in M])
    dims = [lhs.dims[0], fdim] + out_sp

    def elem(idx):
        n, f = idx[0], idx[1]
        if isinstance(f, arr.Flat):
            raise OutOfReach("patches: flat feature index")
        fv = list(f)
        nc = len(factors(Cdim))
        c = tuple(fv[:nc]) if isinstance(Cdim, Prod) else fv[0]
        a = fv[nc:]
        pos = [z3.simplify(zi(idx[2 + d]) * stride[d] + zi(a[d])) for d in range(D)]
        return lhs.elem([n] + pos + [c])

    return SArray(dims, elem, lhs.dtype)
