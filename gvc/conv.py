"""contract model of jax.lax.conv_general_dilated (filled in by the convolution stage)"""
from .sym import OutOfReach


def conv_general_dilated(*a, **k):
    raise OutOfReach("conv_general_dilated model not available")


def conv_general_dilated_patches(*a, **k):
    raise OutOfReach("conv_general_dilated_patches model not available")
