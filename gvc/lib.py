"""gvc.lib -- contract models of the libraries ginjax is written against (assumed contracts).

Installed into sys.modules under the names jax, jax.numpy, jax.lax, jax.random, jax.tree_util,
jax.nn, jax.typing, equinox, equinox.nn, optax, jaxtyping, wandb, matplotlib(.pyplot/.figure/.axes)
before `ginjax` is imported from the repository.  Each function is the documented semantics of the
library operation, expressed on SArray.  They are assumptions about the libraries (listed in every
evidence file) -- what is verified is how ginjax *uses* them.
"""
from __future__ import annotations
import sys, types, itertools, math as _math, builtins
import numpy as _np
import z3
from . import sym, arr
from .sym import OutOfReach, Refuted, SInt, SReal, SBool, zi, zr, mk, valid, concrete_int
from .arr import SArray, Atom, Prod, Sum, Br, Flat, lift, extent

USED = set()       # names of library contracts actually exercised by a run (goes into evidence)


def used(name):
    USED.add(name)


# ------------------------------------------------------------------------------------------------
# generic iteration (loops / comprehensions over symbolic ranges)


PRODUCT_FACTORS = {}


def _mul_factors(t):
    """multiplicative factors of an integer term: M*M*2 -> [M, M, 2] (z3 flattens / reorders products; powers are expanded)"""
    if z3.is_app(t) and t.decl().kind() == z3.Z3_OP_MUL:
        out = []
        for c in t.children():
            out += _mul_factors(c)
        return out
    if z3.is_app(t) and t.decl().kind() == z3.Z3_OP_POWER and z3.is_int_value(t.arg(1)):
        return _mul_factors(t.arg(0)) * t.arg(1).as_long()
    return [t]


class SRange:
    """range(n) with symbolic n: iterating yields ONE generic representative i with 0 <= i < n.
    Sound only for loop bodies without loop-carried state (checked per use site by the contract)."""

    def __init__(self, n, lo=0):
        self.n = n
        self.lo = lo
        self.var = None

    def __len__(self):
        raise OutOfReach("len(range(symbolic))")

    def __iter__(self):
        v = z3.Int(sym.fresh_name("it"))
        self.var = v
        GENERIC[v.get_id()] = (v, self.n)
        sym.CTX.path += [v >= zi(self.lo), v < zi(self.lo) + zi(self.n)]
        sym.CTX.trace.append(f"generic iteration over range({self.n})")
        yield SInt(v)


GENERIC = {}


def srange(*a):
    a = tuple(arr.scalar_of(x.elem(())) if isinstance(x, SArray) and x.ndim == 0 else x for x in a)
    if any(isinstance(x, SInt) for x in a):
        if len(a) == 1:
            return SRange(a[0])
        if len(a) == 2:
            return SRange(a[1] - a[0], a[0])
        raise OutOfReach("range with symbolic step")
    return builtins.range(*[x.__index__() if hasattr(x, "__index__") else x for x in a])


class GenericProduct:
    """itertools.product over ranges some of which are symbolic: yields one generic key tuple"""

    def __init__(self, ranges):
        self.ranges = ranges

    def __iter__(self):
        key = []
        atoms = []
        for r in self.ranges:
            if isinstance(r, SRange):
                if concrete_int(r.lo) != 0:
                    raise OutOfReach("product over shifted symbolic range")
                a = Atom(r.n)
            else:
                r = list(r)
                if r != list(range(len(r))):
                    raise OutOfReach("product over non-range iterable mixed with symbolic ranges")
                a = Atom(len(r))
            v = z3.Int(sym.fresh_name("key"))
            atoms.append(a)
            key.append(v)
        for v, a in zip(key, atoms):
            GENERIC_KEYS[v.get_id()] = (key, atoms)
        sym.CTX.trace.append(f"generic representative for product of ranges {[a.ext for a in atoms]}")
        yield tuple(SInt(v) for v in key)


GENERIC_KEYS = {}


def slen(x):
    if isinstance(x, SArray):
        return x.slen()
    if isinstance(x, SRange):
        return x.n
    if hasattr(x, "gvc_slen"):       # ghost sequences of symbolic length (loop-contract drivers)
        return x.gvc_slen()
    return builtins.len(x)


def sint(x, *a):
    if isinstance(x, SInt):
        return x
    if isinstance(x, SReal):
        if getattr(x, "ratio", None) is not None:
            raise OutOfReach("int() truncation of a symbolic ratio")
        if valid(z3.IsInt(x.e)):
            return mk(z3.ToInt(x.e))
        raise OutOfReach("int() of a symbolic real")
    if isinstance(x, SArray):
        if x.ndim == 0:
            t = x.elem(())
            if arr.is_z3(t) and t.sort() == z3.IntSort():
                return mk(t)
            if arr._num(t):
                return builtins.int(t)
        raise OutOfReach("int() of a symbolic array")
    return builtins.int(x, *a)


def sfloat(x=0.0):
    from .reps import Rep
    if isinstance(x, SReal):
        return SReal(x.e, x.inf)
    if isinstance(x, SInt):
        return SReal(zr(x))
    if isinstance(x, Rep):
        return x.as_real()
    if isinstance(x, SArray):
        if x.ndim == 0:
            t = x.elem(())
            if arr._num(t):
                return builtins.float(t)
            return SReal(z3.simplify(arr.t_z3(t, True)))
        raise TypeError("only size-1 arrays can be converted to Python scalars")
    return builtins.float(x)


class _FloatMeta(type):
    """the name `float` inside ginjax.ml.stopping_conditions: callable like float() on proxies, and usable as the second
    argument of isinstance (a Python float, or a symbolic real that stands for one; numpy / jax scalar proxies are not)"""

    def __call__(cls, x=0.0):
        return sfloat(x)

    def __instancecheck__(cls, x):
        return isinstance(x, builtins.float) or type(x) is SReal


class FloatShim(metaclass=_FloatMeta):
    pass


class MathShim:
    def __getattr__(self, n):
        return getattr(_math, n)

    def floor(self, x):
        if isinstance(x, SReal):
            r = getattr(x, "ratio", None)
            if r is not None:
                return sym.int_floordiv(r[0], r[1])
            return mk(z3.ToInt(x.e))
        if isinstance(x, SInt):
            return x
        return _math.floor(x)

    def prod(self, xs, start=1):
        r = start
        for x in xs:
            r = r * x
        return r


def _truediv_with_ratio(self, o):
    r = _orig_sint_truediv(self, o)
    if isinstance(r, SReal) and isinstance(o, (int, SInt)):
        r.ratio = (self, o)
    return r


_orig_sint_truediv = SInt.__truediv__
SInt.__truediv__ = _truediv_with_ratio


# ------------------------------------------------------------------------------------------------
# numpy / jax.numpy

def _rint_term(t):
    if arr._num(t):
        return builtins.int(_np.rint(t))
    if t.sort() == z3.IntSort():
        return t
    t = z3.simplify(t)
    if valid(z3.IsInt(t)):
        return z3.simplify(z3.ToInt(t))
    f = z3.ToInt(t)
    frac = t - z3.ToReal(f)
    return z3.If(frac < 0.5, f, z3.If(frac > 0.5, f + 1, z3.If(f % 2 == 0, f, f + 1)))


def _to_int_term(t):
    if arr._num(t):
        return builtins.int(t)
    if t.sort() == z3.IntSort():
        return t
    if valid(z3.IsInt(t)):
        return z3.simplify(z3.ToInt(t))
    raise OutOfReach("astype(int) of a possibly non-integral term")


def _astype(self, t):
    name = getattr(t, "__name__", str(t))
    if t is builtins.int or "int" in str(name):
        if self.dtype == "int":
            return self
        return SArray(self.dims, lambda idx: _to_int_term(self.elem(idx)), "int", self.taint)
    if self.dtype == "int":
        return SArray(self.dims, self._elem, "real", self.taint)
    return self


SArray.astype = _astype
SArray.__array_ufunc__ = None


def _remainder_term(x, d):
    if arr._num(x) and arr._num(d):
        return x % d
    ex, ed = (x if arr.is_z3(x) else arr.t_z3(x)), (d if arr.is_z3(d) else arr.t_z3(d))
    if ex.sort() == z3.RealSort():
        if valid(z3.IsInt(ex)):
            ex = z3.simplify(z3.ToInt(ex))
        else:
            raise OutOfReach("remainder of a non-integral real")
    r = sym.int_mod(mk(ex), mk(ed))
    return r.e if isinstance(r, SInt) else r


class NumpyModel(types.ModuleType):
    """shared by the `np` shim (falls through to real numpy on concrete data) and jax.numpy"""

    def __init__(self, name, real=None):
        super().__init__(name)
        self._real = real
        self.ndarray = SArray if real is None else (SArray, _np.ndarray)
        self.float32 = "float32"
        self.float64 = "float64"
        self.int32 = "int32"
        self.inf = SReal(z3.RealVal(0), z3.BoolVal(True)) if real is None else _np.inf
        self.pi = _math.pi
        self.newaxis = None
        self.linalg = _Linalg(self)
        self.multiply = _Ufunc("mul", self)
        self.add = _Ufunc("add", self)
        self.__path__ = []

    def __getattribute__(self, n):
        v = types.ModuleType.__getattribute__(self, n)
        if n.startswith("_") or not isinstance(v, (types.MethodType, types.FunctionType)):
            return v            # only plain methods are wrapped (ufunc objects such as np.multiply keep their .reduce)
        if types.ModuleType.__getattribute__(self, "_real") is None:
            return v
        # the numpy shim: numpy arrays are MUTABLE -- `a += b` changes the object every alias sees (jax arrays are immutable,
        # there `a += b` rebinds).  Symbolic results of numpy functions are marked so that SArray's in-place operators mutate.
        import functools as _ft

        @_ft.wraps(v)
        def marked(*a, **k):
            r = v(*a, **k)
            if isinstance(r, SArray):
                r._mutable = True
            return r
        return marked

    def __getattr__(self, n):
        if n.startswith("__"):
            raise AttributeError(n)
        if self._real is not None:
            return getattr(self._real, n)
        raise OutOfReach(f"library function {self.__name__}.{n} is not modelled")

    def _sym(self, *xs):
        def has(x):
            if isinstance(x, (SArray, SInt, SReal, SRange)):
                return True
            if isinstance(x, (list, tuple)):
                return any(has(v) for v in x)
            return arr.is_z3(x)
        return any(has(x) for x in xs)

    def dtype(self, *a, **k):
        return object

    # constructors
    def array(self, x, *a, dtype=None, **k):
        if NARROW_F64[0] and self._real is None:
            # jnp.asarray of a 64-bit scalar (python float / numpy.float64) with x64 disabled (the JAX default) yields a float32
            # array: the value is ROUNDED.  Modelled by an uninterpreted rounding function (idempotent); 32-bit inputs are exact.
            from . import reps
            if isinstance(x, reps.NpFloat64) or (isinstance(x, SReal) and not isinstance(x, reps.Rep)):
                used("jnp.asarray(64-bit scalar) rounds to float32 (uninterpreted rounding function)")
                t = F32(x.e)
                return SArray([], lambda idx: t, "real")
            if isinstance(x, (reps.NpFloat32, reps.Jax0d)):
                t = x.e
                return SArray([], lambda idx: t, "real")
        if self._real is not None and not self._sym(x):
            return self._real.array(x, *a, **({"dtype": dtype} if dtype is not None else {}), **k)
        used("array")
        if isinstance(x, list) and len(x) == 1 and self._generic_key_vars(x[0]):
            return self._lift_generic(x[0])
        if isinstance(x, SArray):
            return x
        r = lift(x)
        return r

    asarray = array

    def _generic_key_vars(self, el):
        ids = set()
        for v in (el if isinstance(el, (tuple, list)) else [el]):
            t = v.e if isinstance(v, SInt) else v
            if arr.is_z3(t):
                for u in _free_vars(t):
                    if u.get_id() in GENERIC_KEYS:
                        ids.add(GENERIC_KEYS[u.get_id()][0][0].get_id())
        return ids

    def _lift_generic(self, el):
        ids = self._generic_key_vars(el)
        if len(ids) != 1:
            raise OutOfReach("list over several generic iterations")
        key, atoms = GENERIC_KEYS[next(iter(ids))]
        vals = list(el) if isinstance(el, (tuple, list)) else None
        if vals is None:
            raise OutOfReach("generic list of scalars")
        terms = [arr.t_norm(v) for v in vals]
        d0 = arr.mkprod(atoms)

        def elem(idx):
            digs = idx[0] if isinstance(d0, Prod) else (idx[0],)
            j = idx[1]
            if arr.is_z3(j):
                raise OutOfReach("symbolic component index of a generic key array")
            t = terms[builtins.int(j)]
            if arr.is_z3(t):
                t = z3.substitute(t, *[(kv, zi(dv)) for kv, dv in zip(key, digs)])
                t = z3.simplify(t)
            return t

        return SArray([d0, Atom(len(terms))], elem, "int")

    def zeros(self, shape, dtype=None):
        if self._real is not None and not self._sym(shape):
            return self._real.zeros(shape, **({"dtype": dtype} if dtype else {}))
        return arr.full(shape, 0)

    def ones(self, shape, dtype=None):
        if self._real is not None and not self._sym(shape):
            return self._real.ones(shape, **({"dtype": dtype} if dtype else {}))
        return arr.full(shape, 1)

    def full(self, shape, val, dtype=None):
        if self._real is not None and not self._sym(shape, val):
            return self._real.full(shape, val)
        used("full (broadcast)")
        return arr.full(shape, val)

    def eye(self, n, dtype=None):
        if not self._sym(n):
            return lift(_np.eye(builtins.int(n)))
        # symbolic size: n is taken apart into its multiplicative factors (M*M*2 -> [M, M, 2]); both axes get that product
        # structure (own atoms per axis), so that a later reshape to the factor extents regroups instead of dividing, and
        # eye[r, c] = [r == c] is the conjunction of the component equalities (mixed-radix injectivity: lean/Rules.lean)
        used("eye (identity matrix; symbolic size as a product of its factors)")
        rec = PRODUCT_FACTORS.get(zi(n).get_id())
        fs = rec[1] if rec is not None and rec[0].eq(zi(n)) else sorted(_mul_factors(zi(n)), key=lambda f: z3.is_int_value(f))
        rows = [Atom(mk(f), f"eyeR{i}") for i, f in enumerate(fs)]
        cols = [Atom(mk(f), f"eyeC{i}") for i, f in enumerate(fs)]
        rd, cd = arr.mkprod(rows), arr.mkprod(cols)

        def elem(idx):
            r, c = idx
            if isinstance(r, arr.Flat) or isinstance(c, arr.Flat):
                return arr.t_cond(zi(arr.to_flat(rd, r)) == zi(arr.to_flat(cd, c)), 1)
            rs = list(r) if isinstance(rd, arr.Prod) else [r]
            cs = list(c) if isinstance(cd, arr.Prod) else [c]
            return arr.t_cond(z3.And([zi(arr.to_flat(a, x)) == zi(arr.to_flat(b, y)) for a, x, b, y in zip(rows, rs, cols, cs)]), 1)
        return SArray([rd, cd], elem)

    def arange(self, *a, dtype=None):
        if self._real is not None and not self._sym(*a):
            return self._real.arange(*a)
        used("arange")
        return arr.arange(*a)

    def copy(self, x):
        return x

    # structure
    def reshape(self, a, shape):
        return lift(a).reshape(shape)

    def moveaxis(self, a, src, dst):
        if self._real is not None and not self._sym(a):
            return self._real.moveaxis(a, src, dst)
        used("moveaxis")
        return lift(a).moveaxis(src, dst)

    def transpose(self, a, axes=None):
        if self._real is not None and not self._sym(a):
            return self._real.transpose(a, axes)
        used("transpose")
        return lift(a).transpose(axes) if axes is not None else lift(a).transpose()

    def swapaxes(self, a, x, y):
        return lift(a).swapaxes(x, y)

    def concatenate(self, arrs, axis=0):
        arrs = list(arrs)
        if self._real is not None and not self._sym(arrs):
            return self._real.concatenate(arrs, axis)
        used("concatenate")
        return arr.concatenate(arrs, axis)

    def stack(self, arrs, axis=0):
        arrs = list(arrs)
        if self._real is not None and not self._sym(arrs):
            return self._real.stack(arrs, axis)
        used("stack")
        return arr.stack(arrs, axis)

    def expand_dims(self, a, axis):
        return arr.expand_dims(a, axis)

    def squeeze(self, a, axis=None):
        return lift(a).squeeze(axis)

    def pad(self, a, pad_width, mode="constant", **k):
        used(f"pad(mode={mode})")
        return pad(lift(a), pad_width, mode)

    def tensordot(self, a, b, axes=2):
        if self._real is not None and not self._sym(a, b):
            return self._real.tensordot(a, b, axes)
        used("tensordot(axes=0)")
        return arr.tensordot(a, b, axes)

    def einsum(self, spec, *ops, precision=None, **k):
        if self._real is not None and not self._sym(*ops):
            return self._real.einsum(spec, *ops)
        used("einsum")
        return arr.einsum(spec, *ops)

    def matmul(self, a, b):
        return arr.matmul(a, b)

    def dot(self, a, b):
        return arr.matmul(a, b)

    # elementwise
    def abs(self, a):
        if self._real is not None and not self._sym(a):
            return self._real.abs(a)
        if isinstance(a, (SInt, SReal)):
            return abs(a)
        return arr.ew1(arr.t_abs, a)

    absolute = abs

    def rint(self, a):
        if self._real is not None and not self._sym(a):
            return self._real.rint(a)
        used("rint (round half to even)")
        a = lift(a)
        return SArray(a.dims, lambda idx: _rint_term(a.elem(idx)), "int")

    def remainder(self, a, b):
        if self._real is not None and not self._sym(a, b):
            return self._real.remainder(a, b)
        used("remainder (python sign convention)")
        return arr.ewn(_remainder_term, a, b, dtype="int")

    mod = remainder

    def sqrt(self, a):
        used("sqrt (uninterpreted, congruence only)")
        if isinstance(a, (SReal, SInt)):
            tt = zr(a)
            r = SQRT(tt)
            ax = z3.Implies(tt >= 0, z3.And(r * r == tt, r >= 0))
            if not any(ax.eq(p_) for p_ in sym.CTX.path):
                sym.CTX.path.append(ax)
            if valid(tt > 0):
                sym.CTX.path.append(r > 0)         # sqrt of a positive number is positive (consequence of the axiom)
            return SReal(r)
        if not isinstance(a, SArray):
            return _math.sqrt(a)
        return arr.ew1(lambda t: SQRT(arr.t_z3(t, True)) if not arr._num(t) else _math.sqrt(t), a, "real")

    def sign(self, a):
        a = lift(a)
        return arr.ew1(lambda t: (t > 0) - (t < 0) if arr._num(t) else z3.If(t > 0, 1, z3.If(t < 0, -1, 0)), a)

    def sum(self, a, axis=None, keepdims=False, **k):
        if self._real is not None and not self._sym(a):
            return self._real.sum(a, axis=axis, keepdims=keepdims)
        used("sum")
        return arr.asum(a, axis, keepdims)

    def mean(self, a, axis=None, keepdims=False, **k):
        if self._real is not None and not self._sym(a):
            return self._real.mean(a, axis=axis, keepdims=keepdims)
        used("mean")
        r = arr.amean(a, axis, keepdims)
        if STAT_MODE[0]:
            return _as_stats(r, "mean")
        return r

    def allclose(self, a, b, rtol=1e-5, atol=1e-8):
        used("allclose (uninterpreted predicate, reflexive)")
        return allclose(a, b)

    def argmax(self, a, axis=None):
        if self._real is not None and not self._sym(a):
            return self._real.argmax(a, axis=axis)
        return argmax_model(a, axis)

    def min(self, a, *x, **k):
        if self._real is not None and not self._sym(a):
            return self._real.min(a, *x, **k)
        if isinstance(a, (list, tuple)) and all(isinstance(v, (int, SInt)) for v in a) and not x and not k:
            r = a[0]
            for v in a[1:]:
                if valid(zi(v) <= zi(r)):
                    r = v
                elif not valid(zi(r) <= zi(v)):
                    r = mk(z3.If(zi(v) < zi(r), zi(v), zi(r)))
            return r
        raise OutOfReach("min of symbolic")

    def max(self, a, *x, **k):
        if self._real is not None and not self._sym(a):
            return self._real.max(a, *x, **k)
        raise OutOfReach("max of symbolic")

    def unique(self, a, *x, **k):
        if self._real is not None and not self._sym(a):
            return self._real.unique(a, *x, **k)
        raise OutOfReach("unique of symbolic")

    def where(self, *a):
        if self._real is not None and not self._sym(*a):
            return self._real.where(*a)
        raise OutOfReach("where of symbolic")

    def trace(self, a, offset=0, axis1=0, axis2=1, **k):
        """sum of the diagonal over two axes (offset 0), the remaining axes keep their order: an einsum with a repeated letter"""
        if self._real is not None and not self._sym(a):
            return self._real.trace(a, offset=offset, axis1=axis1, axis2=axis2)
        a = lift(a)
        n = a.ndim
        if offset != 0 or n > 26:
            raise OutOfReach("trace with an offset")
        a1, a2 = axis1 % n, axis2 % n
        if a1 == a2:
            raise ValueError("axis1 and axis2 cannot be the same")
        letters = [chr(ord("a") + i) for i in range(n)]
        letters[a2] = letters[a1]
        outl = [letters[i] for i in range(n) if i not in (a1, a2)]
        used("trace (as einsum with a repeated index)")
        return arr.einsum("".join(letters) + "->" + "".join(outl), a)

    def diag(self, a):
        if self._real is not None and not self._sym(a):
            return self._real.diag(a)
        a = lift(a)
        if a.ndim != 1 or concrete_int(extent(a.dims[0])) is None:
            raise OutOfReach("diag of a symbolic-length / non 1-D array")
        used("diag (1-D -> diagonal matrix)")
        n = concrete_int(extent(a.dims[0]))

        def elem(idx):
            i, j = idx
            if arr.is_z3(i) or arr.is_z3(j):
                raise OutOfReach("diag: symbolic index")
            return a.elem([i]) if int(i) == int(j) else 0
        return SArray([Atom(n), Atom(n)], elem, "real")


def _free_vars(t):
    seen, out, stack = set(), [], [t]
    while stack:
        x = stack.pop()
        if x.get_id() in seen:
            continue
        seen.add(x.get_id())
        if z3.is_const(x) and x.decl().kind() == z3.Z3_OP_UNINTERPRETED:
            out.append(x)
        else:
            stack += x.children()
    return out


SQRT = z3.Function("sqrt", z3.RealSort(), z3.RealSort())
_ALLCLOSE = {}


def allclose(a, b):
    """uninterpreted, but reflexive: arrays that are provably element-wise equal are close"""
    a, b = lift(a), lift(b)
    st, detail, m = arr.compare(a, b, "allclose operands")
    if st == "proved":
        return True
    # otherwise an opaque boolean, functionally determined by the two operands' identities
    key = (id(a), id(b))
    if key not in _ALLCLOSE:
        _ALLCLOSE[key] = (z3.Bool(sym.fresh_name("allclose")), a, b)
    return SBool(_ALLCLOSE[key][0])


class _Ufunc:
    def __init__(self, op, mod):
        self.op = op
        self.mod = mod

    def reduce(self, xs, *a, **k):
        xs = list(xs) if not isinstance(xs, SArray) else list(xs)
        r = 1 if self.op == "mul" else 0
        for x in xs:
            r = r * x if self.op == "mul" else r + x
        if self.op == "mul" and isinstance(r, SInt):
            # remember the factors in the order given (z3 reorders products): eye(size).reshape((size,) + shape) regroups them
            PRODUCT_FACTORS[r.e.get_id()] = (r.e, [zi(x) for x in xs if concrete_int(x) != 1])
        return r

    def __call__(self, a, b):
        return arr.ew2(self.op, a, b)


class _Linalg:
    def __init__(self, mod):
        self.mod = mod

    def slogdet(self, g):
        s, l = _np.linalg.slogdet(_np.asarray(g))
        used("linalg.slogdet (concrete matrix)")
        return builtins.int(round(float(s))), float(l)

    def det(self, g):
        return _np.linalg.det(_np.asarray(g))

    def norm(self, a, axis=None, keepdims=False, ord=None):
        if self.mod._real is not None and not self.mod._sym(a):
            return _np.linalg.norm(a, axis=axis, keepdims=keepdims, ord=ord)
        used("linalg.norm = sqrt(sum of squares)")
        a = lift(a)
        s = arr.asum(a * a, axis, keepdims)

        def root(t):
            if arr._num(t):
                return _math.sqrt(t)
            from .bigsum import SumExpr
            if isinstance(t, SumExpr):
                raise OutOfReach("norm over a symbolic-extent axis")
            tt = z3.simplify(arr.t_z3(t, True), som=True, sort_sums=True)    # canonical polynomial form: equal radicands become one term
            r = SQRT(tt)
            # the radicand is, by construction (a * a summed over the axis), a sum of squares of real terms: it is >= 0
            # whatever its expanded polynomial form looks like; so the defining axiom of sqrt applies unconditionally
            ax = z3.And(tt >= 0, r * r == tt, r >= 0)
            if not any(ax.eq(p_) for p_ in sym.CTX.path):
                sym.CTX.path.append(ax)
            return r
        return arr.ew1(root, s, "real")

    def eigh(self, a, *x, **k):
        if EIGH_CTX[0] is None:
            raise OutOfReach("linalg.eigh is external numerics (assumed relational contract only)")
        return eigh_model(a)


def pad(a, pad_width, mode):
    if mode != "wrap":
        raise OutOfReach(f"pad mode {mode}")
    pw = list(pad_width)
    dims = []
    plan = []
    for d, (lo, hi) in zip(a.dims, pw):
        if concrete_int(lo) == 0 and concrete_int(hi) == 0:
            dims.append(d)
            plan.append(None)
        else:
            n = extent(d)
            # single wrap only: the contract model requires lo, hi <= n (pre-condition of the model)
            st, m = sym.refute_or_prove(z3.And(zi(lo) <= zi(n), zi(hi) <= zi(n), zi(lo) >= 0, zi(hi) >= 0))
            multi = False
            if st != "proved":
                # wider than one period: modelled for a CONCRETE extent only (out[i] = x[(i - lo) mod n], several periods)
                if concrete_int(n) is None or concrete_int(lo) is None or concrete_int(hi) is None or concrete_int(lo) < 0 or concrete_int(hi) < 0:
                    raise OutOfReach("pad(wrap) wider than the axis: outside the contract model (requires pad <= extent or a concrete extent)")
                multi = True
            nd = Atom(n + lo + hi)
            dims.append(nd)
            plan.append((lo, n, d, nd, multi))

    def elem(idx):
        j = []
        for ix, pl in zip(idx, plan):
            if pl is None:
                j.append(ix)
                continue
            lo, n, d, nd, multi = pl
            i = zi(arr.to_flat(nd, ix))
            s = i - zi(lo)
            if multi:
                j.append(Flat(z3.simplify(s % zi(n))))          # concrete modulus: linear
                continue
            if valid(z3.And(s >= 0, s < zi(n))):
                t = s
            elif valid(s < 0):
                t = s + zi(n)
            elif valid(s >= zi(n)):
                t = s - zi(n)
            else:
                t = z3.If(s < 0, s + zi(n), z3.If(s >= zi(n), s - zi(n), s))
            j.append(Flat(z3.simplify(t)))
        return a.elem(j)

    return SArray(dims, elem, a.dtype, a.taint)


# ------------------------------------------------------------------------------------------------
# pytrees, vmap

def tree_flatten_obj(x):
    """-> (leaves, rebuild) treating SArray as leaves, objects with tree_flatten as nodes"""
    if isinstance(x, SArray):
        return [x], lambda ls: ls[0]
    if x is None or isinstance(x, (int, float, str, bool, SInt, SReal, _np.ndarray)):
        return [], lambda ls: x
    if isinstance(x, (tuple, list)):
        parts = [tree_flatten_obj(v) for v in x]
        ns = [len(p[0]) for p in parts]

        def rebuild(ls):
            out, pos = [], 0
            for (_, rb), n in zip(parts, ns):
                out.append(rb(ls[pos:pos + n]))
                pos += n
            return type(x)(out) if not hasattr(x, "_fields") else type(x)(*out)

        return [l for p in parts for l in p[0]], rebuild
    if isinstance(x, dict):
        keys = sorted(x.keys())      # jax flattens dicts in sorted key order
        parts = [tree_flatten_obj(x[k]) for k in keys]
        ns = [len(p[0]) for p in parts]

        def rebuild(ls):
            out, pos = {}, 0
            for k, (_, rb), n in zip(keys, parts, ns):
                out[k] = rb(ls[pos:pos + n])
                pos += n
            return out

        return [l for p in parts for l in p[0]], rebuild
    if isinstance(x, Module) and not (hasattr(x, "tree_flatten") and hasattr(type(x), "tree_unflatten")):
        # equinox.Module: array-valued fields (recursively) are leaves, everything else is static
        names = list(vars(x).keys())
        parts = [tree_flatten_obj(getattr(x, n)) for n in names]
        ns = [len(p[0]) for p in parts]

        def rebuild_m(ls):
            o = object.__new__(type(x))
            pos = 0
            for n, (_, rb), k in zip(names, parts, ns):
                object.__setattr__(o, n, rb(ls[pos:pos + k]))
                pos += k
            return o

        return [l for p in parts for l in p[0]], rebuild_m
    if hasattr(x, "tree_flatten") and hasattr(type(x), "tree_unflatten"):
        children, aux = x.tree_flatten()
        leaves, rb = tree_flatten_obj(tuple(children))
        used("pytree flatten/unflatten (dict children in sorted key order)")
        return leaves, lambda ls: type(x).tree_unflatten(aux, rb(ls))
    return [], lambda ls: x


VMAP_STACK = []       # placeholder index variables of the enclosing vmapped calls (uninterpreted library results created
                      # inside a vmapped function depend on them)


def vmap(f, in_axes=0, out_axes=0, **kw):
    used("vmap: vmap(f)(X)[i] = f(X[i])")

    def mapped(*args):
        axes = in_axes if isinstance(in_axes, (tuple, list)) else (in_axes,) * len(args)
        if len(axes) != len(args):
            raise ValueError("vmap in_axes length mismatch")
        flat = []
        for a, ax in zip(args, axes):
            ls, rb = tree_flatten_obj(a)
            flat.append((ls, rb, ax))
        bdim = None
        for ls, rb, ax in flat:
            if ax is None:
                continue
            for l in ls:
                d = l.dims[l._ax(ax)]
                if bdim is None:
                    bdim = d
                elif not arr.ext_eq(extent(bdim), extent(d)):
                    st, m = sym.refute_or_prove(zi(extent(bdim)) == zi(extent(d)))
                    if st == "refuted":
                        raise Refuted("vmap: mapped axes have different sizes", m)
                    raise OutOfReach("vmap sizes undecided")
        if bdim is None:
            raise ValueError("vmap needs at least one mapped array argument")
        cases = arr.fresh_cases(bdim, sym.fresh_name("vm"))
        results = []
        for bidx, hyps in cases:
            npath = len(sym.CTX.path)
            sym.CTX.path += hyps
            call_args = []
            for (ls, rb, ax), a in zip(flat, args):
                if ax is None:
                    call_args.append(a)
                    continue
                sl = []
                for l in ls:
                    axn = l._ax(ax)
                    sl.append(_slice_at(l, axn, arr.conv_idx(bdim, bidx, l.dims[axn])))
                call_args.append(rb(sl))
            VMAP_STACK.append([p_ for p_ in _placeholders(bdim, bidx, []) if arr.is_z3(p_)])
            try:
                out = f(*call_args)
            finally:
                VMAP_STACK.pop()
            extra = sym.CTX.path[npath + len(hyps):]
            vs = {v.get_id() for h in hyps for v in _free_vars(h)}
            for e in extra:
                if any(u.get_id() in vs for u in _free_vars(e)):
                    raise OutOfReach("branch on the vmapped index inside a vmapped function")
            del sym.CTX.path[npath:npath + len(hyps)]
            results.append((bidx, hyps, out))
        # assemble
        outs_flat = [tree_flatten_obj(r[2]) for r in results]
        n_leaves = len(outs_flat[0][0])
        new_leaves = []
        for li in range(n_leaves):
            per_case = [of[0][li] for of in outs_flat]
            new_leaves.append(_unslice(bdim, cases, per_case, out_axes if isinstance(out_axes, int) else 0))
        return outs_flat[0][1](new_leaves)

    return mapped


def _slice_at(a, ax, ix):
    dims = a.dims[:ax] + a.dims[ax + 1:]
    return SArray(dims, lambda idx: a.elem(list(idx[:ax]) + [ix] + list(idx[ax:])), a.dtype, a.taint)


def _placeholders(d, ix, out):
    if isinstance(d, Atom):
        if arr.is_z3(ix):
            out.append(ix)
    elif isinstance(d, Prod):
        for k, i in zip(d.kids, ix):
            _placeholders(k, i, out)
    else:
        _placeholders(d.kids[ix.b], ix.idx, out)
    return out


def _digits(d, ix, out):
    if isinstance(d, Atom):
        out.append(ix)
    elif isinstance(d, Prod):
        if isinstance(ix, Flat):
            raise OutOfReach("flat index into a vmapped product axis")
        for k, i in zip(d.kids, ix):
            _digits(k, i, out)
    else:
        _digits(d.kids[ix.b], ix.idx, out)
    return out


def _unslice(bdim, cases, per_case, out_axis):
    r0 = per_case[0]
    for r in per_case[1:]:
        if r.ndim != r0.ndim:
            raise OutOfReach("vmap: result rank depends on the branch of a concatenated batch axis")
    dims = list(r0.dims)
    dims.insert(out_axis, bdim)
    branch_of = {}

    def key_of(ix):
        if isinstance(ix, Br):
            return (ix.b,) + key_of(ix.idx)
        if isinstance(ix, tuple):
            return tuple(k for i in ix for k in key_of(i))
        return ()

    def cdig(x):
        if isinstance(x, SInt):
            x = x.e
        if arr.is_z3(x):
            x = z3.simplify(x)
            return x.as_long() if z3.is_int_value(x) else None
        return builtins.int(x)

    def full_key(ix, want=None):
        # branch choices of concatenated axes + the concrete digits of enumerated small atoms (fresh_cases with ENUM_SMALL):
        # two cases that differ only in an enumerated digit are different cases
        bk = key_of(ix)
        ds = [cdig(d) for d in _digits(bdim, ix, [])]
        if want is None:
            return bk, tuple(ds)
        pos = enum_pos.get(bk, ())
        if any(ds[i] is None for i in pos):
            raise OutOfReach("symbolic index into an enumerated digit of a vmapped axis")
        return bk, tuple(ds[i] if i in pos else None for i in range(len(ds)))

    enum_pos = {}
    for (bidx, hyps), r in zip(cases, per_case):
        bk, ds = full_key(bidx)
        enum_pos.setdefault(bk, tuple(i for i, d in enumerate(ds) if d is not None))
    for (bidx, hyps), r in zip(cases, per_case):
        branch_of[full_key(bidx, True)] = (bidx, r)

    def elem(idx):
        bi = idx[out_axis]
        rest = list(idx[:out_axis]) + list(idx[out_axis + 1:])
        if isinstance(bi, Flat):
            if isinstance(bdim, Atom):
                bi = bi.t
            else:
                raise OutOfReach("flat index into a vmapped structured axis")
        if isinstance(bi, SInt):
            bi = bi.e
        fk = full_key(bi, True)
        pb, r = branch_of[fk]
        # other cases may have differently-structured result dims; convert
        rest = [arr.conv_idx(d0, ix, d1) for d0, ix, d1 in zip(r0.dims, rest, r.dims)]
        # evaluate with the placeholders bound as hypotheses, then substitute
        phs = _placeholders(bdim, pb, [])
        digs = [d for d in _digits(bdim, bi, [])]
        if len(phs) == 0:
            return r.elem(rest)
        # pair placeholders with digits (skip concrete unit digits)
        pairs = []
        ds = [d for d, p in zip(_digits(bdim, bi, []), _digits(bdim, pb, [])) if arr.is_z3(p)]
        for p, d in zip(phs, ds):
            pairs.append((p, zi(d)))
        hy = [h for (b2, hs) in cases if full_key(b2, True) == fk for h in hs]
        with sym.scope(hy):
            t = r.elem(rest)
        return _subst(t, pairs)

    return SArray(dims, elem, r0.dtype, r0.taint)


def _subst(t, pairs):
    from .bigsum import SumExpr, Term
    if arr._num(t):
        return t
    if isinstance(t, SumExpr):
        return SumExpr(_subst(t.plain, pairs), [Term(_subst(x.coef, pairs), x.vars, [_subst(e, pairs) for e in x.exts],
                                                     [_subst(h, pairs) for h in x.hyps], _subst(x.body, pairs)) for x in t.terms])
    return z3.substitute(t, *pairs)


# ------------------------------------------------------------------------------------------------
class _Any:
    def __init__(self, name="any"):
        self._n = name

    def __getattr__(self, n):
        if n.startswith("__"):
            raise AttributeError(n)
        return _Any(self._n + "." + n)

    def __call__(self, *a, **k):
        raise OutOfReach(f"{self._n} is not modelled")


def _ident_decorator(f=None, *a, **k):
    if callable(f):
        return f
    return lambda g: g


class InferenceModeSet:
    """ghost result of eqx.nn.inference_mode on an opaque model: NOT the model itself (its `inference` flags were overwritten)"""

    def __init__(self, model, value):
        self.model, self.value = model, value

    def __repr__(self):
        return f"inference_mode({self.model!r}, value={self.value})"


def inference_mode(m, value=True):
    """eqx.nn.inference_mode: a copy of the pytree in which every `inference` attribute is set to `value`"""
    used("eqx.nn.inference_mode (copy with every `inference` flag overwritten)")

    def go(x):
        if isinstance(x, Module):
            o = object.__new__(type(x))
            for n, v in vars(x).items():
                object.__setattr__(o, n, value if n == "inference" else go(v))
            return o
        if isinstance(x, (list, tuple)) and not hasattr(x, "_fields"):
            return type(x)(go(v) for v in x)
        if isinstance(x, dict):
            return {k_: go(v) for k_, v in x.items()}
        return x
    if isinstance(m, Module):
        return go(m)
    return InferenceModeSet(m, value)


def jit(f=None, *a, static_argnums=(), static_argnames=(), **k):
    """jax.jit / eqx.filter_jit: the function itself, with every non-static argument and the result taken through a pytree
    flatten / unflatten (what tracing does): dict-valued children come back in SORTED key order, aux data is kept.  A jitted
    helper that relies on the caller's insertion order is therefore executed with the order it really sees."""
    if f is None or not callable(f):
        return lambda g: jit(g, static_argnums=static_argnums, static_argnames=static_argnames)
    sa = set([static_argnums] if isinstance(static_argnums, builtins.int) else list(static_argnums or ()))
    sn = set([static_argnames] if isinstance(static_argnames, str) else list(static_argnames or ()))
    import functools as _ft

    def rt(x):
        try:
            ls, rb = tree_flatten_obj(x)
            return rb(ls)
        except (OutOfReach, Refuted):
            raise
        except Exception:
            return x

    @_ft.wraps(f)
    def jitted(*args, **kwargs):
        used("jit: identity up to a pytree flatten / unflatten of arguments and result")
        args2 = [x if i in sa else rt(x) for i, x in enumerate(args)]
        kw2 = {n: (v if n in sn else rt(v)) for n, v in kwargs.items()}
        return rt(f(*args2, **kw2))
    jitted.__wrapped_by_gvc_jit__ = True
    return jitted


class _DummyModule(types.ModuleType):
    """permissive stand-in for plotting / IO packages that the verified code never enters"""

    def __getattr__(self, n):
        if n.startswith("__"):
            raise AttributeError(n)
        return _Any(self.__name__ + "." + n)


class _DummyFinder:
    PREFIXES = ("matplotlib", "mpl_toolkits", "cmastro", "imageio", "h5py", "xarray", "netCDF4", "tqdm")

    def find_spec(self, name, path=None, target=None):
        import importlib.machinery
        if name.split(".")[0] in self.PREFIXES:
            return importlib.machinery.ModuleSpec(name, self, is_package=True)
        return None

    def create_module(self, spec):
        m = _DummyModule(spec.name)
        m.__path__ = []
        return m

    def exec_module(self, module):
        pass


def _install_dummy_finder():
    if not any(isinstance(f, _DummyFinder) for f in sys.meta_path):
        sys.meta_path.insert(0, _DummyFinder())
    for name in list(sys.modules):
        if name.split(".")[0] in _DummyFinder.PREFIXES:
            del sys.modules[name]


class _ModelModule(types.ModuleType):
    def __getattr__(self, n):
        if n.startswith("__"):
            raise AttributeError(n)
        raise OutOfReach(f"library attribute {self.__name__}.{n} is not modelled")


def _mod(name, **attrs):
    m = _ModelModule(name)
    m.__dict__.update(attrs)
    m.__path__ = []
    return m


class Module:
    """stand-in for equinox.Module: a plain base class (dataclass freezing is not modelled)"""


def _field(**k):
    return None


def stop_gradient(x):
    used("lax.stop_gradient (identity on values; clears the gradient-path taint)")
    ls, rb = tree_flatten_obj(x)
    return rb([SArray(l.dims, l._elem, l.dtype, None) for l in ls])


def random_split(key, num=2):
    used("random.split (fresh opaque keys)")
    return tuple(("key", sym.fresh_name("k")) for _ in range(num))


def random_permutation(key, n):
    """some bijection of range(n): uninterpreted function with inverse (axioms via PERM_AXIOMS)"""
    used("random.permutation (an arbitrary bijection of range(L), a function of the key)")
    ck = (id(key) if not isinstance(key, (tuple, str, int)) else key, str(n))
    if ck in _PERM_CACHE:
        return _PERM_CACHE[ck]
    name = sym.fresh_name("perm")
    f = z3.Function(name, z3.IntSort(), z3.IntSort())
    finv = z3.Function(name + "_inv", z3.IntSort(), z3.IntSort())
    PERMS.append((f, finv, n))
    d = Atom(n)

    def elem(idx):
        i = zi(idx[0])
        t = f(i)
        # instantiate the bijection axioms at this point
        ax = [z3.And(t >= 0, t < zi(n)), finv(t) == i]
        for a_ in ax:
            if not any(a_.eq(p) for p in sym.CTX.path):
                sym.CTX.path.append(a_)
        return t

    out = SArray([d], elem, "int")
    _PERM_CACHE[ck] = out
    return out


PERMS = []
_PERM_CACHE = {}


def random_uniform(key, shape=(), minval=0.0, maxval=1.0, **k):
    used("random.uniform (fresh opaque array)")
    dims = [Atom(s) for s in shape]
    return arr.source(sym.fresh_name("W"), dims)


def install():
    """put the contract models into sys.modules (before ginjax is imported)"""
    jnp = NumpyModel("jax.numpy")
    lax = _mod("jax.lax", Precision=type("Precision", (), {"HIGH": 1, "HIGHEST": 2, "DEFAULT": 0}),
               stop_gradient=stop_gradient, linalg=_Any("jax.lax.linalg"))
    from . import conv as _conv
    lax.conv_general_dilated = _conv.conv_general_dilated
    lax.conv_general_dilated_patches = _conv.conv_general_dilated_patches
    tu = _mod("jax.tree_util", register_pytree_node_class=lambda c: c,
              tree_leaves=lambda t, is_leaf=None: tree_flatten_obj(t)[0])
    rnd = _mod("jax.random", split=random_split, permutation=random_permutation, uniform=random_uniform,
               normal=random_uniform, PRNGKey=lambda s: ("key", s))
    nn = _mod("jax.nn", relu=ACT("relu"), gelu=ACT("gelu"), tanh=ACT("tanh"))
    jax = _mod("jax", numpy=jnp, lax=lax, tree_util=tu, random=rnd, nn=nn,
               typing=_mod("jax.typing", ArrayLike=object), jit=jit, vmap=vmap,
               Array=SArray, Device=object, devices=lambda: DEVICES[0])
    eqnn = _mod("equinox.nn", State=object, Identity=lambda *a, **k: (lambda x, *r, **kk: x), GroupNorm=GroupNormModel,
                BatchNorm=_Any("eqx.nn.BatchNorm"), Conv=_Any("eqx.nn.Conv"), ConvTranspose=_Any("eqx.nn.ConvTranspose"),
                inference_mode=inference_mode)

    def filter_vmap(f=None, **kw):
        if f is None:
            return lambda g: filter_vmap(g, **kw)

        def mapped(*args, **kwargs):
            if kwargs:
                raise OutOfReach("filter_vmap with keyword arguments")
            axes = tuple(0 if tree_flatten_obj(a)[0] else None for a in args)
            return vmap(f, in_axes=axes)(*args)
        return mapped

    eqx = _mod("equinox", Module=Module, field=_field, filter_jit=jit, filter_vmap=filter_vmap,
               nn=eqnn, is_array=lambda x: isinstance(x, SArray),
               tree_serialise_leaves=_Any("eqx.tree_serialise_leaves"),
               tree_deserialise_leaves=_Any("eqx.tree_deserialise_leaves"),
               filter=_Any("eqx.filter"), filter_pmap=_Any("eqx.filter_pmap"),
               filter_value_and_grad=_Any("eqx.filter_value_and_grad"), tree_at=_Any("eqx.tree_at"),
               apply_updates=_Any("eqx.apply_updates"))
    mods = {
        "jax": jax, "jax.numpy": jnp, "jax.lax": lax, "jax.tree_util": tu, "jax.random": rnd, "jax.nn": nn,
        "jax.typing": jax.typing, "equinox": eqx, "equinox.nn": eqnn,
        "optax": _mod("optax", GradientTransformation=object),
        "jaxtyping": _mod("jaxtyping", ArrayLike=object),
        "wandb": _mod("wandb", log=lambda *a, **k: None),
    }
    _install_dummy_finder()
    sys.modules.update(mods)
    return mods


DEVICES = [["cpu0"]]


class ACT:
    """named scalar activation: an uninterpreted real function applied element-wise"""

    def __init__(self, name):
        self.name = name
        self.f = z3.Function("act_" + name, z3.RealSort(), z3.RealSort())

    def __call__(self, x):
        used(f"activation {self.name} (uninterpreted element-wise function)")
        return arr.ew1(lambda t: self.f(arr.t_z3(t, True)), x, "real")


# ------------------------------------------------------------------------------------------------
# loops with loop-carried state: induction through the real loop body

class InductiveRange:
    """Stand-in for `range(n)` (n >= 1 symbolic) in a function whose loop carries state.

    The real loop body is executed three times inside the unmodified function:
      1. iteration 0 on the real initial state; then `after(1)` must establish the invariant at 1 (base)
      2. `havoc(i)` puts the captured state objects into the invariant at a symbolic i (1 <= i < n);
         the body runs again; `after(i+1)` must show the invariant at i+1 (inductive step)
      3. `havoc(n)` puts the state into the invariant at n, the loop exits and the code after the
         loop runs on it (exit: post-condition checked by the caller on the function's result).
    The driver supplies havoc/after callbacks that read / mutate the captured objects in place.
    Sound only if the loop body's carried state is exactly what the driver captures -- the contract
    checks the loop's source shape (names assigned in the body) before using this."""

    def __init__(self, n, havoc, after):
        self.n, self.havoc, self.after = n, havoc, after
        self.failures = []

    def __iter__(self):
        yield 0
        r = self.after(1, "base")
        if r is not None:
            self.failures.append(r)
        i = z3.Int(sym.fresh_name("iter"))
        sym.CTX.path += [i >= 1, i < zi(self.n)]
        self.havoc(SInt(i))
        yield SInt(i)
        r = self.after(mk(i + 1), "step")
        if r is not None:
            self.failures.append(r)
        self.havoc(self.n)


def frame_havoc(frame, **kw):
    """overwrite local variables of a running frame (CPython <= 3.12: f_locals snapshot + PyFrame_LocalsToFast).
    Used by loop-contract drivers: the state of the real, unmodified function is put into an arbitrary state satisfying the
    loop invariant, then the real loop body runs on it."""
    import ctypes
    loc = frame.f_locals
    missing = [k for k in kw if k not in frame.f_code.co_varnames]
    if missing:
        raise OutOfReach(f"loop contract names locals that the function does not have: {missing}")
    loc.update(kw)
    ctypes.pythonapi.PyFrame_LocalsToFast(ctypes.py_object(frame), ctypes.c_int(0))
    back = frame.f_locals
    for k, v in kw.items():
        if back.get(k, None) is not v:
            raise OutOfReach("frame havoc did not take effect (interpreter does not support it)")


class Poison:
    """value of a loop-assigned local that the invariant says nothing about: any use is an error of the loop contract
    (the body read a variable before assigning it in this iteration)"""

    def __init__(self, name):
        object.__setattr__(self, "_n", name)

    def _boom(self, *a, **k):
        raise OutOfReach(f"loop body reads '{object.__getattribute__(self, '_n')}' carried over from the previous iteration; the loop contract does not constrain it")
    __getattr__ = __call__ = __iter__ = __bool__ = __add__ = __radd__ = __sub__ = __rsub__ = __mul__ = __rmul__ = _boom
    __truediv__ = __rtruediv__ = __len__ = __getitem__ = __eq__ = __ne__ = __lt__ = __gt__ = __le__ = __ge__ = __hash__ = _boom


def loop_names(fn, which=0, nested=False):
    """names assigned inside the `which`-th top-level loop of fn (nested=True: inside its first inner loop), and the AST dump
    of that loop's header: the key of a loop contract."""
    import ast, inspect, textwrap
    tree = ast.parse(textwrap.dedent(inspect.getsource(fn)))
    loops = [n for n in ast.walk(tree) if isinstance(n, (ast.For, ast.While))]
    outer = [l for l in loops if not any(l is not m and l in ast.walk(m) for m in loops)]
    loop = outer[which]
    if nested:
        inner = [n for n in ast.walk(loop) if isinstance(n, (ast.For, ast.While)) and n is not loop]
        loop = inner[0]
    names = set()
    for node in ast.walk(loop):
        if isinstance(node, ast.Name) and isinstance(node.ctx, ast.Store):
            names.add(node.id)
    header = ast.dump(loop.test) if isinstance(loop, ast.While) else ast.dump(loop.target) + " in " + ast.dump(loop.iter)
    return names, header, len(outer)


def loop_shape(fn, expect_assigned):
    """AST guard for InductiveRange / generic iteration: the (single) for-loop of `fn` assigns exactly
    the expected set of names in its body.  Returns None if ok, else a description."""
    import ast, inspect, textwrap
    try:
        tree = ast.parse(textwrap.dedent(inspect.getsource(fn)))
    except (OSError, SyntaxError) as ex:
        return f"cannot read source: {ex}"
    loops = [n for n in ast.walk(tree) if isinstance(n, (ast.For, ast.While))]
    outer = [l for l in loops if not any(l is not m and l in ast.walk(m) for m in loops)]
    if len(outer) != 1:
        return f"expected exactly one top-level loop, found {len(outer)}"
    names = set()
    for node in ast.walk(outer[0]):
        if isinstance(node, ast.Name) and isinstance(node.ctx, ast.Store):
            names.add(node.id)
        if isinstance(node, ast.AugAssign) and isinstance(node.target, ast.Name):
            names.add(node.target.id)
    if names != set(expect_assigned):
        return f"loop assigns {sorted(names)}, contract expects {sorted(expect_assigned)}"
    return None


# ------------------------------------------------------------------------------------------------
# statistics registry: symbolic sums that must enter non-linear arithmetic (variance, division by a norm)
# are named by a real symbol; two sums proved equal (up to sign) by the BigSum rules share the symbol

NARROW_F64 = [False]     # set by C19: jnp.asarray of a 64-bit python / numpy scalar narrows to float32 (see NumpyModel.array)
F32 = z3.Function("round_to_float32", z3.RealSort(), z3.RealSort())

STATS = []
STAT_MODE = [False]      # when set, jnp.mean returns registered statistics symbols (so that they can enter products)
EIGH_CTX = [None]        # dict(col, sgn, t, calls=[]) : context of the assumed contract of linalg.eigh (see eigh_model)


def _as_stats(r, name):
    """array whose elements are sums over symbolic ranges -> the same array with each element replaced by its registered
    statistics symbol (lib.opaque_stat: provably equal / opposite sums get the same / the negated symbol)"""
    r = lift(r)

    def elem(idx):
        if any(arr.is_z3(i) for i in _flat_idx(idx)):
            raise OutOfReach("statistics array indexed symbolically")
        return _stat_term(r.elem(list(idx)), name)
    return SArray(list(r.dims), elem, "real")


def _flat_idx(idx):
    for i in idx:
        if isinstance(i, (tuple, list)):
            yield from _flat_idx(i)
        elif isinstance(i, arr.Flat):
            yield i.t if hasattr(i, "t") else i
        else:
            yield i


_STAT_CACHE = {}


def _stat_term(t, name):
    from .bigsum import SumExpr
    if not isinstance(t, SumExpr):
        return t
    if not t.terms:
        return t.plain
    return arr.t_bin("add", t.plain, opaque_stat(SumExpr(0, t.terms), name))


ARGMAX_NO_TIES = [False]    # pre-condition of the statement for max pooling: the maximum of every patch is attained once


def argmax_model(a, axis):
    """contract of jnp.argmax over an axis of concrete extent P: the result r (an uninterpreted function of the remaining
    index digits) satisfies 0 <= r < P and a[.., j, ..] <= a[.., r, ..] for every j; under the no-ties pre-condition the
    entries along the axis are pairwise different.  (jax returns the FIRST maximiser; which one is immaterial under the
    no-ties pre-condition, and without it nothing more is assumed.)  The axioms are instantiated for every application of
    the function that occurs in a goal (sym.instantiate_axioms)."""
    a = lift(a)
    if axis is None:
        raise OutOfReach("argmax over the flattened array")
    ax = a._ax(axis)
    P = concrete_int(extent(a.dims[ax]))
    if P is None or P > 27:
        raise OutOfReach("argmax over a symbolic / long axis")
    used("argmax (an index attaining the maximum; unique under the no-ties pre-condition)")
    rest = a.dims[:ax] + a.dims[ax + 1:]
    structured = arr.concrete_indices(a.dims[ax])
    if structured is None or len(structured) != P:
        raise OutOfReach("argmax: axis not enumerable")
    ndig = []
    for d in rest:
        if any(isinstance(f, Sum) for f in arr.factors(d)) or isinstance(d, Sum):
            raise OutOfReach("argmax: concatenated remaining axis")
        ndig.append(len(arr.factors(d)) if isinstance(d, Prod) else 1)
    phs = [zi(p_) for st_ in VMAP_STACK for p_ in st_]        # enclosing vmap indices: extra arguments of the function
    nph = len(phs)
    nargs = sum(ndig) + nph
    name = sym.fresh_name("argmax")
    fn = z3.Function(name, *([z3.IntSort()] * nargs + [z3.IntSort()])) if nargs else None
    no_ties = ARGMAX_NO_TIES[0]

    def rebuild(args):
        idx, pos = [], 0
        for d, n in zip(rest, ndig):
            if isinstance(d, Prod):
                it_ = iter(args[pos:pos + n])

                def build(dd):
                    if isinstance(dd, Prod):
                        return tuple(build(k) for k in dd.kids)
                    return next(it_)
                idx.append(build(d))
            else:
                idx.append(args[pos])
            pos += n
        return idx

    def vals_for(args):
        idx = rebuild(list(args[nph:]))
        vals = [arr.t_z3(a.elem(list(idx[:ax]) + [structured[j]] + list(idx[ax:])), True) for j in range(P)]
        if nph:
            vals = [z3.substitute(v, *list(zip(phs, [zi(x) for x in args[:nph]]))) for v in vals]
        return vals

    def facts_for(args, r=None):
        r = fn(*args) if r is None else r
        vals = vals_for(args)
        top = vals[P - 1]
        for j in range(P - 2, -1, -1):
            top = z3.If(r == j, vals[j], top)
        facts = [r >= 0, r < P] + [v <= top for v in vals]
        if no_ties:
            facts += [vals[i] != vals[j] for i in range(P) for j in range(i + 1, P)]
        return facts

    if fn is not None:
        sym.INSTANTIATORS[name] = facts_for
        sym.FINITE_RANGE[name] = P
        sym.FUNC_EVAL[name] = vals_for

    def elem(idx):
        digs = []
        for d, i in zip(rest, idx):
            _digits(d, i, digs)
        args = list(phs) + [zi(v) for v in digs]
        if fn is None:
            r = z3.Int(name)
            for f in facts_for([], r):
                sym.CTX.path.append(z3.simplify(f))
            return r
        return fn(*args)
    return SArray(list(rest), elem, "int")


def eigh_model(a):
    """ASSUMED contract of jnp.linalg.eigh on a (G, D, D) stack of symmetric matrices with concrete G, D:
    first call per group: eigenvalues LAM_j and an eigenvector matrix U (fresh symbols: any reals).
    a later call whose argument is PROVABLY g C g^T for the recorded argument C and the signed permutation g of the
    context returns the same eigenvalues and U' = g U diag(t), t_j = +-1 (eigenvectors of a simple spectrum are determined
    up to sign; the property module enumerates every sign vector t).  Any other argument: fresh unrelated symbols.
    For repeated eigenvalues U' = g U R with R orthogonal inside the eigenspaces; the conclusions drawn here (they
    only concern U f(LAM) U^T) carry over -- this generalisation is part of the assumption."""
    used("linalg.eigh (assumed: eigen-decomposition of g C g^T is (LAM, g U diag(+-1)); simple spectrum)")
    ctx = EIGH_CTX[0]
    a = lift(a)
    if a.ndim != 3:
        raise OutOfReach("eigh: expected a (G, D, D) stack")
    G, D = concrete_int(extent(a.dims[0])), concrete_int(extent(a.dims[1]))
    if G is None or D is None or concrete_int(extent(a.dims[2])) != D:
        raise OutOfReach("eigh: symbolic matrix size")
    C = [[[arr.t_z3(_stat_term(a.elem([gi, i, j]), "cov"), True) for j in range(D)] for i in range(D)] for gi in range(G)]
    col, sgn, t = ctx["col"], ctx["sgn"], ctx["t"]
    lam, U = [], []
    for gi in range(G):
        prev = ctx["calls"].get(gi)
        rel = False
        if prev is not None:
            C0, lam0, U0 = prev
            rel = all(sym.valid(C[gi][i][j] == sgn[i] * sgn[j] * C0[col[i]][col[j]]) for i in range(D) for j in range(D))
        if rel:
            ctx["related"] = ctx.get("related", 0) + 1
            lam.append(list(lam0))
            U.append([[sgn[i] * U0[col[i]][j] * t[j] for j in range(D)] for i in range(D)])
        else:
            l_ = [z3.Real(sym.fresh_name(f"LAM{gi}_{j}")) for j in range(D)]
            u_ = [[z3.Real(sym.fresh_name(f"EV{gi}_{i}{j}")) for j in range(D)] for i in range(D)]
            if ctx.get("psd"):
                # the argument is a Gram matrix X^T X / n (checked by the caller of this mode): eigenvalues >= 0
                for v in l_:
                    sym.CTX.path.append(v >= 0)
            if prev is None:
                ctx["calls"][gi] = (C[gi], l_, u_)
            lam.append(l_)
            U.append(u_)

    def el(idx):
        idx = [arr._num_index(i) for i in idx]
        if any(arr.is_z3(i) for i in idx):
            raise OutOfReach("eigh result indexed symbolically")
        return lam[int(idx[0])][int(idx[1])]

    def eu(idx):
        idx = [arr._num_index(i) for i in idx]
        if any(arr.is_z3(i) for i in idx):
            raise OutOfReach("eigh result indexed symbolically")
        return U[int(idx[0])][int(idx[1])][int(idx[2])]
    return SArray([Atom(G), Atom(D)], el, "real"), SArray([Atom(G), Atom(D), Atom(D)], eu, "real")


def opaque_stat(S, name="stat"):
    from .bigsum import SumExpr, sum_equal
    if not isinstance(S, SumExpr):
        return S
    from .bigsum import numeric_value
    hy = sym.CTX.all_hyps()
    v = numeric_value(S, hy)
    for (sy, S0, v0) in STATS:
        # numeric filter (sound and complete as a filter: provably equal sums have equal values in a world that satisfies
        # the hypotheses); the decision itself is sum_equal's proof
        if v is not None and v0 is not None:
            tol = 1e-7 * (1 + abs(v) + abs(v0))
            same, opp = abs(v - v0) <= tol, abs(v + v0) <= tol
        else:
            same = opp = True
        if same:
            st, _, _ = sum_equal(S, S0)
            if st == "proved":
                return sy
        if opp:
            st, _, _ = sum_equal(S, S0.scale(-1))
            if st == "proved":
                return -sy
    sy = z3.Real(sym.fresh_name(name))
    STATS.append((sy, S, v))
    return sy


class GroupNormModel(Module):
    """contract model of equinox.nn.GroupNorm: per group, mean and (biased) variance over (channels of the group, all
    trailing axes); out = (x - mean) / sqrt(var + eps) * weight[c] + bias[c]"""

    def __init__(self, groups, channels=None, eps=1e-5, channelwise_affine=True, **kw):
        used("equinox.nn.GroupNorm (formula contract: group mean / variance, per-channel weight and bias)")
        self.groups, self.channels, self.eps, self.channelwise_affine = groups, channels, eps, channelwise_affine
        self.weight = arr.source(sym.fresh_name("gn_w"), [Atom(channels)]) if channelwise_affine else None
        self.bias = arr.source(sym.fresh_name("gn_b"), [Atom(channels)]) if channelwise_affine else None

    def __call__(self, x, state=None, *, key=None):
        from .bigsum import bigsum
        x = lift(x)
        G = concrete_int(self.groups)
        if G is None:
            raise OutOfReach("GroupNorm with a symbolic number of groups")
        ch = x.shape[0]
        y = x.reshape((G, sym.int_floordiv(ch, G)) + tuple(x.shape[1:]))
        n = 1
        for e in y.shape[1:]:
            n = n * e
        means, invs = [], []
        for gi in range(G):
            red = y.dims[1:]
            S1 = bigsum(red, lambda v, gi=gi: y.elem([gi] + list(v)))
            S2 = bigsum(red, lambda v, gi=gi: arr.t_bin("mul", y.elem([gi] + list(v)), y.elem([gi] + list(v))))
            m = arr.t_bin("div", opaque_stat(S1, "sum"), arr.t_norm(n))
            q = arr.t_bin("div", opaque_stat(S2, "sumsq"), arr.t_norm(n))
            var = arr.t_z3(arr.t_bin("sub", q, arr.t_bin("mul", m, m)), True)
            ve = var + zr(self.eps)
            r = SQRT(ve)
            ax = z3.Implies(ve >= 0, z3.And(r * r == ve, r >= 0))
            if not any(ax.eq(p_) for p_ in sym.CTX.path):
                sym.CTX.path.append(ax)
            # variance + eps > 0 (variance >= 0, eps > 0): assumed here as in the library (jnp.maximum(0, var))
            pos = ve > 0
            if not any(pos.eq(p_) for p_ in sym.CTX.path):
                sym.CTX.path.append(pos)
                sym.CTX.trace.append("assumed: group variance + eps > 0")
            means.append(m)
            invs.append(r)
        w, b = self.weight, self.bias

        def elem(idx):
            gi = idx[0]
            if arr.is_z3(gi):
                raise OutOfReach("symbolic group index")
            v = arr.t_bin("div", arr.t_bin("sub", y.elem(idx), means[int(gi)]), invs[int(gi)])
            return v

        normed = SArray(y.dims, elem).reshape(tuple(x.shape))
        if not self.channelwise_affine:
            return normed if state is None else (normed, state)
        nd = x.ndim

        def elem2(idx):
            c = idx[0]
            cf = arr.to_flat(normed.dims[0], c)
            return arr.t_bin("add", arr.t_bin("mul", w.elem([Flat(cf)]), normed.elem(idx)), b.elem([Flat(cf)]))

        out = SArray(normed.dims, elem2)
        return out if state is None else (out, state)
