"""./check baseline: merge the obligation-name lists written by the last runs (obligation_names/<id>_<tier>.json) into the
committed baseline_obligations.json.  To be run by hand on the UNCHANGED tree after a grid was extended; a check never
writes the baseline itself.  The baseline is a vacuity guard: an edit of /repo that makes obligations disappear (a loop
that is no longer entered, a function that is no longer reached) fails the check instead of passing with fewer obligations."""
import json, os, glob
from .core import ROOT


def main():
    bp = os.path.join(ROOT, "baseline_obligations.json")
    base = json.load(open(bp)) if os.path.exists(bp) else {}
    for f in sorted(glob.glob(os.path.join(ROOT, "obligation_names", "*.json"))):
        pid, tier = os.path.basename(f)[:-5].split("_")
        base.setdefault(pid, {})[tier] = json.load(open(f))
        print(pid, tier, len(base[pid][tier]))
    json.dump(base, open(bp, "w"), indent=0, sort_keys=True)
    return 0
