"""native harness for C16: real autoregressive_step / autoregressive_map vs. an explicit numpy rollout"""
import itertools
from gvc.native.nat import *


def build(D, layout, P, sp=None):
    sp = sp or [3, 2, 2][:D]
    inb, cn, ccn, cdict = {}, {}, {}, {}
    for i, (k, d, c) in enumerate(layout):
        k = tuple(k)
        parts = []
        if d:
            cn[k] = 1 + (i % 2)
            parts.append(block(k, [], cn[k] * P, sp, D, 1000.0 * (i + 1)))
        if c == "zero":
            cdict[k] = 0          # explicit "no constant fields of this type"
        elif c:
            ccn[k] = 1 + ((i + 1) % 2)
            cdict[k] = ccn[k]
            parts.append(block(k, [], ccn[k], sp, D, -100.0 * (i + 1)))
        inb[k] = np.concatenate(parts, axis=0)
    return inb, cn, ccn, cdict, sp


def np_step(inb, outb, cn, ccn, P):
    new = {}
    for k, b in inb.items():
        parts = []
        if k in cn:
            dyn = b[: cn[k] * P].reshape((cn[k], P) + b.shape[1:])
            dyn = np.concatenate([dyn[:, 1:], outb[k][:, None]], axis=1)
            parts.append(dyn.reshape((cn[k] * P,) + b.shape[1:]))
        if k in ccn:
            parts.append(b[b.shape[0] - ccn[k]:])
        new[k] = np.concatenate(parts, axis=0)
    return new


def np_model(x, cn, P, step):
    """history-sensitive: weighted sum over the window (weights differ per position) + step offset"""
    out = {}
    for k in cn:
        dyn = x[k][: cn[k] * P].reshape((cn[k], P) + x[k].shape[1:])
        w = np.arange(1, P + 1, dtype=np.float64).reshape((1, P) + (1,) * (dyn.ndim - 2))
        out[k] = (dyn * w).sum(axis=1) * 0.5 + 1.0
    return out


def scenario(req, P=None, n=None):
    D, layout = req["D"], req["layout"]
    m = req.get("model") or {}
    P = P or ext(m, "P", 2, 4)
    n = n or ext(m, "n", 3, 4)
    inb, cn, ccn, cdict, sp = build(D, layout, P)
    order = [tuple(k) for k, _, _ in layout]
    x = make_mi(inb, order, D, True)
    call = f"{req['scenario']} D={D} layout={layout} P={P} n={n}"
    if req["scenario"] == "step":
        outb = {k: block(k, [], cn[k], sp, D, 7.0) for k in cn}
        y = make_mi(outb, list(reversed(list(cn.keys()))), D, True)
        r = ml.autoregressive_step(x, y, P, dict(cdict))
        d = blocks_equal(r, np_step(inb, outb, cn, ccn, P), what="new input")
        if d is None and list(r.keys()) != order:
            d = f"key order {list(r.keys())} != {order}"
        return d, call
    # map
    def model(mi, aux):
        xs = {k: np.array(v, dtype=np.float64) for k, v in mi.items()}
        o = np_model(xs, cn, P, 0)
        return make_mi(o, list(reversed(list(cn.keys()))), D, True), aux
    res, aux = ml.autoregressive_map(model, x, None, P, n, dict(cdict))
    cur = {k: v.copy() for k, v in inb.items()}
    preds = []
    for i in range(n):
        o = np_model(cur, cn, P, i)
        preds.append(o)
        cur = np_step(cur, o, cn, ccn, P)
    spec = {k: np.stack([p[k] for p in preds], axis=1).reshape((cn[k] * n,) + preds[0][k].shape[1:]) for k in cn}
    return blocks_equal(res, spec, exact=False, what="rollout"), call


def replay(req):
    d, call = scenario(req)
    return {"ok": True, "confirmed": d is not None, "detail": d, "call": call}


def search(req):
    for P, n in itertools.product([1, 2, 3, 4], [1, 2, 3]):
        d, call = scenario(req, P, n)
        if d is not None:
            return {"ok": True, "confirmed": True, "detail": d, "call": call}
    return {"ok": True, "confirmed": False}


LAYOUTS = [
    [[[0, 0], True, True], [[1, 0], True, False]],
    [[[0, 1], False, True], [[1, 0], True, True]],
    [[[0, 0], True, False]],
    [[[0, 0], True, True], [[1, 0], True, "zero"]],
    [[[1, 0], True, True], [[0, 0], True, True], [[0, 1], False, True]],
    [[[1, 1], True, False], [[0, 0], False, True], [[2, 0], True, True]],
]


def standin(req):
    n_, fails = 0, []
    for D in [1, 2, 3]:
        for lay in LAYOUTS:
            lay = [l for l in lay if D > 1 or l[0][0] == 0]
            if not any(l[1] for l in lay):
                continue
            for sc in ["step", "map"]:
                for P, n in itertools.product([1, 2, 3], [1, 2, 4] if sc == "map" else [1]):
                    rq = dict(scenario=sc, D=D, layout=lay)
                    d, call = scenario(rq, P, n)
                    n_ += 1
                    if d is not None:
                        fails.append({"name": call, "detail": d, "request": dict(rq, model={"P": P, "n": n})})
                        if len(fails) >= 3:
                            return {"ok": True, "evaluations": n_, "failures": fails}
    return {"ok": True, "evaluations": n_, "failures": fails, "grid": "5 key layouts x D in 1..3 x P in 1..3 x n in {1,2,4}; history-sensitive model"}


main({"replay": replay, "search": search, "standin": standin})
