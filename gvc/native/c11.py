"""native harness for C11: real ConvContract vs. an independent numpy evaluation of the defining sum + bias rule"""
import itertools
from gvc.native.nat import *
from gvc.specs.conv import conv_np, contract_np
import jax.random as random

_BANK = {}


def bank(D, M=3):
    if (D, M) not in _BANK:
        ops = geom.make_all_operators(D)
        _BANK[(D, M)] = geom.get_invariant_filters([M], [0, 1, 2] if D == 2 else [0, 1, 2], [0, 1], D, ops)
    return _BANK[(D, M)]


def one(D, sin, sout, opt, use_bias, shape=None, equal_channels=False, history="pytree"):
    """history: 'pytree' (default; the layer goes through eqx.tree_at, i.e. a pytree flatten / unflatten, before the call -- what
    every jit, optimiser step and load does) or 'fresh'"""
    sin, sout = keys(sin), keys(sout)
    fb = bank(D)
    ci = {k: 2 if equal_channels else 1 + i for i, k in enumerate(sin)}
    co = {k: 3 if equal_channels else 2 + (i % 2) for i, k in enumerate(sout)}
    isig = geom.Signature(tuple((k, ci[k]) for k in sin))
    osig = geom.Signature(tuple((k, co[k]) for k in sout))
    rd = opt["rdil"]
    shape = shape or [2 * rd + 2 + d for d in range(D)]
    pd = opt["padding"]
    if pd == "explicit":
        pd = ((1, 1),) * D
    ld = None if opt["ldil"] is None else (opt["ldil"],) * D
    flags = opt["flags"]
    flags = tuple(flags[:D]) if isinstance(flags, list) else (flags,) * D
    layer = ml.ConvContract(isig, osig, fb, use_bias, opt["stride"], pd, ld, rd, key=random.PRNGKey(3))
    rng = np.random.default_rng(0)
    # move the parameters away from their initial values
    import equinox as eqx
    new_bias = {k: jnp.array(rng.integers(1, 4, size=v.shape).astype(np.float32)) for k, v in layer.bias.items()}
    if history != "fresh":
        layer = eqx.tree_at(lambda l: l.bias, layer, new_bias)
    X = {k: rng.integers(-2, 3, size=(ci[k],) + tuple(shape) + (D,) * k[0]).astype(np.float64) for k in sin}
    out = layer(make_mi(X, sin, D, flags))
    call = f"ConvContract D={D} in={sin} out={sout} opt={opt} use_bias={use_bias} shape={shape} equal_channels={equal_channels} history={history}"
    mode = "auto" if use_bias is True else use_bias
    spec = {}
    for t in sout:
        tot = None
        for s in sin:
            fk = (s[0] + t[0], (s[1] + t[1]) % 2)
            if fk not in fb:
                continue
            if t not in layer.weights.get(s, {}):
                return f"the layer has no weights for the reachable pair {s}->{t} (filter type {fk} is in the bank)", call
            Wst = np.array(layer.weights[s][t], dtype=np.float64)
            F = np.einsum("ocf,f...->oc...", Wst, np.array(fb[fk], dtype=np.float64))
            full = conv_np(X[s][None], F, D, flags, opt["stride"], pd, ld, rd)
            part = contract_np(full, D, s[0])[0]
            tot = part if tot is None else tot + part
        if tot is None:
            continue
        if mode in ("auto", "scalar") and t == (0, 0):
            tot = tot + np.array(layer.bias[t], dtype=np.float64)
        elif (mode == "auto" and t != (0, 0)) or mode == "mean":
            m = tot.mean(axis=tuple(range(1, 1 + D)), keepdims=True)
            tot = tot + m * np.array(layer.bias[t], dtype=np.float64)
        spec[t] = tot
    d = blocks_equal(out, spec, exact=False, what="layer output")
    if d is None and list(out.keys()) != list(spec.keys()):
        d = f"output key order {list(out.keys())} != reachable targets in requested order {list(spec.keys())}"
    return d, call


def replay(req):
    d, call = one(req["D"], req["sin"], req["sout"], req["opt"], req["use_bias"], equal_channels=bool(req.get("equal_channels")), history=req.get("history") or "pytree")
    if d is None and req.get("equal_channels") is None:
        d, call = one(req["D"], req["sin"], req["sout"], req["opt"], req["use_bias"], equal_channels=True)
    return {"ok": True, "confirmed": d is not None, "detail": d, "call": call}


def standin(req):
    tier = req.get("tier", "quick")
    n, fails = 0, []
    sigs = [([(0, 0), (1, 0)], [(1, 0), (0, 1), (0, 0)]), ([(1, 0)], [(0, 1), (1, 1)]), ([(0, 1), (0, 0)], [(1, 0)]), ([(0, 0)], [(0, 1), (0, 0), (1, 0)])]
    opts = [dict(stride=1, padding=None, ldil=None, rdil=1, flags=True), dict(stride=1, padding="SAME", ldil=None, rdil=2, flags=[True, False, True]),
            dict(stride=1, padding="explicit", ldil=2, rdil=1, flags=False), dict(stride=2, padding="SAME", ldil=None, rdil=1, flags=False)]
    for D in ([2] if tier == "quick" else [2, 3]):
        for (si, so) in sigs:
            for oi, o in enumerate(opts):
                for ub in ["auto", "mean", "scalar", True, False]:
                    if tier == "quick" and oi and ub not in ("auto", False):
                        continue
                    d, call = one(D, si, so, o, ub, shape=[6, 4, 5][:D] if o["stride"] == 2 else None)
                    n += 1
                    if d is not None:
                        fails.append({"name": call, "detail": d, "request": dict(scenario="layer", D=D, sin=si, sout=so, opt=o, use_bias=ub)})
                        if len(fails) >= 3:
                            return {"ok": True, "evaluations": n, "failures": fails}
        # equal channel counts, targets in non-sorted order, fresh and pytree-round-tripped layers
        for (si, so) in [([(0, 0), (1, 0)], [(1, 0), (0, 0)]), ([(1, 0)], [(1, 0), (0, 0)]), ([(0, 0), (1, 0)], [(0, 0), (1, 0), (0, 1)])]:
            for hist in ["pytree", "fresh"]:
                for ub in ["auto", False]:
                    d, call = one(D, si, so, opts[0], ub, equal_channels=True, history=hist)
                    n += 1
                    if d is not None:
                        fails.append({"name": call, "detail": d, "request": dict(scenario="layer", D=D, sin=si, sout=so, opt=opts[0], use_bias=ub, equal_channels=True, history=hist)})
    return {"ok": True, "evaluations": n, "failures": fails, "grid": "equal-channel layers with non-sorted targets (fresh / after a pytree round trip); 4 signature pairs x 4 option sets x 5 bias settings, real invariant filter bank (M=3), perturbed biases, even extents with stride 2"}


main({"replay": replay, "search": replay, "standin": standin})
