"""native harness for C18: real losses vs. numpy definitions; key orders, jit round trips, reduce modes, common group element"""
import itertools
from gvc.native.nat import *


def np_smse(X, Y, D):
    b = next(iter(X.values())).shape[0]
    out = np.zeros(b)
    for k in X:
        N = np.prod(X[k].shape[2:2 + D])
        out += ((X[k] - Y[k]) ** 2).reshape(b, -1).sum(axis=1) / N
    return out


def np_timestep(X, Y, D, T):
    b = next(iter(X.values())).shape[0]
    out = np.zeros((b, T))
    for k in X:
        N = np.prod(X[k].shape[2:2 + D])
        d = ((X[k] - Y[k]) ** 2)
        d = d.reshape((b, -1, T) + d.shape[2:])
        out += d.sum(axis=(1,) + tuple(range(3, d.ndim))) / N
    return out


def np_normalized(X, Y, D, eps=1e-5):
    b = next(iter(X.values())).shape[0]
    out = np.zeros(b)
    for k in X:
        N = np.prod(X[k].shape[2:2 + D])
        kk = k[0]
        n2 = (Y[k] ** 2).reshape(Y[k].shape[:2 + D] + (-1,)).sum(axis=-1).reshape(Y[k].shape[:2 + D] + (1,) * kk)
        out += (((X[k] - Y[k]) ** 2) / (n2 + eps)).reshape(b, -1).sum(axis=1) / N
    return out.mean()


def data(D, ks, T, seed=0, sp=None, equal_c=False, worst=False):
    rng = np.random.default_rng(seed)
    sp = sp or [3, 4, 2][:D]
    X, Y = {}, {}
    for i, k in enumerate(ks):
        c = (2 if equal_c else 1 + (i % 2)) * T
        shp = (3 if worst else 2, c) + tuple(sp) + (D,) * k[0]
        X[k] = rng.integers(-4, 5, size=shp).astype(np.float64)
        Y[k] = rng.integers(-4, 5, size=shp).astype(np.float64)
        if worst:
            # three entries: entry 0 is worst at step 0 only, entry 1 at step 1 only, entry 2 is worst in TOTAL but at no single step
            amp = np.zeros((3, T))
            amp[0, 0], amp[1, 1 % T], amp[2, :] = 3.0, 3.0, 2.5
            step = np.arange(c) % T                 # channel index = field * T + step
            X[k] = Y[k] + amp[:, step].reshape((3, c) + (1,) * (len(shp) - 2))
    return X, Y


def one(fn, D, kx, ky, reduce, T=2, via_x="ctor", via_y="ctor", g=None, equal_c=False, worst=False):
    ks = sorted(set(kx))
    X, Y = data(D, ks, T if fn == "timestep" else 1, equal_c=equal_c, worst=worst and fn == "timestep")
    x, y = make_mi(X, kx, D, True, via_x), make_mi(Y, ky, D, True, via_y)
    call = f"{fn} D={D} keys_pred={kx} keys_target={ky} reduce={reduce} via=({via_x},{via_y}) g={'id' if g is None else g.tolist()}"
    if g is not None:
        x, y = x.times_group_element(g, jax.lax.Precision.HIGHEST), y.times_group_element(g, jax.lax.Precision.HIGHEST)
    if fn == "smse":
        got = np.array(ml.smse_loss(x, y, reduce))
        exp = np_smse(X, Y, D)
        exp = exp.mean() if reduce == "mean" else exp
    elif fn == "timestep":
        got = np.array(ml.timestep_smse_loss(x, y, T, reduce))
        e = np_timestep(X, Y, D, T)
        exp = e.mean(axis=0) if reduce == "mean" else (e[np.argmax(e.sum(axis=1))] if reduce == "max" else e)
        if np.allclose(got, exp, rtol=1e-4, atol=1e-4) and reduce is None:
            tot = np.array(ml.smse_loss(x, y, None))
            if not np.allclose(got.sum(axis=1), tot, rtol=1e-4, atol=1e-4):
                return "per-step losses do not sum to the total", call
    else:
        got = np.array(ml.normalized_smse_loss(x, y))
        exp = np_normalized(X, Y, D)
    if got.shape != np.shape(exp) or not np.allclose(got, exp, rtol=1e-4, atol=1e-4):
        return f"loss {got.tolist()} != definition {np.asarray(exp).tolist()}", call
    return None, call


def from_req(req):
    return one(req["fn"], req["D"], keys(req["keys_pred"]), keys(req["keys_target"]), req.get("reduce"))


def replay(req):
    d, call = from_req(req)
    return {"ok": True, "confirmed": d is not None, "detail": d, "call": call}


def search(req):
    for eqc, via in itertools.product([False, True], ["ctor", "jit"]):
        for worst in ([True, False] if req.get("reduce") == "max" else [False]):
            d, call = one(req["fn"], req["D"], keys(req["keys_pred"]), keys(req["keys_target"]), req.get("reduce"), via_y=via, equal_c=eqc, worst=worst)
            if d is not None:
                return {"ok": True, "confirmed": True, "detail": d, "call": call + (" [entries worst at different steps]" if worst else "")}
    return {"ok": True, "confirmed": False}


def _search_old(req):
    for eqc, via in itertools.product([False, True], ["ctor", "jit"]):
        d, call = one(req["fn"], req["D"], keys(req["keys_pred"]), keys(req["keys_target"]), req.get("reduce"), via_y=via, equal_c=eqc)
        if d is not None:
            return {"ok": True, "confirmed": True, "detail": d, "call": call}
    return {"ok": True, "confirmed": False}


def standin(req):
    tier = req.get("tier", "quick")
    n, fails = 0, []
    sets = [[(0, 0), (0, 1)], [(0, 0), (1, 0)], [(1, 0), (1, 1)], [(0, 1), (1, 1), (2, 0)]]
    for D in ([2] if tier == "quick" else [2, 3]):
        ops = geom.make_all_operators(D)
        for ks in sets:
            for kx, ky in itertools.product(itertools.permutations(ks), repeat=2):
                if tier == "quick" and kx != tuple(ks) and ky != tuple(ks):
                    continue
                for fn, reduce in [("smse", "mean"), ("smse", None), ("timestep", "mean"), ("timestep", None), ("timestep", "max"), ("normalized", "mean")]:
                    for vx, vy in [("ctor", "ctor"), ("jit", "ctor"), ("ctor", "jit")]:
                        d, call = one(fn, D, list(kx), list(ky), reduce, via_x=vx, via_y=vy, equal_c=True, worst=(reduce == "max"))
                        n += 1
                        if d is not None:
                            fails.append({"name": call, "detail": d, "request": dict(scenario="loss", fn=fn, D=D, keys_pred=list(kx), keys_target=list(ky), reduce=reduce)})
                            if len(fails) >= 3:
                                return {"ok": True, "evaluations": n, "failures": fails}
            # invariance under a common group element (bounded: all g, one data set per key set)
            for gi, g in enumerate(ops):
                if tier == "quick" and D == 3 and gi % 5:
                    continue
                for fn, reduce in [("smse", None), ("timestep", None), ("normalized", "mean")]:
                    d, call = one(fn, D, list(ks), list(reversed(ks)), reduce, g=g)
                    n += 1
                    if d is not None:
                        fails.append({"name": call, "detail": "not invariant under a common group element: " + d, "request": dict(scenario="loss", fn=fn, D=D, keys_pred=list(ks), keys_target=list(reversed(ks)), reduce=reduce)})
                        if len(fails) >= 3:
                            return {"ok": True, "evaluations": n, "failures": fails}
    return {"ok": True, "evaluations": n, "failures": fails, "grid": "key sets x order pairs x jit round trips x 6 (loss, reduce) modes; invariance under every g of B_d"}


main({"replay": replay, "search": search, "standin": standin})
