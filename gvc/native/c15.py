"""native harness for C15: real windowing vs. the statement's index formulas on position-encoded frames"""
import itertools
from gvc.native.nat import *


def avgpool(a, nl, D):
    """2-fold average pool over the D spatial axes that start at axis nl"""
    for ax in range(nl, nl + D):
        n = a.shape[ax] // 2
        a = a.reshape(a.shape[:ax] + (n, 2) + a.shape[ax + 1:]).mean(axis=ax + 1)
    return a


def one(D, dyn, const, T, p, f, dt, s, ds, batched, ntraj=2, sp=None):
    sp = sp or [4, 4, 2][:D]
    cn = {k: 1 + (i % 2) + (1 if k[0] else 0) for i, k in enumerate(dyn)}
    ccn = {k: 1 + (i % 2) for i, k in enumerate(const)}
    lead = [ntraj] if batched else []
    dynb = {k: block(k, lead, cn[k] * T, sp, D, 1000.0 * i) for i, k in enumerate(dyn)}
    cstb = {k: block(k, lead, ccn[k], sp, D, -500.0 * (i + 1)) for i, k in enumerate(const)}
    dm, cm = make_mi(dynb, dyn, D, True), make_mi(cstb, const, D, True)
    g = gdata.batch_time_series if batched else gdata.times_series_to_multi_images
    x, y = g(dm, cm, T, p, f, s, dt, ds)
    W = T - s - (p + f - 1) * dt
    nl = len(lead)

    def spec_for(k, steps, off, with_const):
        outs = []
        for tr in (range(ntraj) if batched else [None]):
            src = dynb[k][tr] if batched else dynb[k]
            src = src.reshape((cn[k], T) + src.shape[1:])
            rows = []
            for w in range(W):
                fr = np.stack([src[:, s + w + (off + j) * dt] for j in range(steps)], axis=1)   # (c, steps, ...)
                fr = fr.reshape((cn[k] * steps,) + fr.shape[2:])
                if with_const and k in cstb:
                    fr = np.concatenate([fr, cstb[k][tr] if batched else cstb[k]], axis=0)
                rows.append(fr)
            outs.append(np.stack(rows))
        return np.concatenate(outs, axis=0)

    X = {k: spec_for(k, p, 0, True) for k in dyn}
    for k in const:
        if k not in dynb:
            c = cstb[k]
            X[k] = np.concatenate([np.stack([c[tr]] * W) for tr in range(ntraj)], axis=0) if batched else np.stack([c] * W)
    Y = {k: spec_for(k, f, p, False) for k in dyn}
    for _ in range(ds):
        X = {k: avgpool(v, 2, D) for k, v in X.items()}
        Y = {k: avgpool(v, 2, D) for k, v in Y.items()}
    call = f"{'batch_time_series' if batched else 'times_series_to_multi_images'} D={D} dyn={dyn} const={const} T={T} p={p} f={f} dt={dt} s={s} downsample={ds}"
    d = blocks_equal(x, X, exact=(ds == 0), what="inputs") or blocks_equal(y, Y, exact=(ds == 0), what="targets")
    if d is None and not batched and list(x.keys()) != list(X.keys()):
        d = f"input key order {list(x.keys())} != {list(X.keys())}"
    return d, call


def from_req(req, over=None):
    m = req.get("model") or {}
    D = req["D"]
    dyn, const = keys(req["dynamic"]), keys(req["constant"])
    if req.get("scenario") == "history":
        # the same windowing several times in one process (state kept between calls shows on the later ones)
        T, p, f, dt, s = req["params"]
        d = call = None
        for i in range(3):
            d, call = one(D, dyn, const, T, p, f, dt, s, 0, False)
            if d is not None:
                return f"call #{i + 1} in one process: {d}", call
        return None, call
    g = lambda n, d, cap=6: ext(m, n, d, cap)
    p, f, dt, s = g("p", 2, 3), g("f", 1, 3), g("dt", 1, 3), max(0, min(3, int(str(m.get("s", 0)) or 0))) if str(m.get("s", "0")).lstrip("-").isdigit() else 0
    if over:
        p, f, dt, s = over
    T = s + (p + f - 1) * dt + 2
    return one(D, dyn, const, T, p, f, dt, s, req.get("downsample", 0), req.get("batched", False))


def replay(req):
    d, call = from_req(req)
    return {"ok": True, "confirmed": d is not None, "detail": d, "call": call}


def search(req):
    for over in itertools.product([1, 2, 3], [1, 2], [1, 2, 3], [0, 1, 3]):
        d, call = from_req(req, over)
        if d is not None:
            return {"ok": True, "confirmed": True, "detail": d, "call": call}
    return {"ok": True, "confirmed": False}


def standin(req):
    tier = req.get("tier", "quick")
    n, fails = 0, []
    for D in ([2] if tier == "quick" else [1, 2, 3]):
        for dyn, const in [([(0, 0)], []), ([(1, 0), (0, 0)], [(0, 0)]), ([(0, 0)], [(0, 1)]), ([(0, 1), (1, 1)], [(1, 0), (0, 0)])]:
            dyn = [k for k in dyn if D > 1 or k[0] == 0]
            const = [k for k in const if D > 1 or k[0] == 0]
            if not dyn:
                continue
            for p, f, dt, s in itertools.product([1, 2, 3], [1, 2], [1, 2, 3], [0, 2]):
                for ds in ([0, 1] if tier == "quick" else [0, 1, 2]):
                    for batched in [False, True]:
                        if tier == "quick" and batched and (p + f + dt + s) % 3:
                            continue
                        T = s + (p + f - 1) * dt + 1 + (p % 2)
                        d, call = one(D, dyn, const, T, p, f, dt, s, ds, batched, sp=[4, 8, 4][:D] if ds == 2 else None)
                        n += 1
                        if d is not None:
                            fails.append({"name": call, "detail": d, "request": dict(scenario="windows", D=D, dynamic=dyn, constant=const, batched=batched, downsample=ds,
                                                                                    model={"p": p, "f": f, "dt": dt, "s": s})})
                            if len(fails) >= 3:
                                return {"ok": True, "evaluations": n, "failures": fails}
    return {"ok": True, "evaluations": n, "failures": fails, "grid": "(p,f,dt,s) in {1..3}x{1,2}x{1..3}x{0,2}, downsample 0..2, batched and not, 4 key-set layouts"}


main({"replay": replay, "search": search, "standin": standin})
