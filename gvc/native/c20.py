"""native harness for C20: real models, equivariant and conventional: output signature == requested (types, order, channels,
spatial shape, D, flags); conventional mode: a probe through an identity-like path is not available, so only signatures"""
import itertools
from gvc.native.nat import *
import jax.random as random
from gvc.native import c07 as n07


def one(cfg):
    D = cfg["D"]
    eqv = cfg.get("equivariant", True)
    sin, sout = keys(cfg["sin"]), keys(cfg["sout"])
    isig = geom.Signature(tuple((k, 1 + i) for i, k in enumerate(sin)))
    osig = geom.Signature(tuple((k, (dict(isig)[k] if cfg.get("same_io") else 3 - (i % 2))) for i, k in enumerate(sout)))
    fb, up = n07.banks(D)
    kw = dict(equivariant=eqv, conv_filters=fb if eqv else None, kernel_size=None if eqv else 3, key=random.PRNGKey(1))
    a = cfg["arch"]
    if a == "ConvBlock":
        m = models.ConvBlock(D, isig, osig, cfg.get("use_bias", "auto"), cfg.get("activation", "relu"), use_group_norm=cfg.get("group_norm", False),
                             preactivation_order=cfg.get("preact", False), **kw)
    elif a == "ResNet":
        m = models.ResNet(D, isig, osig, 2, num_blocks=cfg.get("num_blocks", 1), num_conv=cfg.get("num_conv", 1), use_bias=cfg.get("use_bias", "auto"),
                          use_group_norm=cfg.get("group_norm", True), preactivation_order=cfg.get("preact", True), **kw)
    elif a == "DilResNet":
        m = models.DilResNet(D, isig, osig, 2, num_blocks=cfg.get("num_blocks", 1), use_bias=cfg.get("use_bias", "auto"), use_group_norm=cfg.get("group_norm", False), **kw)
    else:
        m = models.UNet(D, isig, osig, 2, num_downsamples=cfg.get("num_downsamples", 1), num_conv=cfg.get("num_conv", 1), use_bias=cfg.get("use_bias", "auto"),
                        upsample_filters=up if eqv else None, use_group_norm=cfg.get("group_norm", False), **kw)
    nd = cfg.get("num_downsamples", 0) if a == "UNet" else 0
    shape = [(4 + d) * 2 ** nd for d in range(D)]
    flags = tuple(cfg.get("flags", [True] * D))
    X = {k: np.random.default_rng(1).normal(size=(c,) + tuple(shape) + (D,) * k[0]) for k, c in isig}
    y = m(make_mi(X, sin, D, flags))[0]
    call = f"signature {cfg}"
    if eqv:
        fbk = set(fb.keys())
        exp = [(k, c) for k, c in osig]          # with the M=3 bank every requested type used in the grid is reachable except via (0,1)-only paths
    else:
        exp = [(k, c) for k, c in osig]
    got = [(k, int(v.shape[0])) for k, v in y.items()]
    if eqv:
        exp = [(k, c) for k, c in exp if k in y]  # unreachable types are not emitted; order and channels of the rest must match
    if got != exp:
        return f"output signature {got} != requested {exp}", call
    for k, v in y.items():
        if tuple(v.shape[1:1 + D]) != tuple(shape) or tuple(v.shape[1 + D:]) != (D,) * k[0]:
            return f"block {k} has shape {v.shape}", call
    if y.D != D or tuple(y.is_torus) != flags:
        return "D / flags not carried", call
    return None, call


def replay(req):
    d, call = one(req["cfg"])
    return {"ok": True, "confirmed": d is not None, "detail": d, "call": call}


def standin(req):
    n, fails = 0, []
    A, B = [[0, 0], [1, 0]], [[1, 0], [0, 0]]
    cfgs = []
    for eqv in [True, False]:
        cfgs += [dict(arch="ResNet", sin=A, sout=B, num_blocks=1, num_conv=2, group_norm=True, equivariant=eqv),
                 dict(arch="DilResNet", sin=B, sout=A, num_blocks=1, group_norm=eqv, equivariant=eqv),
                 dict(arch="UNet", sin=A, sout=B, num_downsamples=1, num_conv=1, group_norm=False, equivariant=eqv),
                 dict(arch="ConvBlock", sin=A if eqv else [[0, 0]], sout=B if eqv else [[0, 0]], group_norm=True, equivariant=eqv)]
    cfgs += [dict(arch="ResNet", sin=[[1, 1], [0, 0], [2, 0]], sout=[[2, 0], [0, 1]], num_blocks=1, num_conv=1, group_norm=False, equivariant=False),
             dict(arch="ResNet", sin=A, sout=[[0, 1], [0, 0]], num_blocks=1, num_conv=1, group_norm=False, equivariant=True),
             dict(arch="UNet", sin=B, sout=A, num_downsamples=2, num_conv=1, group_norm=False, equivariant=False)]
    for c in cfgs:
        c.setdefault("D", 2)
        d, call = one(c)
        n += 1
        if d is not None:
            fails.append({"name": call, "detail": d, "request": dict(scenario="signature", cfg=c)})
    return {"ok": True, "evaluations": n, "failures": fails[:4], "grid": "11 tiny models, equivariant and conventional"}


main({"replay": replay, "search": replay, "standin": standin})
