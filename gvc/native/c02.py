"""native harness for C02: real group action (array / GeometricImage / MultiImage) vs. act_np (the statement's formula)"""
import itertools
from gvc.native.nat import *
from gvc.specs.act import act_np, rotated_flags


def shapes(D):
    return {1: [(1,), (4,), (5,)], 2: [(2, 4), (3, 3), (1, 3), (4, 3)], 3: [(2, 3, 4), (3, 3, 3), (1, 2, 3), (2, 2, 3)]}[D]


def one(sc, D, k, p, g, shape, flags=None, nlead=1):
    g = np.asarray(g)
    A = block((k, p), [], None, shape, D, 3.0)
    call = f"{sc} D={D} k={k} p={p} shape={shape} g={g.tolist()} flags={flags} nlead={nlead}"
    exp = act_np(A, D, p, g)
    if sc == "array":
        got = np.array(geom.times_group_element(D, jnp.array(A), p, g, jax.lax.Precision.HIGHEST))
        if got.shape != exp.shape or not np.allclose(got, exp):
            return f"array action: shape {got.shape} vs {exp.shape}" + ("" if got.shape != exp.shape else f"; max diff {np.abs(got-exp).max()}"), call
        return None, call
    flags = tuple(flags) if flags is not None else (True,) * D
    if sc == "image":
        r = geom.GeometricImage(jnp.array(A), p, D, flags).times_group_element(g, jax.lax.Precision.HIGHEST)
        got = np.array(r.data)
        if got.shape != exp.shape or not np.allclose(got, exp):
            return "GeometricImage action differs from the formula", call
        if (r.D, r.k, r.parity) != (D, k, p % 2) or tuple(r.is_torus) != rotated_flags(flags, g) or tuple(r.spatial_dims) != exp.shape[:D]:
            return f"metadata: (D,k,parity)={(r.D, r.k, r.parity)} is_torus={r.is_torus} spatial={r.spatial_dims}; expected flags {rotated_flags(flags, g)}", call
        return None, call
    lead = [2, 3][:nlead]
    other = (0, 1) if (k, p) != (0, 1) else (0, 0)
    X = block((k, p), lead, None, shape, D, 5.0)
    Y = block(other, lead, None, shape, D, -9.0)
    mi = make_mi({(k, p): X, other: Y}, [(k, p), other], D, flags)
    r = mi.times_group_element(g, jax.lax.Precision.HIGHEST)
    for key, src in [((k, p), X), (other, Y)]:
        flat = src.reshape((-1,) + src.shape[nlead:])
        e = np.stack([act_np(a, D, key[1], g) for a in flat]).reshape(tuple(lead) + act_np(flat[0], D, key[1], g).shape)
        got = np.array(r[key])
        if got.shape != e.shape or not np.allclose(got, e):
            return f"MultiImage block {key}: shape {got.shape} vs {e.shape} or values differ from the per-image action", call
    if tuple(r.is_torus) != rotated_flags(flags, g) or r.D != D or list(r.keys()) != [(k, p), other]:
        return f"MultiImage metadata: is_torus={r.is_torus} expected {rotated_flags(flags, g)}", call
    return None, call


def from_req(req, shape=None):
    D = req["D"]
    m = req.get("model") or {}
    shape = shape or tuple(ext(m, f"N{i}", 2 + i, 4) for i in range(D))
    return one(req["scenario"], D, req["k"], req["p"], req["g"], shape, req.get("flags"), req.get("nlead", 1))


def replay(req):
    d, call = from_req(req)
    return {"ok": True, "confirmed": d is not None, "detail": d, "call": call}


def search(req):
    for shape in shapes(req["D"]) + [tuple(reversed(s)) for s in shapes(req["D"])]:
        d, call = from_req(req, shape)
        if d is not None:
            return {"ok": True, "confirmed": True, "detail": d, "call": call}
    return {"ok": True, "confirmed": False}


def standin(req):
    tier = req.get("tier", "quick")
    n, fails = 0, []
    for D in [1, 2, 3]:
        ops = geom.make_all_operators(D)
        for gi, g in enumerate(ops):
            for (k, p) in ([(0, 0), (1, 1), (2, 0)] if D > 1 else [(0, 1)]):
                if D == 3 and k == 2 and tier == "quick":
                    continue
                for shape in shapes(D)[: 2 if tier == "quick" else 4]:
                    fl = [None] + ([(True, False, False)[:D]] if D > 1 else [])
                    for sc, flags, nlead in [("array", None, 0), ("image", fl[-1], 0), ("multi", fl[-1], 1), ("multi", fl[-1], 2)]:
                        if tier == "quick" and sc == "multi" and nlead == 2 and gi % 3:
                            continue
                        d, call = one(sc, D, k, p, g, shape, flags, nlead)
                        n += 1
                        if d is not None:
                            fails.append({"name": call, "detail": d, "request": dict(scenario=sc, D=D, k=k, p=p, g=np.asarray(g).tolist(), flags=flags, nlead=nlead,
                                                                                    model={f"N{i}": s for i, s in enumerate(shape)})})
                            if len(fails) >= 3:
                                return {"ok": True, "evaluations": n, "failures": fails}
    return {"ok": True, "evaluations": n, "failures": fails, "grid": "all g in B_1,B_2,B_3 x types x non-square shapes x 3 entry points"}


main({"replay": replay, "search": search, "standin": standin})
