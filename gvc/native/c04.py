"""native harness for C04: real convolve / convolve_contract vs. the direct-sum definition (numpy, exact small integers)"""
import itertools
from gvc.native.nat import *
from gvc.specs.conv import conv_np, contract_np


def one(D, k, kf, M, stride, rdil, ldil, padding, flags, shape=None, B=2, cin=2, cout=3, contract=False):
    rng = np.random.default_rng(3)
    if shape is None:
        shape = [max(rdil * (m - 1) + 1, 2) + 2 + d for d, m in enumerate(M)]
    A = rng.integers(-2, 3, size=(B, cin) + tuple(shape) + (D,) * k).astype(np.float64)
    F = rng.integers(-2, 3, size=(cout, cin) + tuple(M) + (D,) * kf).astype(np.float64)
    if padding == "int":
        pd = 2
    elif padding == "int1":
        pd = 1
    elif padding == "explicit":
        pd = tuple((1 + d, 2 * (d % 2)) for d in range(D))
    else:
        pd = padding
    ld = None if ldil is None else (ldil,) * D
    call = f"{'convolve_contract' if contract else 'convolve'} D={D} k={k} kf={kf} M={M} stride={stride} rdil={rdil} ldil={ldil} padding={pd} flags={flags} shape={shape} B={B} in_c={cin} out_c={cout}"
    exp = conv_np(A, F, D, tuple(flags), stride, pd, ld, rdil)
    if contract:
        got = np.array(geom.convolve_contract(D, jnp.array(A), jnp.array(F), tuple(flags), stride, pd, ld, rdil))
        exp = contract_np(exp, D, k)
    else:
        got = np.array(geom.convolve(D, jnp.array(A), jnp.array(F), tuple(flags), stride, pd, ld, rdil))
    if got.shape != exp.shape:
        return f"output shape {got.shape} != size formula {exp.shape}", call
    if not np.allclose(got, exp, rtol=1e-4, atol=1e-4):
        return f"values differ from the direct sum (max abs diff {np.abs(got - exp).max()})", call
    return None, call


def from_req(req, **over):
    if req["scenario"] == "contract":
        return one(req["D"], req["k"], req["kf"], (3,) * req["D"], 1, req["rdil"], None, req["padding"], req["flags"], contract=True, **over)
    if req.get("N"):
        over = dict(over, shape=list(req["N"]))       # concrete small extents (toroidal image narrower than the filter's reach)
    return one(req["D"], req["k"], req["kf"], tuple(req["M"]), req["stride"], req["rdil"], req["ldil"], req["padding"], req["flags"], **over)


def replay(req):
    d, call = from_req(req)
    return {"ok": True, "confirmed": d is not None, "detail": d, "call": call}


def search(req):
    for B, cin, cout in [(1, 1, 1), (2, 3, 2), (1, 2, 1)]:
        d, call = from_req(req, B=B, cin=cin, cout=cout)
        if d is not None:
            return {"ok": True, "confirmed": True, "detail": d, "call": call}
    return {"ok": True, "confirmed": False}


def standin(req):
    tier = req.get("tier", "quick")
    n, fails = 0, []
    for D in [2, 3]:
        types = [(0, 0), (1, 0), (0, 1), (1, 1)] + ([(2, 1)] if tier != "quick" else [])
        Ms = [(3,) * D, (1,) * D, (2, 3, 3)[:D]]
        combos = []
        for kk, M, st, rd, ld, pd in itertools.product(types, Ms, [1, 2], [1, 2], [None, 2], ["TORUS", None, "SAME", "VALID", "int", "explicit"]):
            even = any(m % 2 == 0 for m in M)
            if (even and pd in ("TORUS", None, "SAME")) or (pd in ("TORUS", None) and ld is not None):
                continue
            combos.append((kk, M, st, rd, ld, pd))
        step = (5 if D == 2 else 17) if tier == "quick" else 2
        flagsets = list(itertools.product([True, False], repeat=D))
        for i, (kk, M, st, rd, ld, pd) in enumerate(combos):
            if i % step:
                continue
            fl = flagsets[(i // step) % len(flagsets)]
            d, call = one(D, kk[0], kk[1], M, st, rd, ld, pd, fl)
            n += 1
            if d is not None:
                fails.append({"name": call, "detail": d, "request": dict(scenario="convolve", D=D, k=kk[0], kf=kk[1], M=list(M), stride=st, rdil=rd, ldil=ld, padding=pd, flags=list(fl))})
                if len(fails) >= 3:
                    return {"ok": True, "evaluations": n, "failures": fails}
        for (k, kf) in [(0, 1), (1, 1), (1, 2)]:
            for flags, pd, rd in [((True,) * D, None, 1), ((True, False, False)[:D], "SAME", 2)]:
                d, call = one(D, k, kf, (3,) * D, 1, rd, None, pd, flags, contract=True)
                n += 1
                if d is not None:
                    fails.append({"name": call, "detail": d, "request": dict(scenario="contract", D=D, k=k, kf=kf, rdil=rd, padding=pd, flags=list(flags))})
    return {"ok": True, "evaluations": n, "failures": fails, "grid": "sampled option grid (d, types, filter sides, stride, dilations, padding kinds, flags), several channels and batch entries, non-square shapes"}


main({"replay": replay, "search": search, "standin": standin})
