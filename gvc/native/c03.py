"""native harness for C03: run-time contract of get_unique_invariant_filters, evaluated exhaustively on a finite domain
(bounded; never counted as proved).  Post-condition, in exact integer / rational arithmetic:
  every filter is fixed by every g in G; the family is linearly independent; its size is the dimension of the fixed
  subspace (1/|G|) sum_g #fixed-pixels(g) tr(g)^k det(g)^p (Burnside / character formula), cross-checked with the
  orbit count of gvc.specs.invfilter."""
import itertools
from fractions import Fraction
from gvc.native.nat import *
from gvc.specs.act import act_np, perm_of, det_of
from gvc.specs.invfilter import orbits


def group(D, name):
    ops = [np.asarray(g) for g in geom.make_all_operators(D)]
    I = np.eye(D, dtype=int)
    if name == "B_d":
        return ops
    if name == "B_d reversed":
        return list(reversed(ops))
    if name == "rotations":
        return [g for g in ops if det_of(g) == 1]
    if name == "C2^d":
        return [np.asarray(g) for g in geom.make_C2_group(D)]
    if name == "trivial":
        return [I]
    if name == "<r90> (identity last)":
        r = np.eye(D, dtype=int)
        r[:2, :2] = [[0, -1], [1, 0]]
        return [r, r @ r, r @ r @ r, I]
    if name == "<flip> (identity last)":
        f = np.eye(D, dtype=int)
        f[0, 0] = -1
        return [f, I]
    raise ValueError(name)


def closed(ops):
    keys_ = {tuple(g.reshape(-1)) for g in ops}
    return all(tuple((a @ b).reshape(-1)) in keys_ for a in ops for b in ops)


def fixed_dim(D, M, k, p, ops):
    tot = Fraction(0)
    c = (M - 1) / 2
    for g in ops:
        col, sgn = perm_of(g)
        fix = 0
        for a in itertools.product(range(M), repeat=D):
            src = [None] * D
            for i in range(D):
                src[col[i]] = sgn[i] * (a[i] - c) + c
            if all(abs(src[j] - a[j]) < 1e-9 for j in range(D)):
                fix += 1
        tr = int(round(np.trace(g)))
        tot += fix * (tr ** k) * (det_of(g) ** p)
    return tot / len(ops)


def rank_exact(rows):
    m = [[Fraction(int(v)) for v in r] for r in rows]
    rank, ncol = 0, len(m[0]) if m else 0
    for c in range(ncol):
        piv = next((i for i in range(rank, len(m)) if m[i][c] != 0), None)
        if piv is None:
            continue
        m[rank], m[piv] = m[piv], m[rank]
        for i in range(rank + 1, len(m)):
            if m[i][c] != 0:
                f = m[i][c] / m[rank][c]
                m[i] = [a - f * b for a, b in zip(m[i], m[rank])]
        rank += 1
        if rank == len(m):
            break
    return rank


def primitive(F):
    """integer vector proportional to F (filters have small rational ratios); returns (ints, max error)"""
    v = np.asarray(F, dtype=np.float64).reshape(-1)
    nz = np.abs(v) > 1e-7
    if not nz.any():
        return np.zeros_like(v, dtype=int), 0.0
    base = np.min(np.abs(v[nz]))
    for mult in range(1, 13):
        w = v / base * mult
        if np.max(np.abs(w - np.rint(w))) < 1e-4:
            return np.rint(w).astype(int), float(np.max(np.abs(w - np.rint(w))))
    return np.rint(v / base).astype(int), 1.0


def check(D, gname, M, k, p):
    ops = group(D, gname)
    call = f"get_unique_invariant_filters(M={M}, k={k}, parity={p}, D={D}, operators={gname} [{len(ops)} elements])"
    filters = geom.get_unique_invariant_filters(M, k, p, D, ops)
    exp = fixed_dim(D, M, k, p, ops)
    if exp.denominator != 1:
        return f"character formula not integral: {exp}", call
    n_orb = orbits(D, M, k, p, ops)[2]
    if n_orb != exp:
        return f"independent counts disagree (orbits {n_orb}, character formula {exp})", call
    if len(filters) != exp:
        return f"{len(filters)} filters generated, the fixed subspace has dimension {exp}", call
    rows = []
    for f in filters:
        if (f.k, f.parity, f.D) != (k, p % 2, D) or tuple(f.spatial_dims) != (M,) * D:
            return f"filter metadata (k,parity,D,shape) = {(f.k, f.parity, f.D, f.spatial_dims)}", call
        A = np.array(f.data, dtype=np.float64)
        ints, err = primitive(A)
        if err > 1e-5:
            return f"a filter is not a rational multiple of an integer filter (error {err:.2g})", call
        Ai = ints.reshape(A.shape)
        for g in ops:
            if not np.array_equal(act_np(Ai.astype(np.float64), D, p, g), Ai.astype(np.float64)):
                return "a generated filter is not fixed by a group element", call
        rows.append(ints)
    if rows and rank_exact(rows) != len(rows):
        return "the generated family is linearly dependent", call
    return None, call


def chunk(req):
    D, gname = req["D"], req["gname"]
    if not closed(group(D, gname)):
        return {"ok": False, "error": f"{gname} is not closed under product"}
    out = []
    for M in req["Ms"]:
        for k in req["ks"]:
            for p in (0, 1):
                d, call = check(D, gname, M, k, p)
                out.append({"M": M, "k": k, "p": p, "ok": d is None, "detail": d, "call": call})
    return {"ok": True, "results": out}


def replay(req):
    # a collision of cached bases needs the call history: replay the whole chunk up to the failing instance
    r = chunk(dict(D=req["D"], gname=req["gname"], Ms=req["Ms"], ks=req["ks"]))
    bad = [x for x in r.get("results", []) if not x["ok"]]
    return {"ok": True, "confirmed": bool(bad), "detail": bad[:2]}


def standin(req):
    n, fails = 0, []
    for D, gname in [(2, "B_d"), (2, "<r90> (identity last)"), (3, "C2^d")]:
        r = chunk(dict(D=D, gname=gname, Ms=[1, 2, 3], ks=[0, 1, 2]))
        for x in r["results"]:
            n += 1
            if not x["ok"]:
                fails.append({"name": x["call"], "detail": x["detail"], "request": dict(scenario="chunk", D=D, gname=gname, Ms=[1, 2, 3], ks=[0, 1, 2])})
    return {"ok": True, "evaluations": n, "failures": fails[:3]}


main({"replay": replay, "search": replay, "standin": standin, "chunk": chunk})
