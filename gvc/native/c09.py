"""native harness for C09 (bounded): real ml.train on a tiny equivariant model with sgd / adam / adamw; afterwards every
filter bank is a common multiple of the initial one and the model is still equivariant"""
import itertools
from gvc.native.nat import *
from gvc.specs.act import act_np
import jax.random as random
import equinox as eqx
import optax
from gvc.native import c07 as n07


def banks_of(model):
    out = []
    for l in jax.tree_util.tree_leaves(model, is_leaf=lambda x: isinstance(x, ml.ConvContract)):
        if isinstance(l, ml.ConvContract):
            out.append({k: np.array(v) for k, v in l.invariant_filters.items()})
    return out


def run(optname, arch="ResNet"):
    D = 2
    fb, up = n07.banks(D)
    sig = geom.Signature((((0, 0), 1), ((1, 0), 1)))
    key = random.PRNGKey(0)
    if arch == "ResNet":
        model = models.ResNet(D, sig, sig, 2, num_blocks=1, num_conv=1, conv_filters=fb, use_group_norm=True, key=key)
    elif arch == "GroupAverage":
        # a symmetrised conventional network: equivariant exactly while its non-array `inference` flag is set -- training must
        # hand back that flag (every non-array field) as it received it
        inner = models.ResNet(D, sig, sig, 2, num_blocks=1, num_conv=1, equivariant=False, kernel_size=3, key=key)
        model = models.GroupAverage(inner, geom.make_all_operators(D), always_average=False, inference=True)
    else:
        model = models.UNet(D, sig, sig, 2, num_downsamples=1, num_conv=1, conv_filters=fb, upsample_filters=up, use_group_norm=False, key=key)
    rng = np.random.default_rng(0)
    n = 4
    X = geom.MultiImage({(0, 0): jnp.array(rng.normal(size=(n, 1, 4, 4)), dtype=jnp.float32), (1, 0): jnp.array(rng.normal(size=(n, 1, 4, 4, 2)), dtype=jnp.float32)}, D)
    Y = geom.MultiImage({(0, 0): jnp.array(rng.normal(size=(n, 1, 4, 4)), dtype=jnp.float32), (1, 0): jnp.array(rng.normal(size=(n, 1, 4, 4, 2)), dtype=jnp.float32)}, D)

    def map_and_loss(m, x, y, aux):
        out = jax.vmap(lambda xi: m(xi)[0])(x)
        return ml.smse_loss(out, y), aux
    opt = {"sgd": optax.sgd(0.05), "adam": optax.adam(0.01), "adamw": optax.adamw(0.01, weight_decay=0.1)}[optname]
    b0 = banks_of(model)
    trained, _, _, _ = ml.train(X, Y, map_and_loss, model, random.PRNGKey(1), ml.EpochStop(2), 2, opt)
    b1 = banks_of(trained)
    call = f"train arch={arch} optimiser={optname}"
    ratios = []
    for a, b in zip(b0, b1):
        for k in a:
            nz = np.abs(a[k]) > 1e-6
            if np.any(np.abs(b[k][~nz]) > 1e-6):
                return "a zero entry of a filter bank became non-zero", call
            ratios += list((b[k][nz] / a[k][nz]).ravel())
    ratios = np.array(ratios)
    if len(ratios) and np.max(np.abs(ratios - ratios[0])) > 1e-4:
        return f"filter banks not rescaled by one common factor: ratios in [{ratios.min():.5f}, {ratios.max():.5f}]", call
    if arch == "GroupAverage" and (trained.inference is not True or trained.always_average is not False):
        return f"train() returned the model with changed non-array fields: inference={trained.inference}, always_average={trained.always_average}", call
    # still equivariant
    x1 = {k: np.array(v[0]) for k, v in X.items()}
    for g in geom.make_all_operators(D):
        y0 = trained(make_mi(x1, list(x1), D))[0]
        yg = trained(make_mi({k: np.stack([act_np(a, D, k[1], g) for a in x1[k]]) for k in x1}, list(x1), D))[0]
        for t in y0.keys():
            exp = np.stack([act_np(a, D, t[1], g) for a in np.array(y0[t], dtype=np.float64)])
            if not np.allclose(np.array(yg[t]), exp, rtol=5e-3, atol=5e-3):
                return f"trained model is not equivariant (block {t})", call
    return None, call


def standin(req):
    tier = req.get("tier", "quick")
    n, fails = 0, []
    for arch in (["ResNet", "GroupAverage"] if tier == "quick" else ["ResNet", "UNet", "GroupAverage"]):
        for o in (["sgd", "adam", "adamw"] if arch != "GroupAverage" else ["adamw"]):
            d, call = run(o, arch)
            n += 1
            if d is not None:
                fails.append({"name": call, "detail": d, "request": dict(scenario="train", arch=arch, opt=o)})
    return {"ok": True, "evaluations": n, "failures": fails, "grid": "ResNet (and UNet) x {sgd, adam, adamw+decay}, GroupAverage(inference=True) around a conventional ResNet x adamw; 2 epochs, filter ratio + non-array fields + equivariance for all g in B_2"}


def replay(req):
    r = standin({"tier": "thorough"})
    return {"ok": True, "confirmed": bool(r["failures"]), "detail": r["failures"][:1]}


main({"replay": replay, "search": replay, "standin": standin})
