"""native harness for C17: real get_batches on samples that carry their own index"""
import itertools
from gvc.native.nat import *
import jax.random as random


def one(D, keysets, ndev, L, B, seed, history=False):
    sp = [2, 3, 2][:D]
    mis = []
    for j, ks in enumerate(keysets):
        blocks = {}
        for k in ks:
            k = tuple(k)
            shp = (L, 1 + j) + tuple(sp) + (D,) * k[0]
            idx = np.arange(L, dtype=np.float64).reshape((L,) + (1,) * (len(shp) - 1))
            blocks[k] = np.broadcast_to(idx, shp) + 1000.0 * (j + 1) + 10000.0 * (k[0] + 1)
        mis.append((blocks, make_mi(blocks, [tuple(k) for k in ks], D, True)))
    key = None if seed is None else random.PRNGKey(seed)
    devices = ["d"] * ndev
    if history:
        # the same container objects were batched before with other contents (reversed sample order) and then updated in place
        for blocks, mi_ in mis:
            for k in blocks:
                mi_[k] = jnp.array(blocks[k][::-1])
        ml.get_batches(tuple(m for _, m in mis) if len(mis) > 1 else mis[0][1], B, key, devices)
        for blocks, mi_ in mis:
            for k in blocks:
                mi_[k] = jnp.array(blocks[k])
    res = ml.get_batches(tuple(m for _, m in mis) if len(mis) > 1 else mis[0][1], B, key, devices)
    call = f"get_batches D={D} keysets={keysets} devices={ndev} L={L} B={B} seed={seed}" + (" after an earlier call on the same objects and an in-place update" if history else "")
    if len(res) != len(mis):
        return f"{len(res)} lists for {len(mis)} multi-images", call
    nb = L // B
    if any(len(l) != nb for l in res):
        return f"number of batches {[len(l) for l in res]} != floor(L/B)={nb}", call
    perm = np.arange(L) if key is None else np.array(random.permutation(key, L))
    seen = []
    for i in range(nb):
        want = perm[i * B:(i + 1) * B].reshape(ndev, B // ndev)
        for j, (blocks, _) in enumerate(mis):
            b = res[j][i]
            if list(b.keys()) != list(blocks.keys()):
                return f"batch key order {list(b.keys())}", call
            for k in blocks:
                got = np.array(b[k])
                if got.shape[:2] != (ndev, B // ndev):
                    return f"batch block shape {got.shape}", call
                ids = np.rint(got.reshape(ndev, B // ndev, -1)[:, :, 0] - 1000.0 * (j + 1) - 10000.0 * (k[0] + 1)).astype(int)
                if not np.array_equal(ids, want):
                    return f"batch {i}, multi-image {j}, type {k}: sample ids {ids.tolist()} != {want.tolist()}", call
        seen += want.reshape(-1).tolist()
    if len(set(seen)) != len(seen):
        return "a sample index appears twice in the epoch", call
    return None, call


def from_req(req, L=None, B=None, seed=0):
    m = req.get("model") or {}
    ndev = req["ndev"]
    B = B or ndev * ext(m, "m", 2, 3)
    L = L or max(B, ext(m, "L", 2 * B + 1, 13))
    return one(req["D"], req["keysets"], ndev, L, B, seed if req.get("shuffled") else None, history=bool(req.get("history")))


def replay(req):
    d, call = from_req(req)
    return {"ok": True, "confirmed": d is not None, "detail": d, "call": call}


def search(req):
    nd = req["ndev"]
    for L, mm, seed in itertools.product([5, 10, 12, 13], [1, 2, 3], [0, 2, 9]):
        B = nd * mm
        if B > L:
            continue
        d, call = from_req(req, L, B, seed)
        if d is not None:
            return {"ok": True, "confirmed": True, "detail": d, "call": call}
    return {"ok": True, "confirmed": False}


def standin(req):
    tier = req.get("tier", "quick")
    n, fails = 0, []
    sets = [[[(0, 0), (1, 0)], [(1, 0)]], [[(0, 0)]], [[(1, 1), (0, 0)], [(0, 1)], [(2, 0), (0, 0)]]]
    for D in ([2] if tier == "quick" else [1, 2, 3]):
        for ks in sets:
            ks = [[k for k in s if D > 1 or k[0] == 0] for s in ks]
            if any(not s for s in ks):
                continue
            for ndev in [1, 2, 4]:
                for L, mm in itertools.product([4, 9, 12, 13], [1, 2, 3]):
                    B = ndev * mm
                    if B > L:
                        continue
                    for seed in [None, 0, 2, 9]:
                        d, call = one(D, ks, ndev, L, B, seed)
                        n += 1
                        if d is not None:
                            fails.append({"name": call, "detail": d, "request": dict(scenario="batches", D=D, keysets=ks, ndev=ndev, shuffled=seed is not None,
                                                                                    model={"L": L, "m": mm})})
                            if len(fails) >= 3:
                                return {"ok": True, "evaluations": n, "failures": fails}
    return {"ok": True, "evaluations": n, "failures": fails, "grid": "L in {4,9,12,13} x B = ndev*{1,2,3} x ndev in {1,2,4} x keys {None,0,2,9}; samples carry their index"}


main({"replay": replay, "search": search, "standin": standin})
