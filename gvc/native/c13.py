"""native harness for C13: real round trips on concrete position-encoded MultiImages, incl. save/load (bounded)"""
import itertools, tempfile, os
from gvc.native.nat import *
import jax.random as random
import equinox as eqx


def mk(D, nlead, sig, e=None, is_torus=None, chan_of=None):
    e = e or {}
    if chan_of is not None:          # channel counts attached to the TYPE (for permuted-order histories), not to the position
        lead = [e.get(f"B{i}", 2 + i) for i in range(max(0, nlead - 1))]
        sp = [e.get(f"N{i}", 2 + (i % 2)) for i in range(D)]
        t = is_torus if is_torus is not None else tuple(i % 2 == 0 for i in range(D))
        blocks = {k: block(k, lead, chan_of[k], sp, D, base=1000.0 * (1 + sorted(chan_of).index(k))) for k in sig}
        return blocks, make_mi(blocks, sig, D, t), t
    lead = [e.get(f"B{i}", 2 + i) for i in range(max(0, nlead - 1))]
    sp = [e.get(f"N{i}", 2 + (i % 2)) for i in range(D)]
    t = is_torus if is_torus is not None else tuple(i % 2 == 0 for i in range(D))
    blocks = {k: block(k, lead, (e.get("C", 1 + (i % 3)) if nlead >= 1 else None), sp, D, base=1000.0 * (i + 1)) for i, k in enumerate(sig)}
    return blocks, make_mi(blocks, sig, D, t), t


def check(req, e=None):
    sc = req["scenario"]
    D = req["D"]
    sig = keys(req.get("sig", [[0, 0]]))
    nlead = req.get("nlead", 1)
    if sc == "images":
        return images(req)
    blocks, x, t = mk(D, nlead, sig, e)
    M = geom.MultiImage
    call = f"{sc} D={D} nlead={nlead} sig={sig} shapes={[b.shape for b in blocks.values()]}"
    if sc == "to_vector->from_vector":
        y = M.from_vector(x.to_vector(), x)
    elif sc == "to_scalar->from_scalar":
        y = x.to_scalar_multi_image().from_scalar_multi_image(x.get_signature())
        # call history: the same types in every other order, before and after, in the same process (memoised layouts)
        if blocks_equal(y, blocks, what="round trip") is None and len(sig) > 1:
            chan_of = {k: blocks[k].shape[nlead - 1] for k in sig}
            for perm in list(itertools.permutations(sig))[1:4]:
                bp, xp, _ = mk(D, nlead, list(perm), e, chan_of=chan_of)
                yp = xp.to_scalar_multi_image().from_scalar_multi_image(xp.get_signature())
                d = blocks_equal(yp, bp, what=f"round trip in the order {list(perm)} after the order {sig} in the same process")
                if d:
                    return d, call
            y = x.to_scalar_multi_image().from_scalar_multi_image(x.get_signature())
    elif sc == "to_scalar_layout":
        y = x.to_scalar_multi_image()
        nb = nlead - 1
        parts = [np.moveaxis(b, nb, nb + D).reshape(b.shape[:nb] + b.shape[nb + 1:nb + 1 + D] + (-1,)) for b in blocks.values()]
        spec = np.moveaxis(np.concatenate(parts, axis=-1), -1, nb)
        d = blocks_equal(y, {(0, 0): spec}, what="scalar layout")
        return d, call
    elif sc == "copy":
        y = x.copy()
    elif sc == "tree_flatten->tree_unflatten":
        y = jax.jit(lambda z: z)(x)
        y2 = jax.vmap(lambda z: z)(x) if nlead >= 2 else y
        d = blocks_equal(y2, blocks, what="vmap identity")
        if d:
            return d, call
    elif sc == "concat":
        axis = req["axis"]
        extra = next((k for k in [(0, 1), (1, 1), (0, 0), (1, 0)] if k not in sig and (D > 1 or k[0] == 0)), None)
        kb = [sig[-1]] + ([extra] if extra is not None else [])
        lead = list(blocks[sig[0]].shape[:nlead])
        sp = list(blocks[sig[0]].shape[nlead:nlead + D])
        def blk(k, n, base):
            l = list(lead); l[axis] = n
            return block(k, l, None, sp, D, base)
        A = {k: blk(k, 2 + i, 100.0 * (i + 1)) for i, k in enumerate(sig)}
        B = {k: blk(k, 1 + i, -50.0 * (i + 1)) for i, k in enumerate(kb)}
        a, b = make_mi(A, sig, D, t), make_mi(B, kb, D, t)
        c = a.concat(b, axis=axis)
        sg = b.get_signature() if req["form"] == "tuple" else {k: v.shape[axis] for k, v in b.items()}
        if req["form"] == "dict+zero":
            sg.update({k: 0 for k in A if k not in B})
        a2, b2 = c.concat_inverse(sg, axis)
        return blocks_equal(a2, A, what="first part") or blocks_equal(b2, B, what="split-off part"), call
    elif sc == "expand":
        axis = req["axis"]
        T, U = 3, 2
        lead = list(blocks[sig[0]].shape[:nlead]); sp = list(blocks[sig[0]].shape[nlead:nlead + D])
        l = list(lead); l[axis] = l[axis] * T * (U if req["variant"] == "combine3" else 1)
        X = {k: block(k, l, None, sp, D, 10.0 * i) for i, k in enumerate(sig)}
        x = make_mi(X, sig, D, True)
        if req["variant"] == "combine2":
            y = x.expand(axis, T).combine_axes((axis, axis + 1))
        elif req["variant"] == "merge2":
            y = x.expand(axis, T).merge_axes([axis, axis + 1])
        else:
            y = x.expand(axis, T).expand(axis, U).combine_axes((axis, axis + 1, axis + 2))
        return blocks_equal(y, X, what="expand/combine"), call
    elif sc == "pmap":
        n = req["ndev"]
        lead = list(blocks[sig[0]].shape[:nlead]); sp = list(blocks[sig[0]].shape[nlead:nlead + D])
        l = list(lead); l[0] = n * 3
        X = {k: block(k, l, None, sp, D, 10.0 * i) for i, k in enumerate(sig)}
        x = make_mi(X, sig, D, True)
        s = x.reshape_pmap(["d"] * n)
        spec = {k: v.reshape((n, 3) + v.shape[1:]) for k, v in X.items()}
        return blocks_equal(s, spec, what="pmap layout") or blocks_equal(s.merge_axes([0, 1]), X, what="pmap merge"), call
    else:
        return None, call
    d = blocks_equal(y, blocks, what="round trip")
    if d is None and (y.D != D or tuple(y.is_torus) != tuple(t)):
        d = f"D / is_torus not preserved: {y.D} {y.is_torus}"
    if d is None and sc not in ("tree_flatten->tree_unflatten",) and list(y.keys()) != list(sig):
        d = f"key order {list(y.keys())} != {sig}"
    return d, call


def images(req):
    D = req["D"]
    types = keys(req["types"])
    nch = req["channels_per_type"]
    t = tuple(i % 2 == 0 for i in range(D))
    sp = [2 + i for i in range(D)]
    imgs = []
    for ti, k in enumerate(types):
        for c in range(nch):
            imgs.append((k, block(k, [], None, sp, D, 100.0 * ti + 10 * c)))
    gis = [geom.GeometricImage(jnp.array(d), k[1], D, t) for k, d in imgs]
    back = geom.MultiImage.from_images(gis).to_images()
    exp = [im for k in types for im in imgs if im[0] == k]
    call = f"images D={D} types={types} channels={nch}"
    if len(back) != len(exp):
        return f"{len(back)} images back, {len(exp)} in", call
    for gi, (k, d) in zip(back, exp):
        if (gi.k, gi.parity, gi.D, tuple(gi.is_torus)) != (k[0], k[1], D, t) or not np.array_equal(np.array(gi.data), d.astype(np.float32)):
            return f"image of type {k} not restored", call
    return None, call


def saveload(tier):
    """bounded: save a model, load into a re-initialised twin, outputs must be bit-identical"""
    n, fails = 0, []
    D = 2
    ops = geom.make_all_operators(D)
    filt = geom.get_invariant_filters([3], [0, 1, 2], [0, 1], D, ops)
    up = geom.get_invariant_filters([2], [0, 1, 2], [0, 1], D, ops)
    sig = geom.Signature((((0, 0), 1), ((1, 0), 1)))
    x = geom.MultiImage({(0, 0): jnp.arange(64.0).reshape(1, 8, 8) / 64, (1, 0): jnp.arange(128.0).reshape(1, 8, 8, 2) / 128}, D)
    cfgs = []
    for eq_ in [True, False]:
        kw = dict(equivariant=eq_, conv_filters=filt if eq_ else None, kernel_size=None if eq_ else 3)
        cfgs.append(("ResNet", lambda key, kw=kw: models.ResNet(D, sig, sig, depth=2, num_blocks=1, use_group_norm=True, key=key, **kw)))
        cfgs.append(("DilResNet", lambda key, kw=kw: models.DilResNet(D, sig, sig, depth=2, num_blocks=1, use_group_norm=False, key=key, **kw)))
        if tier != "quick" or eq_:
            cfgs.append(("UNet", lambda key, kw=kw, eq_=eq_: models.UNet(D, sig, sig, depth=2, num_downsamples=1, num_conv=1, use_group_norm=eq_, upsample_filters=up if eq_ else None, key=key, **kw)))
    import equinox as eqx
    # a model whose non-array LEAVES (python bool fields that are not static) matter for the output, saved with non-default values
    # (static fields are not leaves: a 'same-structured' like-model shares them by definition)
    inner = lambda key: models.ResNet(D, sig, sig, depth=2, num_blocks=1, use_group_norm=False, key=key, equivariant=False, kernel_size=3)
    cfgs.append(("GroupAverage(saved in inference mode)", lambda key: models.GroupAverage(inner(key), list(ops), inference=(int(key[1]) == 1))))
    for name, mkm in cfgs:
        m1 = mkm(random.PRNGKey(1))
        m2 = mkm(random.PRNGKey(2))
        with tempfile.TemporaryDirectory() as td:
            f = os.path.join(td, "m.eqx")
            ml.save(f, m2)             # an older save of another model in the same file must be overwritten
            ml.save(f, m1)
            m3 = ml.load(f, m2)
        y1, y3 = m1(x)[0], m3(x)[0]
        n += 1
        bad = [k for k in y1.keys() if not np.array_equal(np.array(y1[k]), np.array(y3[k]))]
        if bad or list(y1.keys()) != list(y3.keys()):
            fails.append({"name": f"saveload/{name}", "detail": f"outputs differ after save/load for blocks {bad}", "request": {"scenario": "saveload", "D": 2}})
    return n, fails


GRID = [dict(scenario=s) for s in ["to_vector->from_vector", "to_scalar->from_scalar", "to_scalar_layout", "copy", "tree_flatten->tree_unflatten"]]


def replay(req):
    if req.get("scenario") == "saveload":
        n, f = saveload("quick")
        return {"ok": True, "confirmed": bool(f), "detail": f}
    d, call = check(req)
    return {"ok": True, "confirmed": d is not None, "detail": d, "call": call}


def search(req):
    for B0, N0, N1, C in itertools.product([1, 2, 3], [1, 2, 3], [2, 4], [1, 2, 3]):
        d, call = check(req, {"B0": B0, "B1": 2, "N0": N0, "N1": N1, "N2": 2, "C": C})
        if d is not None:
            return {"ok": True, "confirmed": True, "detail": d, "call": call}
    return {"ok": True, "confirmed": False}


def standin(req):
    tier = req.get("tier", "quick")
    n, fails = 0, []
    if req.get("only") == "saveload":
        n2, f2 = saveload(tier)
        return {"ok": True, "evaluations": n2, "failures": f2, "saveload_models": n2, "grid": "save/load of ResNet/DilResNet/UNet (equivariant and not), outputs bit-identical"}
    sigs = [[(0, 0)], [(1, 0), (0, 1)], [(2, 1), (1, 0), (0, 0)], [(1, 1), (0, 0), (0, 1)], [(0, 1), (2, 0)]]
    for D in [1, 2, 3]:
        for sig in sigs:
            sg = [k for k in sig if D > 1 or k[0] == 0]
            if not sg:
                continue
            for nlead in [0, 1, 2, 3]:
                reqs = [dict(scenario=s) for s in ["to_vector->from_vector", "copy", "tree_flatten->tree_unflatten"]]
                if nlead >= 1:
                    reqs += [dict(scenario="to_scalar->from_scalar"), dict(scenario="to_scalar_layout")]
                    reqs += [dict(scenario="pmap", ndev=nd) for nd in [1, 2]]
                for axis in range(nlead):
                    reqs += [dict(scenario="concat", axis=axis, form="tuple" if axis == nlead - 1 else "dict")]
                    reqs += [dict(scenario="expand", axis=axis, variant=v) for v in ["combine2", "merge2", "combine3"]]
                for r in reqs:
                    r.update(D=D, nlead=nlead, sig=[list(k) for k in sg])
                    d, call = check(r)
                    n += 1
                    if d is not None:
                        fails.append({"name": f"{r['scenario']}/D={D}/nlead={nlead}/{sg}", "detail": d + " :: " + call, "request": r})
                        if len(fails) >= 4:
                            return {"ok": True, "evaluations": n, "failures": fails}
        for nch in [1, 2, 3]:
            for types in ([[(0, 0)], [(1, 0), (0, 0)], [(1, 1), (0, 1), (1, 0)]] if D > 1 else [[(0, 0)]]):
                d, call = images(dict(D=D, types=types, channels_per_type=nch))
                n += 1
                if d is not None:
                    fails.append({"name": f"images/{types}", "detail": d, "request": dict(scenario="images", D=D, types=types, channels_per_type=nch)})
    n2, f2 = saveload(tier)
    return {"ok": True, "evaluations": n + n2, "failures": fails + f2, "saveload_models": n2, "grid": "all re-layout pairs on concrete shapes + save/load of ResNet/DilResNet/UNet (equivariant and not)"}


main({"replay": replay, "search": search, "standin": standin})
