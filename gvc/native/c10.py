"""native harness for C10: GroupAverage around random nonlinear position-dependent models; Climate1D re-layouts"""
import itertools
from gvc.native.nat import *
from gvc.specs.act import act_np, rotated_flags, det_of
import equinox as eqx


def groups(D=2):
    ops = [np.asarray(g) for g in geom.make_all_operators(D)]
    r = np.array([[0, -1], [1, 0]])
    f = np.array([[1, 0], [0, -1]])
    return {"B_2": ops, "SO(2) part": [g for g in ops if det_of(g) == 1], "C2xC2": [g for g in ops if np.array_equal(np.abs(g), np.eye(2, dtype=int))],
            "<r90> (identity last)": [r, r @ r, r @ r @ r, np.eye(2, dtype=int)], "<flip> (identity last)": [f, np.eye(2, dtype=int)]}


class RandomModel(models.MultiImageModule):
    """non-equivariant, nonlinear, channel-mixing, position dependent"""
    sig: list
    seed: int

    def __init__(self, sig, seed=0):
        self.sig, self.seed = sig, seed

    def __call__(self, x, aux=None):
        rng = np.random.default_rng(self.seed)
        out = {}
        tot = sum(float(jnp.sum(v * jnp.arange(v.size).reshape(v.shape) * 1e-2)) for v in x.values())
        for k, c in self.sig:
            shp = (c,) + tuple(next(iter(x.values())).shape[1:3]) + (2,) * k[0]
            pos = jnp.array(rng.normal(size=shp), dtype=jnp.float32)
            src = next(iter(x.values()))
            base = jnp.tanh(jnp.sum(src.reshape(src.shape[0], src.shape[1], src.shape[2], -1), axis=(0, 3)))
            out[k] = pos * jnp.sin(tot) + base.reshape((1,) + base.shape + (1,) * k[0]) * pos ** 2
            if isinstance(aux, float):          # stateful variant: the output depends on the incoming state ...
                out[k] = out[k] * (1.0 + aux)
        if isinstance(aux, float):              # ... and the new state on the input and the incoming state
            aux = float(np.tanh(aux + 0.37 * tot))
        return geom.MultiImage(out, x.D, x.is_torus), aux


def ga(gname, sig, hi, stateful=False):
    D = 2
    ops = groups()[gname]
    h = ops[hi]
    sig = keys(sig)
    rng = np.random.default_rng(1)
    N = 4
    X = {k: rng.normal(size=(2, N, N) + (D,) * k[0]) for k in sig}
    inner = RandomModel([(k, 2) for k in reversed(sig)])
    m = models.GroupAverage(inner, list(ops), always_average=True)
    st0 = 0.25 if stateful else None
    y0 = m(make_mi(X, sig, D), st0)[0]
    yh = m(make_mi({k: np.stack([act_np(a, D, k[1], h) for a in X[k]]) for k in sig}, sig, D), st0)[0]
    for t in y0.keys():
        exp = np.stack([act_np(a, D, t[1], h) for a in np.array(y0[t], dtype=np.float64)])
        if not np.allclose(np.array(yh[t]), exp, rtol=1e-3, atol=1e-3):
            return f"GroupAverage over {gname}: block {t} not equivariant under h#{hi}" + (" (stateful inner model)" if stateful else ""), f"group_average {gname} {sig} h#{hi} stateful={stateful}"
    return None, f"group_average {gname} {sig} h#{hi} stateful={stateful}"


def climate(order, consts):
    order = keys(order)
    nl, nt, c, P = 3, 4, 2, 2
    rng = np.random.default_rng(3)
    data = {}
    cdict = {}
    for i, k in enumerate(order):
        n = c * P + (1 if str(k) in consts else 0)
        if str(k) in consts:
            cdict[k] = 1
        data[k] = rng.normal(size=(n, nl, nt) + (2,) * k[0])
    flags = (True, False)
    x = make_mi(data, order, 2, flags)
    sig = x.get_signature()
    m = models.Climate1D(None, sig, P, P, (nl, nt), cdict, flags)
    call = f"climate order={order} consts={consts}"
    if not consts:
        back = m.from1d(m.to1d(x))
        d = blocks_equal(back, data, exact=True, what="from1d(to1d(x))")
        if d:
            return d, call
        s1, s2 = dict(m.to1d(x).get_signature()), dict(models.Climate1D.get_1d_signature(sig, nt))
        if s1 != s2:
            return f"to1d signature {s1} != get_1d_signature {s2}", call
    lonflip, refl = np.array([[-1, 0], [0, 1]]), np.array([[-1]])
    a = m.to1d(x.times_group_element(lonflip))
    b = m.to1d(x).times_group_element(refl)
    for k in b.keys():
        if not np.allclose(np.array(a[k]), np.array(b[k]), atol=1e-5):
            return f"to1d(lonflip.x) != reflect.to1d(x) on block {k}", call
    return None, call


def climate_call(order):
    order = keys(order)
    nl, nt, c, P = 3, 4, 1, 2
    rng = np.random.default_rng(5)
    data = {k: rng.normal(size=(c * P, nl, nt) + (2,) * k[0]) for k in order}
    flags = (True, False)
    x = make_mi(data, order, 2, flags)
    sig = x.get_signature()
    s1 = models.Climate1D.get_1d_signature(sig, nt)

    class M1(eqx.Module):
        def __call__(self, a):
            return jnp.tanh(a * jnp.arange(1, a.shape[0] + 1).reshape(-1, 1) * 0.1) + jnp.roll(a, 1, axis=0) ** 2

    inner = models.ModelWrapper(1, M1(), s1, True)
    m = models.Climate1D(inner, sig, P, P, (nl, nt), {}, flags)
    eq = np.array([[1, 0], [0, -1]])
    y0 = m(x)[0].times_group_element(eq)
    y1 = m(x.times_group_element(eq))[0]
    for k in y0.keys():
        if not np.allclose(np.array(y0[k]), np.array(y1[k]), atol=1e-4):
            return f"Climate1D does not commute with the equator flip on block {k}", f"climate_call {order}"
    return None, f"climate_call {order}"


def run_req(req):
    sc = req["scenario"]
    if sc == "group_average":
        return ga(req["gname"], req["sig"], req["hi"], bool(req.get("stateful")))
    if sc == "climate":
        return climate(req["order"], req.get("consts", []))
    if sc == "climate_call":
        return climate_call(req["order"])
    return None, sc


def replay(req):
    d, call = run_req(req)
    return {"ok": True, "confirmed": d is not None, "detail": d, "call": call}


def standin(req):
    n, fails = 0, []
    reqs = []
    for gname, ops in groups().items():
        for sig in [[(0, 0), (1, 0)], [(0, 1), (1, 1)]]:
            for hi in range(len(ops)):
                reqs.append(dict(scenario="group_average", gname=gname, sig=sig, hi=hi))
                if sig[0] == (0, 0) and hi % 3 == 1:
                    reqs.append(dict(scenario="group_average", gname=gname, sig=sig, hi=hi, stateful=True))
    for o in [[(0, 0), (0, 1), (1, 0)], [(1, 0), (0, 0), (0, 1)], [(0, 1), (1, 0), (0, 0)], [(1, 0)], [(0, 0), (1, 0)]]:
        reqs.append(dict(scenario="climate", order=o, consts=[]))
        if (0, 0) in o:
            reqs.append(dict(scenario="climate", order=o, consts=["(0, 0)"]))
    reqs += [dict(scenario="climate_call", order=[(0, 0), (1, 0)]), dict(scenario="climate_call", order=[(1, 0), (0, 1), (0, 0)])]
    for r in reqs:
        d, call = run_req(r)
        n += 1
        if d is not None:
            fails.append({"name": call, "detail": d, "request": r})
            if len(fails) >= 4:
                break
    return {"ok": True, "evaluations": n, "failures": fails, "grid": "5 groups x 2 signatures x every h; Climate1D key orders x constant layouts; random nonlinear inner models"}


main({"replay": replay, "search": replay, "standin": standin})
