"""native harness for C06: the real ConvContract (real invariant filter bank, perturbed weights and biases) on x and g.x"""
import itertools
from gvc.native.nat import *
from gvc.specs.act import act_np, rotated_flags
import jax.random as random
import equinox as eqx

_BANK = {}


def bank(D, M=3):
    if (D, M) not in _BANK:
        _BANK[(D, M)] = geom.get_invariant_filters([M], [0, 1, 2], [0, 1], D, geom.make_all_operators(D))
    return _BANK[(D, M)]


def act_block(X, D, key, g):
    return np.stack([act_np(a, D, key[1], g) for a in X])


def one(D, sin, sout, opt, g, use_bias, shift=None, equal_channels=False):
    """the layer always goes through eqx.tree_at (a pytree flatten / unflatten, as in jit / training / load) before the call"""
    sin, sout = keys(sin), keys(sout)
    g = np.asarray(g)
    fb = bank(D)
    ci = {k: 2 if equal_channels else 1 + i for i, k in enumerate(sin)}
    co = {k: 3 if equal_channels else 2 + (i % 2) for i, k in enumerate(sout)}
    isig = geom.Signature(tuple((k, ci[k]) for k in sin))
    osig = geom.Signature(tuple((k, co[k]) for k in sout))
    rd = opt["rdil"]
    shape = [2 * rd + 2 + d for d in range(D)]
    pd = ((1, 1),) * D if opt["padding"] == "explicit" else opt["padding"]
    ld = None if opt["ldil"] is None else (opt["ldil"],) * D
    flags = tuple(opt["flags"][:D])
    layer = ml.ConvContract(isig, osig, fb, use_bias, 1, pd, ld, rd, key=random.PRNGKey(7))
    rng = np.random.default_rng(11)
    layer = eqx.tree_at(lambda l: l.bias, layer, {k: jnp.array(rng.normal(size=v.shape).astype(np.float32) + 1.5) for k, v in layer.bias.items()})
    X = {k: rng.integers(-2, 3, size=(ci[k],) + tuple(shape) + (D,) * k[0]).astype(np.float64) for k in sin}
    call = f"ConvContract equivariance D={D} in={sin} out={sout} opt={opt} use_bias={use_bias} g={g.tolist()} shift={shift} equal_channels={equal_channels}"
    y0 = layer(make_mi(X, sin, D, flags))
    if shift is not None:
        Xs = {k: np.roll(v, shift, axis=tuple(range(1, 1 + D))) for k, v in X.items()}
        ys = layer(make_mi(Xs, sin, D, flags))
        for t in y0.keys():
            if not np.allclose(np.array(ys[t]), np.roll(np.array(y0[t]), shift, axis=tuple(range(1, 1 + D))), rtol=1e-3, atol=1e-3):
                return f"block {t} does not commute with the cyclic shift {shift}", call
        return None, call
    gX = {k: act_block(X[k], D, k, g) for k in sin}
    yg = layer(make_mi(gX, sin, D, rotated_flags(flags, g)))
    if list(y0.keys()) != list(yg.keys()):
        return "output key lists differ", call
    for t in y0.keys():
        exp = act_block(np.array(y0[t], dtype=np.float64), D, t, g)
        got = np.array(yg[t])
        if got.shape != exp.shape or not np.allclose(got, exp, rtol=1e-3, atol=1e-3):
            return f"block {t}: layer(g.x) != g.layer(x) (max diff {np.abs(got - exp).max() if got.shape == exp.shape else 'shape'})", call
    return None, call


def replay(req):
    d, call = one(req["D"], req["sin"], req["sout"], req["opt"], req["g"], req.get("use_bias", False), equal_channels=bool(req.get("equal_channels")))
    if d is None and req.get("equal_channels") is None:
        d, call = one(req["D"], req["sin"], req["sout"], req["opt"], req["g"], req.get("use_bias", False), equal_channels=True)
    return {"ok": True, "confirmed": d is not None, "detail": d, "call": call}


def standin(req):
    tier = req.get("tier", "quick")
    n, fails = 0, []
    combos = [([(0, 0), (1, 0)], [(1, 0), (0, 1), (0, 0)], dict(padding=None, rdil=1, ldil=None, flags=[True, True, True])),
              ([(1, 0), (0, 1)], [(0, 1), (1, 1)], dict(padding="SAME", rdil=2, ldil=None, flags=[True, False, True])),
              ([(1, 1)], [(1, 0), (0, 0)], dict(padding="explicit", rdil=1, ldil=2, flags=[False, False, False])),
              ([(0, 0)], [(2, 0), (1, 1)], dict(padding="TORUS", rdil=1, ldil=None, flags=[False, True, True]))]
    for D in [2, 3]:
        ops = geom.make_all_operators(D)
        for (si, so, o) in combos:
            for ub in ["auto", "mean", "scalar", True, False]:
                for gi, g in enumerate(ops):
                    if (D == 3 and gi % (8 if tier == "quick" else 3)) or (tier == "quick" and ub not in ("auto", False) and gi % 3):
                        continue
                    d, call = one(D, si, so, o, g, ub)
                    n += 1
                    if d is not None:
                        fails.append({"name": call, "detail": d, "request": dict(scenario="layer", D=D, sin=si, sout=so, opt=o, g=np.asarray(g).tolist(), use_bias=ub)})
                        if len(fails) >= 3:
                            return {"ok": True, "evaluations": n, "failures": fails}
        # equal channel counts, targets in non-sorted order (the layer has been through a pytree round trip)
        for (si, so) in [([(0, 0), (1, 0)], [(1, 0), (0, 0)]), ([(1, 0)], [(1, 0), (0, 0)])]:
            for gi, g in enumerate(ops):
                if D == 3 and gi % 8:
                    continue
                d, call = one(D, si, so, combos[0][2], g, "auto", equal_channels=True)
                n += 1
                if d is not None:
                    fails.append({"name": call, "detail": d, "request": dict(scenario="layer", D=D, sin=si, sout=so, opt=combos[0][2], g=np.asarray(g).tolist(), use_bias="auto", equal_channels=True)})
                    break
        # cyclic translations on fully toroidal images
        for sh in [(1, 0, 0)[:D], (2, 1, 3)[:D]]:
            d, call = one(D, combos[0][0], combos[0][1], combos[0][2], np.eye(D), "auto", shift=sh)
            n += 1
            if d is not None:
                fails.append({"name": call, "detail": d, "request": dict(scenario="layer", D=D)})
    return {"ok": True, "evaluations": n, "failures": fails, "grid": "4 (signature, option) combos x 5 bias modes x group elements; perturbed parameters; cyclic shifts"}


main({"replay": replay, "search": replay, "standin": standin})
