"""native harness for C05: the GeometricImage algebra on g-transformed operands vs. g acting on the result (declared type)"""
import itertools
from gvc.native.nat import *
from gvc.specs.act import act_np, rotated_flags


def gi(A, p, D, flags=True):
    return geom.GeometricImage(jnp.array(A, dtype=jnp.float32), p, D, flags)


def rnd(D, k, seed, shape=None):
    rng = np.random.default_rng(seed)
    shape = shape or [(3,), (2, 3), (2, 3, 2)][D - 1]
    return rng.integers(-3, 4, size=tuple(shape) + (D,) * k).astype(np.float64)


OPS = {
    "add": (2, lambda a, b: a + b), "sub": (2, lambda a, b: a - b), "smul": (1, lambda a: a * 1.5), "rsmul": (1, lambda a: 2.0 * a),
    "norm": (1, lambda a: a.norm()), "mul": (2, lambda a, b: a * b),
}


def check(D, op, types, g, extra=None):
    g = np.asarray(g)
    As = [rnd(D, k, 7 + i) for i, (k, p) in enumerate(types)]
    flags = (True, False, False)[:D]
    a0 = [gi(A, p, D, flags) for A, (k, p) in zip(As, types)]
    ag = [gi(act_np(A, D, p, g), p, D, rotated_flags(flags, g)) for A, (k, p) in zip(As, types)]
    if op in OPS:
        f = OPS[op][1]
    elif op == "transpose":
        f = lambda a: a.transpose(tuple(extra["perm"]))
    elif op == "contract":
        f = lambda a: a.contract(extra["i"], extra["j"])
    elif op == "multicontract":
        f = lambda a: a.multicontract(((0, 1),))
    elif op == "levi_civita":
        f = lambda a: a.levi_civita_contract(tuple(extra["indices"]) if D > 2 else extra["indices"][0])
    elif op == "convolve":
        f = lambda a, b: a.convolve_with(b)
    else:
        return None, op
    r0, rg = f(*a0), f(*ag)
    call = f"{op} D={D} types={types} g={g.tolist()}"
    exp = act_np(np.array(r0.data, dtype=np.float64), D, r0.parity, g)
    got = np.array(rg.data)
    if (r0.k, r0.parity) != (rg.k, rg.parity):
        return "declared types of op(a) and op(g.a) differ", call
    k0, p0 = types[0]
    rule = {"add": (k0, p0), "sub": (k0, p0), "smul": (k0, p0), "rsmul": (k0, p0), "norm": (0, 0), "transpose": (k0, p0),
            "contract": (k0 - 2, p0), "multicontract": (k0 - 2, p0), "levi_civita": (k0 - D + 2, (p0 + 1) % 2)}.get(op)
    if op in ("mul", "convolve"):
        rule = (types[0][0] + types[1][0], (types[0][1] + types[1][1]) % 2)
    if rule is not None and (r0.k, r0.parity) != rule:
        return f"declared (k,parity) = ({r0.k},{r0.parity}) but the typing rule gives {rule}", call
    if got.shape != exp.shape or not np.allclose(got, exp, rtol=1e-4, atol=1e-4):
        return f"op(g.a,..) != g.op(a,..) with the declared type (k,parity)=({r0.k},{r0.parity})", call
    return None, call


def orderings(req):
    """the real multicontract for every ordering / orientation of one pairing vs a direct numpy evaluation of the definition"""
    D, k, pairing = req["D"], req["k"], [tuple(p_) for p_ in req["pairing"]]
    A = rnd(D, k, 11)
    a = gi(A, 1, D)
    used = {i for pr in pairing for i in pr}
    rest = [i for i in range(k) if i not in used]
    letters = [chr(ord("a") + i) for i in range(D + k)]
    for (i, j) in pairing:
        letters[D + j] = letters[D + i]
    exp = np.einsum("".join(letters) + "->" + "".join(letters[:D] + [letters[D + r] for r in rest]), A)
    for order in itertools.permutations(range(len(pairing))):
        for flips in itertools.product([0, 1], repeat=len(pairing)):
            idx = tuple((pairing[o][1], pairing[o][0]) if f else pairing[o] for o, f in zip(order, flips))
            call = f"GeometricImage(k={k}, D={D}).multicontract({idx})"
            try:
                got = np.array(a.multicontract(idx).data)
                got2 = np.array(geom.multicontract(jnp.array(A, dtype=jnp.float32)[None, None], idx, idx_shift=D + 2))[0, 0]
            except Exception as ex:
                return f"raises {type(ex).__name__}: {str(ex)[:120]}", call
            if got.shape != exp.shape or not np.allclose(got, exp, atol=1e-4) or got2.shape != exp.shape or not np.allclose(got2, exp, atol=1e-4):
                return "result differs from the contraction of the un-ordered pairing (the definition)", call
    return None, f"multicontract orderings of {pairing}"


def from_req(req):
    if req.get("op") == "multicontract_orderings":
        return orderings(req)
    D = req["D"]
    if req.get("op") == "mul":
        types = [(req["k1"], req["p1"]), (req["k2"], req["p2"])]
    else:
        types = [(req["k"], req["parity"])] * OPS.get(req["op"], (1,))[0]
    return check(D, req["op"], types, req["g"], req)


def replay(req):
    d, call = from_req(req)
    return {"ok": True, "confirmed": d is not None, "detail": d, "call": call}


def standin(req):
    tier = req.get("tier", "quick")
    n, fails = 0, []
    for D in [2, 3]:
        ops = geom.make_all_operators(D)
        sel = range(len(ops)) if D == 2 or tier != "quick" else [0, 1, 5, 9, 12, 17, 24, 26, 31, 33, 40, 47]
        kmax = 3 if D == 2 else 2
        for gi_ in sel:
            g = ops[gi_]
            cases = []
            for k in range(kmax + 1):
                for p in (0, 1):
                    for op in ["add", "sub", "smul", "rsmul", "norm"]:
                        cases.append((op, [(k, p)] * OPS[op][0], None))
                    if k >= 2:
                        cases.append(("transpose", [(k, p)], {"perm": list(reversed(range(k)))}))
                        cases.append(("contract", [(k, p)], {"i": 0, "j": k - 1}))
                        cases.append(("multicontract", [(k, p)], None))
                    if k >= D - 1 and k >= 1:
                        cases.append(("levi_civita", [(k, p)], {"indices": list(range(D - 1))}))
            for k1, k2 in itertools.product(range(3), repeat=2):
                if k1 + k2 <= 3 and (D == 2 or k1 + k2 <= 2):
                    for p1, p2 in [(0, 1), (1, 1), (1, 0)]:
                        cases.append(("mul", [(k1, p1), (k2, p2)], None))
            for op, types, extra in cases:
                d, call = check(D, op, types, g, extra)
                n += 1
                if d is not None:
                    rq = dict(scenario="op", D=D, op=op, g=np.asarray(g).tolist(), **(extra or {}))
                    if op == "mul":
                        rq.update(k1=types[0][0], p1=types[0][1], k2=types[1][0], p2=types[1][1])
                    else:
                        rq.update(k=types[0][0], parity=types[0][1])
                    fails.append({"name": call, "detail": d, "request": rq})
                    if len(fails) >= 3:
                        return {"ok": True, "evaluations": n, "failures": fails}
    for D, k, prs in [(2, 4, [[0, 1], [2, 3]]), (2, 4, [[0, 3], [1, 2]]), (2, 4, [[0, 2], [1, 3]]), (2, 5, [[1, 4], [2, 3]]), (2, 5, [[0, 2], [1, 4]]), (3, 4, [[0, 3], [1, 2]])]:
        rq = dict(scenario="op", op="multicontract_orderings", D=D, k=k, pairing=prs)
        d, call = orderings(rq)
        n += 1
        if d is not None:
            fails.append({"name": call, "detail": d, "request": rq})
    return {"ok": True, "evaluations": n, "failures": fails, "grid": "all ops x types k<=3 (d=2)/k<=2 (d=3) x group elements, integer-valued images"}


main({"replay": replay, "search": replay, "standin": standin})
