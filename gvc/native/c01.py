"""native harness for C01: conv(g.A, g.C) vs g.conv(A, C) on concrete integer-valued images / filters; cyclic shifts"""
import itertools
from gvc.native.nat import *
from gvc.specs.act import act_np, rotated_flags


def gi(A, p, D, flags=True):
    return geom.GeometricImage(jnp.array(A, dtype=jnp.float32), p, D, flags)


def one(D, cfg, g, shape=None, pad=2):
    g = np.asarray(g)
    k, p, kf, pf, M, rd = cfg["k"], cfg["p"], cfg["kf"], cfg["pf"], tuple(cfg["M"]), cfg["rdil"]
    ld = None if cfg["ldil"] is None else (cfg["ldil"],) * D
    flags = tuple(cfg["flags"])
    rng = np.random.default_rng(5)
    shape = shape or [rd * (max(M) - 1) + 2 + d for d in range(D)]
    A = rng.integers(-3, 4, size=tuple(shape) + (D,) * k).astype(np.float64)
    C = rng.integers(-3, 4, size=M + (D,) * kf).astype(np.float64)
    pd = ((pad, pad),) * D if cfg["padding"] == "explicit" else cfg["padding"]
    call = f"covariance D={D} cfg={cfg} g={g.tolist()} shape={shape}"
    r0 = gi(A, p, D, flags).convolve_with(gi(C, pf, D), 1, pd, ld, rd)
    rg = gi(act_np(A, D, p, g), p, D, rotated_flags(flags, g)).convolve_with(gi(act_np(C, D, pf, g), pf, D), 1, pd, ld, rd)
    rule = (k + kf, (p + pf) % 2)
    if (r0.k, r0.parity) != rule:
        return f"declared (k,parity)=({r0.k},{r0.parity}), rule (k+k', p+p' mod 2) = {rule}", call
    if tuple(rg.is_torus) != rotated_flags(flags, g) or r0.D != D:
        return "flags / D not carried", call
    exp = act_np(np.array(r0.data, dtype=np.float64), D, rule[1], g)
    got = np.array(rg.data)
    if got.shape != exp.shape or not np.allclose(got, exp, rtol=1e-4, atol=1e-4):
        return "(g.A)*(g.C) != g.(A*C)", call
    return None, call


def shift_check(D, cfg):
    k, kf, M, rd = cfg["k"], cfg["kf"], tuple(cfg["M"]), cfg["rdil"]
    rng = np.random.default_rng(2)
    shape = [rd * (max(M) - 1) + 3 + d for d in range(D)]
    A = rng.integers(-3, 4, size=tuple(shape) + (D,) * k).astype(np.float64)
    C = rng.integers(-3, 4, size=M + (D,) * kf).astype(np.float64)
    r0 = np.array(gi(A, 0, D).convolve_with(gi(C, 0, D), 1, "TORUS", None, rd).data)
    for tau in itertools.product(*[range(n) for n in shape]):
        As = np.roll(A, tau, axis=tuple(range(D)))
        rt = np.array(gi(As, 0, D).convolve_with(gi(C, 0, D), 1, "TORUS", None, rd).data)
        if not np.allclose(rt, np.roll(r0, tau, axis=tuple(range(D))), atol=1e-4):
            return f"convolution does not commute with the cyclic shift {tau}", f"translation D={D} cfg={cfg}"
    return None, f"translation D={D} cfg={cfg}"


def from_req(req, **kw):
    if req["scenario"] == "translation":
        return shift_check(req["D"], req)
    cfg = {a: req[a] for a in ["k", "p", "kf", "pf", "M", "rdil", "ldil", "padding", "flags"]}
    return one(req["D"], cfg, req["g"], **kw)


def replay(req):
    d, call = from_req(req)
    return {"ok": True, "confirmed": d is not None, "detail": d, "call": call}


def search(req):
    if req["scenario"] == "translation":
        return replay(req)
    D = req["D"]
    for shape in [[4, 5, 3][:D], [5, 5, 5][:D], [6, 4, 5][:D]]:
        for pad in [1, 2, 3]:
            d, call = from_req(req, shape=[s + 2 for s in shape], pad=pad)
            if d is not None:
                return {"ok": True, "confirmed": True, "detail": d, "call": call}
    return {"ok": True, "confirmed": False}


def standin(req):
    tier = req.get("tier", "quick")
    n, fails = 0, []
    for D in [2, 3]:
        ops = geom.make_all_operators(D)
        types = [((0, 0), (0, 0)), ((1, 0), (0, 1)), ((0, 1), (1, 1)), ((1, 1), (1, 0))]
        Ms = [(3,) * D, (1, 3, 3)[:D], (2,) * D]
        cfgs = []
        for tt, M, rd, ld, pd in itertools.product(types, Ms, [1, 2], [None, 2], ["TORUS", None, "SAME", "VALID", "explicit"]):
            even = any(m % 2 == 0 for m in M)
            if even and pd in ("TORUS", None, "SAME"):
                continue
            cfgs.append(dict(k=tt[0][0], p=tt[0][1], kf=tt[1][0], pf=tt[1][1], M=list(M), rdil=rd, ldil=ld, padding=pd))
        step = (4 if D == 2 else 19) if tier == "quick" else (2 if D == 2 else 5)
        flagsets = list(itertools.product([True, False], repeat=D))
        for i, c in enumerate(cfgs):
            if i % step:
                continue
            c["flags"] = list(flagsets[(i // step) % len(flagsets)])
            for gi_, g in enumerate(ops):
                if D == 3 and tier == "quick" and gi_ not in (1, 9, 17, 24, 33, 40):
                    continue
                d, call = one(D, c, g)
                n += 1
                if d is not None:
                    fails.append({"name": call, "detail": d, "request": dict(scenario="covariant", D=D, g=np.asarray(g).tolist(), **c)})
                    if len(fails) >= 3:
                        return {"ok": True, "evaluations": n, "failures": fails}
        for c in [dict(k=0, kf=0, M=[3] * D, rdil=1), dict(k=1, kf=1, M=([3, 1, 1])[:D], rdil=2)]:
            if D == 3 and tier == "quick":
                continue
            d, call = shift_check(D, c)
            n += 1
            if d is not None:
                fails.append({"name": call, "detail": d, "request": dict(scenario="translation", D=D, **c)})
    return {"ok": True, "evaluations": n, "failures": fails, "grid": "sampled configurations x group elements; all cyclic shifts on small tori"}


main({"replay": replay, "search": search, "standin": standin})
