"""native harness for C14: multi-image per-image operations vs. single-image operations; vmap of layers/models (bounded)"""
import itertools
from gvc.native.nat import *
from gvc.specs.act import act_np, rotated_flags
import jax.random as random


def lead_shapes(n):
    return [2, 3, 4][:n]


def per_image(op, src, nlead):
    flat = src.reshape((-1,) + src.shape[nlead:])
    outs = [op(a) for a in flat]
    return np.stack(outs).reshape(src.shape[:nlead] + outs[0].shape)


def action(D, nlead, g, shape=None):
    shape = shape or [(4,), (2, 3), (2, 3, 4)][D - 1]
    g = np.asarray(g)
    types = [(1, 1), (0, 0)] if D > 1 else [(0, 1), (0, 0)]
    flags = (True, False, False)[:D]
    X = {k: block(k, lead_shapes(nlead), None, shape, D, 10.0 * (i + 1)) for i, k in enumerate(types)}
    r = make_mi(X, types, D, flags).times_group_element(g, jax.lax.Precision.HIGHEST)
    spec = {k: per_image(lambda a, k=k: act_np(a, D, k[1], g), X[k], nlead) for k in types}
    d = blocks_equal(r, spec, exact=False, what="per-image action")
    if d is None and tuple(r.is_torus) != rotated_flags(flags, g):
        d = f"is_torus {r.is_torus} != {rotated_flags(flags, g)}"
    return d, f"action D={D} nlead={nlead} g={g.tolist()} shape={shape}"


def norm_sc(D, nlead, sig):
    shape = [(4,), (2, 3), (2, 3, 2)][D - 1]
    lead = lead_shapes(nlead - 1)
    X = {k: block(k, lead, 1 + i, shape, D, -3.0 * (i + 1)) for i, k in enumerate(sig)}
    r = make_mi(X, sig, D).norm()
    parts = [np.sqrt((X[k] ** 2).reshape(X[k].shape[:nlead + D] + (-1,)).sum(axis=-1)) for k in sig]
    return blocks_equal(r, {(0, 0): np.concatenate(parts, axis=nlead - 1)}, exact=False, what="norm"), f"norm D={D} nlead={nlead} sig={sig}"


def component(D, sig, batched, F=2):
    shape = [(4,), (2, 3), (2, 3, 2)][D - 1]
    lead = [2] if batched else []
    cn = {k: 1 + (i % 2) + 1 for i, k in enumerate(sig)}
    X = {k: block(k, lead, cn[k] * F, shape, D, 100.0 * (i + 1)) for i, k in enumerate(sig)}
    mi = make_mi(X, sig, D)
    comp = 0
    for k in sig:
        for c in range(cn[k]):
            for u in itertools.product(range(D), repeat=k[0]):
                got = np.array((mi.batch_get_component(comp, F) if batched else mi.get_component(comp, F))[(0, 0)])
                src = X[k].reshape(tuple(lead) + (cn[k], F) + X[k].shape[len(lead) + 1:])
                exp = src[(slice(None),) * len(lead) + (c,) + (slice(None),) * (1 + D) + u]
                if got.shape != exp.shape or not np.array_equal(got, exp.astype(np.float32)):
                    return f"component {comp} is not (type {k}, channel {c}, tensor component {u})", f"component D={D} sig={sig} batched={batched}"
                comp += 1
    return None, f"component D={D} sig={sig} batched={batched}"


def component_slice(D, batched, a, b, F=2):
    """slice of components: output channel j*F + f is component a+j at future step f of the same batch entry"""
    sig = [(0, 0), (1, 0)] if D > 1 else [(0, 0), (0, 1)]
    cn = {sig[0]: 2, sig[1]: 1}
    shape = [(4,), (2, 3), (2, 3, 2)][D - 1]
    lead = [3] if batched else []
    X = {k: block(k, lead, cn[k] * F, shape, D, 100.0 * (i + 1)) for i, k in enumerate(sig)}
    mi = make_mi(X, sig, D)
    comps = [(k, c, u) for k in sig for c in range(cn[k]) for u in itertools.product(range(D), repeat=k[0])]
    got = np.array((mi.batch_get_component(slice(a, b), F) if batched else mi.get_component(slice(a, b), F))[(0, 0)])
    rows = []
    for (k, c, u) in comps[a:b]:
        src = X[k].reshape(tuple(lead) + (cn[k], F) + X[k].shape[len(lead) + 1:])
        rows.append(src[(slice(None),) * len(lead) + (c,) + (slice(None),) * (1 + D) + u])      # lead + (F,) + spatial
    exp = np.concatenate(rows, axis=len(lead))
    call = f"component slice({a},{b}) D={D} batched={batched}"
    if got.shape != exp.shape or not np.array_equal(got, exp.astype(np.float32)):
        return "the selected components are not, per batch entry, the single-image selection", call
    return None, call


def avgpool_sc(D, nlead):
    shape = [(4,), (4, 6), (2, 4, 2)][D - 1]
    types = [(1, 0), (0, 0)] if D > 1 else [(0, 0)]
    X = {k: block(k, lead_shapes(nlead), None, shape, D, 1.0 + i) for i, k in enumerate(types)}
    r = make_mi(X, types, D).average_pool(2)

    def pool(a):
        for ax in range(D):
            n = a.shape[ax] // 2
            a = a.reshape(a.shape[:ax] + (n, 2) + a.shape[ax + 1:]).mean(axis=ax + 1)
        return a
    spec = {k: per_image(pool, X[k], nlead) for k in types}
    return blocks_equal(r, spec, exact=False, what="average_pool"), f"average_pool D={D} nlead={nlead}"


def vmap_models(tier):
    """bounded: a layer / model under vmap gives per entry what it gives for that entry alone; replacing the other
    entries of the batch does not change an entry's output"""
    n, fails = 0, []
    D = 2
    ops = geom.make_all_operators(D)
    filt = geom.get_invariant_filters([3], [0, 1, 2], [0, 1], D, ops)
    sig = geom.Signature((((0, 0), 2), ((1, 0), 2)))
    key = random.PRNGKey(0)
    cfgs = [("ConvContract", ml.ConvContract(sig, sig, filt, key=key)),
            ("LayerNorm", ml.LayerNorm(sig, D)),
            ("GroupNorm2", ml.GroupNorm(sig, D, 2)),
            ("VN", ml.VectorNeuronNonlinear(sig, D, key=key)),
            ("ResNet-eq-gn", models.ResNet(D, sig, sig, depth=2, num_blocks=1, conv_filters=filt, use_group_norm=True, key=key)),
            ("ResNet-noneq-gn", models.ResNet(D, sig, sig, depth=2, num_blocks=1, equivariant=False, kernel_size=3, use_group_norm=True, key=key))]
    if tier != "quick":
        up = geom.get_invariant_filters([2], [0, 1, 2], [0, 1], D, ops)
        cfgs.append(("UNet-eq", models.UNet(D, sig, sig, depth=2, num_downsamples=1, num_conv=1, conv_filters=filt, upsample_filters=up, use_group_norm=True, key=key)))
    rng = np.random.default_rng(1)
    B = 3
    X = {(0, 0): rng.normal(size=(B, 2, 4, 4)).astype(np.float32), (1, 0): rng.normal(size=(B, 2, 4, 4, 2)).astype(np.float32)}
    X2 = {k: v.copy() for k, v in X.items()}
    for k in X2:
        X2[k][1:] = rng.normal(size=X2[k][1:].shape) * 5 + 3        # replace the OTHER entries
    for name, m in cfgs:
        is_model = isinstance(m, models.MultiImageModule)
        f = (lambda x: m(x)[0]) if is_model else m
        vf = jax.vmap(f)
        ya, yb = vf(make_mi(X, list(X), D)), vf(make_mi(X2, list(X2), D))
        alone = f(make_mi({k: v[0] for k, v in X.items()}, list(X), D))
        n += 1
        for k in alone.keys():
            if not np.allclose(np.array(ya[k])[0], np.array(alone[k]), rtol=1e-4, atol=1e-5):
                fails.append({"name": f"vmap/{name}", "detail": f"entry 0 under vmap differs from the entry alone (block {k})", "request": {"scenario": "vmap"}})
                break
            if not np.allclose(np.array(ya[k])[0], np.array(yb[k])[0], rtol=1e-5, atol=1e-6):
                fails.append({"name": f"vmap/{name}", "detail": f"entry 0 changes when the other batch entries are replaced (block {k})", "request": {"scenario": "vmap"}})
                break
    return n, fails


def run_req(req):
    sc = req["scenario"]
    if sc == "action":
        return action(req["D"], req["nlead"], req["g"])
    if sc == "norm":
        return norm_sc(req["D"], req["nlead"], keys(req["sig"]))
    if sc == "component":
        return component(req["D"], keys(req["sig"]), req["batched"])
    if sc == "component_slice":
        return component_slice(req["D"], req["batched"], req["a"], req["b"])
    if sc == "avgpool":
        return avgpool_sc(req["D"], req["nlead"])
    if sc == "vmap":
        n, f = vmap_models("quick")
        return (f[0]["detail"] if f else None), "vmap models"
    return None, sc


def replay(req):
    d, call = run_req(req)
    return {"ok": True, "confirmed": d is not None, "detail": d, "call": call}


def standin(req):
    tier = req.get("tier", "quick")
    if req.get("only") == "vmap":
        n, f = vmap_models(tier)
        return {"ok": True, "evaluations": n, "failures": f, "grid": "layers / models under vmap: per-entry == alone; other entries replaced"}
    n, fails = 0, []
    reqs = []
    for D in [1, 2, 3]:
        ops = geom.make_all_operators(D)
        for nlead in [0, 1, 2, 3]:
            for gi in ([0, 1] if D == 1 else [1, 4, 6] if D == 2 else [9, 24, 33, 40]):
                reqs.append(dict(scenario="action", D=D, nlead=nlead, g=np.asarray(ops[gi]).tolist()))
            if nlead >= 1:
                for sig in ([[(0, 0), (1, 0)], [(1, 1), (0, 1), (2, 0)]] if D > 1 else [[(0, 0), (0, 1)]]):
                    reqs.append(dict(scenario="norm", D=D, nlead=nlead, sig=sig))
            if D > 1:
                reqs.append(dict(scenario="avgpool", D=D, nlead=nlead))
        for sig in ([[(0, 0), (1, 0)], [(1, 1), (0, 0), (2, 0)]] if D > 1 else [[(0, 1), (0, 0)]]):
            for b in [False, True]:
                reqs.append(dict(scenario="component", D=D, sig=sig, batched=b))
        for b in [False, True]:
            for (a_, b_) in [(1, 3), (0, 2 + D), (1, 2)]:
                reqs.append(dict(scenario="component_slice", D=D, batched=b, a=a_, b=b_))
    for r in reqs:
        d, call = run_req(r)
        n += 1
        if d is not None:
            fails.append({"name": call, "detail": d, "request": r})
            if len(fails) >= 3:
                break
    n2, f2 = vmap_models(tier)
    return {"ok": True, "evaluations": n + n2, "failures": fails + f2, "grid": "per-image ops for D in 1..3, 0-3 leading axes; layers/models under vmap"}


main({"replay": replay, "search": replay, "standin": standin})
