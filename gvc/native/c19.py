"""native (real jax / numpy) harness for C19: replay of solver counterexamples, neighbourhood search,
bounded stand-in (exhaustive histories over a small alphabet)."""
import sys, json, itertools, os
sys.path.insert(0, os.environ.get("GINJAX_SRC", "/repo/src"))
import numpy as np
import jax.numpy as jnp
import ginjax.ml as ml
from gvc.specs.stop_spec import patience_step, patience_history, INF

REPS = {"float": float, "np.float64": np.float64, "np.float32": np.float32, "jax0d": lambda v: jnp.array(v, dtype=jnp.float32),
        "none": lambda v: None}


def frac(s, default=0.0):
    if s is None:
        return default
    s = str(s)
    if s.endswith("?"):
        s = s[:-1]
    if "/" in s:
        a, b = s.split("/")
        return float(a) / float(b)
    return float(s)


def one_step(cls, rep, verbose, patience, min_delta, best, since, loss):
    """drive the real object into (best, since) by a history, then feed `loss`; compare with the spec"""
    C = getattr(ml, cls)
    o = C(patience=patience, min_delta=min_delta, verbose=0)
    mk = REPS[rep]
    hist = []
    if best != INF:
        hist.append(best)
        hist += [best] * since
    elif since != 0:
        return None          # unreachable state
    models = [f"m{i}" for i in range(len(hist) + 1)]
    for l, m in zip(hist, models):
        a = (mk(l), None) if cls == "TrainLoss" else (None, mk(l))
        o.stop(m, 0, a[0], a[1], 0.0)
    _, (sb, ss, sm) = patience_history(hist, models, patience, min_delta)
    o.verbose = verbose
    a = (mk(loss), mk(loss)) if rep != "none" else (None, None)
    r = o.stop(models[-1], len(hist), a[0], a[1], 0.0)
    eb, es, em, er = patience_step(sb, ss, sm, None if rep == "none" else float(np.float32(loss)) if rep in ("np.float32", "jax0d") else loss,
                                   models[-1], patience, min_delta)
    got_best = float(getattr(o, "best_train_loss" if cls == "TrainLoss" else "best_val_loss"))
    got = (got_best, int(o.epochs_since_best), o.best_model, bool(r))
    exp = (eb, es, em, er)
    ok = got[0] == exp[0] and got[1:] == exp[1:]          # exact: a stored best value is one of the losses that were passed
    return ok, {"expected(best,since,best_model,stop)": list(map(str, exp)), "actual": list(map(str, got)),
                "call": f"{cls}(patience={patience}, min_delta={min_delta}) after history {hist}; stop(loss={loss} as {rep})"}


def epoch_step(verbose, epochs, epoch):
    o = ml.EpochStop(epochs, verbose=verbose)
    r = o.stop("m", epoch, 1.0, None, 0.0)
    ok = bool(r) == (epoch >= epochs) and o.best_model == "m"
    return ok, {"expected": [epoch >= epochs, "m"], "actual": [bool(r), str(o.best_model)], "call": f"EpochStop({epochs}).stop(epoch={epoch})"}


def replay(req):
    m = req.get("model") or {}
    if req["cls"] == "EpochStop":
        ok, d = epoch_step(req["verbose"], int(frac(m.get("epochs"), 1)), int(frac(m.get("epoch"), 0)))
        return {"ok": True, "confirmed": not ok, **d}
    best = INF if str(m.get("best_is_inf", "False")) == "True" else frac(m.get("best"), 1.0)
    r = one_step(req["cls"], req["rep"], req["verbose"], int(frac(m.get("patience"), 0)), frac(m.get("min_delta"), 0.0),
                 best, int(frac(m.get("since"), 0)), frac(m.get("loss"), 0.0))
    if r is None:
        return {"ok": True, "confirmed": False, "detail": "model state unreachable"}
    return {"ok": True, "confirmed": not r[0], **r[1]}


def grid(classes, reps, verboses):
    # fine values first: improvements below float32 resolution (python floats / float64 carry them, float32 inputs round)
    for cls in classes:
        for rep in reps:
            for patience in range(0, 3):
                for delta, best, loss in [(0.0, 0.5, 0.5 - 1e-10), (0.0, 1.0, 1.0 - 3e-9), (2.5e-9, 0.5, 0.5 - 3e-9), (0.0, 0.3, 0.3 - 1e-12),
                                          (0.0, 0.5 - 1e-10, 0.5)]:
                    for since in range(0, 3):
                        yield cls, rep, verboses[0], patience, delta, best, since, loss
    vals = [0.5, 1.0, 1.5]
    for cls in classes:
        for rep in reps:
            for verbose in verboses:
                for patience in range(0, 3):
                    for delta in [0.0, 0.25]:
                        for best in [INF] + vals:
                            for since in ([0] if best == INF else range(0, 4)):
                                for loss in [0.25, 0.5, 0.75, 1.0, 1.25, 1.5, 2.0]:
                                    yield cls, rep, verbose, patience, delta, best, since, loss


def search(req):
    """neighbourhood of a counterexample: same class / representation, small grid of everything else"""
    if req["cls"] == "EpochStop":
        for epochs in range(0, 4):
            for epoch in range(0, 5):
                ok, d = epoch_step(req["verbose"], max(epochs, 1 if req["verbose"] == 1 else 0), epoch)
                if not ok:
                    return {"ok": True, "confirmed": True, **d}
        return {"ok": True, "confirmed": False}
    for g in grid([req["cls"]], [req["rep"]], [req.get("verbose", 0)]):
        r = one_step(*g)
        if r is not None and not r[0]:
            return {"ok": True, "confirmed": True, **r[1]}
    return {"ok": True, "confirmed": False}


def histories(tier):
    """exhaustive histories over a small ordered alphabet (the statement's own quantifier), checked end-to-end"""
    n = 0
    fails = []
    alphabet = [1.0, 0.5, 0.75]
    fine = [0.5, 0.5 - 1e-10, 0.5 - 2e-10]          # distinct as python floats / float64, equal after rounding to float32
    maxlen = 4 if tier == "quick" else 6
    for cls in ["TrainLoss", "ValLoss"]:
        for rep in ["float", "np.float32", "np.float64", "jax0d"]:
            for patience in range(0, 3 if tier == "quick" else 4):
                for delta in [0.0, 0.3]:
                    for L in range(1, maxlen + 1):
                        hs = itertools.chain(itertools.product(alphabet, repeat=L), itertools.product(fine, repeat=L) if (delta == 0.0 and L <= 3) else [])
                        for h in hs:
                            if rep in ("np.float32", "jax0d"):
                                h = tuple(float(np.float32(v)) for v in h)     # what the representation can hold
                            o = getattr(ml, cls)(patience=patience, min_delta=delta)
                            models = [f"m{i}" for i in range(L)]
                            got = []
                            for l, m in zip(h, models):
                                v = REPS[rep](l)
                                got.append(bool(o.stop(m, 0, v if cls == "TrainLoss" else None, v if cls == "ValLoss" else None, 0.0)))
                            exp, (_, _, bm) = patience_history(list(h), models, patience, delta)
                            n += 1
                            if got != exp or o.best_model != bm:
                                fails.append({"name": f"{cls}/{rep}/patience={patience}/delta={delta}/h={list(h)}",
                                              "detail": f"stop signals {got} vs spec {exp}; best_model {o.best_model} vs {bm}",
                                              "request": {"cls": cls, "rep": rep, "verbose": 0, "history": list(h)}})
                                if len(fails) >= 3:
                                    return n, fails
    for epochs in range(0, 5):
        for epoch in range(0, 6):
            ok, d = epoch_step(0, epochs, epoch)
            n += 1
            if not ok:
                fails.append({"name": f"EpochStop/{epochs}/{epoch}", "detail": json.dumps(d), "request": {"cls": "EpochStop", "verbose": 0,
                              "model": {"epochs": epochs, "epoch": epoch}}})
    return n, fails


class NeverStops(Exception):
    pass


def train_runs():
    """bounded: real ml.train on a one-parameter model; the patience conditions must run >= 1 epoch, stop on a plateau and
    hand back the best model; EpochStop(n) runs exactly n epochs"""
    import jax, equinox as eqx, optax, jax.random as random
    import ginjax.geometric as geom
    import ginjax.models as models

    class Tiny(models.MultiImageModule):
        w: jax.Array

        def __init__(self, w):
            self.w = jnp.array(w, dtype=jnp.float32)

        def __call__(self, x, aux=None):
            return x, aux

    X = geom.MultiImage({(0, 0): jnp.ones((4, 1, 2, 2))}, 2)
    fails, n = [], 0
    counter = {"n": 0}

    def map_and_loss(m, x, y, aux):
        # decreases to an exact plateau: |w| clipped at 0.5
        return jnp.maximum(jnp.abs(m.w), 0.5) + 0.0 * jnp.sum(x[(0, 0)]), aux

    for cls, kw in [("TrainLoss", {}), ("ValLoss", {}), ("TrainLoss", {"patience": 2}), ("EpochStop", {})]:
        for w0 in [2.0]:
            if cls == "EpochStop":
                sc = ml.EpochStop(3)
            else:
                sc = getattr(ml, cls)(**kw)
            m0 = Tiny(w0)
            val = (X, X) if cls == "ValLoss" else (None, None)
            # the loss reaches its plateau after 3 epochs: a correct condition stops within patience + 4 epochs; the
            # harness caps the run so that a condition that never fires is reported instead of looping forever
            calls = [0]
            orig_stop = sc.stop

            def capped(*a, _orig=orig_stop, _calls=calls, **k):
                _calls[0] += 1
                if _calls[0] > 20:
                    raise NeverStops()
                return _orig(*a, **k)
            sc.stop = capped
            n += 1
            try:
                best, _, tl, vl = ml.train(X, X, map_and_loss, m0, random.PRNGKey(0), sc, 2, optax.sgd(0.25), val[0], val[1])
            except NeverStops:
                fails.append({"name": f"train/{cls}{kw}", "detail": f"training with {cls}{kw} on a loss that plateaus after 3 epochs did not stop within 20 epochs",
                              "request": {"cls": "train"}})
                continue
            wb = float(best.w)
            if cls == "EpochStop":
                ok = abs(wb - (w0 - 0.25 * 2 * 3)) < 1e-4 or abs(wb) <= 0.5 + 1e-6
            else:
                ok = wb < w0 - 1e-6 and abs(abs(float(map_and_loss(best, X, X, None)[0])) - 0.5) < 1e-6
            if not ok:
                fails.append({"name": f"train/{cls}{kw}", "detail": f"training with {cls}{kw} returned w={wb} from w0={w0} (no epoch ran, or not the best model)",
                              "request": {"cls": "train"}})
    return n, fails


def protocol_run(K, validation):
    """native replay of the train-loop protocol: real ml.train for K epochs with a recording stop condition and a recording
    wrapper around the real train_step; every clause of the loop contract is compared on the recorded run"""
    import jax, equinox as eqx, optax, jax.random as random
    import ginjax.geometric as geom
    import ginjax.models as models
    import ginjax.ml.training as T
    from ginjax.ml.stopping_conditions import StopCondition

    class Tiny(models.MultiImageModule):
        w: jax.Array

        def __init__(self, w):
            self.w = jnp.array(w, dtype=jnp.float32)

        def __call__(self, x, aux=None):
            return x, aux

    X = geom.MultiImage({(0, 0): jnp.arange(1, 1 + 6 * 4, dtype=jnp.float32).reshape((6, 1, 2, 2)) / 24.0}, 2)
    V = geom.MultiImage({(0, 0): jnp.ones((2, 1, 2, 2)) * 0.5}, 2)

    def map_and_loss(m, x, y, aux):
        return (m.w - 3.0) ** 2 * jnp.mean(x[(0, 0)]), aux

    steps, calls = [], []
    orig = T.train_step

    def rec_step(mal, model, optim, opt_state, x, y, aux=None):
        out = orig(mal, model, optim, opt_state, x, y, aux)
        steps.append((float(model.w), float(out[0].w), float(out[2]), len(calls)))
        return out

    class Spy(StopCondition):
        def __init__(self):
            super().__init__(verbose=0)

        def stop(self, model, current_epoch, train_loss, val_loss, epoch_time):
            calls.append((float(model.w), current_epoch, train_loss, val_loss))
            if len(calls) == 2:
                self.best_model = "BEST"
            return len(calls) > K
    T.train_step = rec_step
    try:
        res = ml.train(X, X, map_and_loss, Tiny(0.5), random.PRNGKey(0), Spy(), 2, optax.sgd(0.01),
                       V if validation else None, V if validation else None)
    finally:
        T.train_step = orig
    bad = []
    if len(calls) != K + 1:
        bad.append(f"stop() consulted {len(calls)} times for {K} epochs")
    if calls and (calls[0][1] != 0 or calls[0][2] is not None or calls[0][3] is not None):
        bad.append(f"before the first epoch stop() saw {calls[0]!r}")
    for i in range(1, min(len(calls), K + 1)):
        w, ep, tl, vl = calls[i]
        mine = [s_ for s_ in steps if s_[3] == i]
        if ep != i:
            bad.append(f"call {i}: current_epoch={ep}")
        if not mine:
            bad.append(f"call {i}: no training step in the epoch")
            continue
        if abs(mine[-1][1] - w) > 1e-6:
            bad.append(f"call {i}: stop() saw w={w}, the model after the last step has w={mine[-1][1]}")
        if abs(mine[0][0] - calls[i - 1][0]) > 1e-6:
            bad.append(f"epoch {i} does not start from the model stop() was consulted with")
        for a, b in zip(mine, mine[1:]):
            if abs(a[1] - b[0]) > 1e-6:
                bad.append(f"epoch {i}: a step does not start from the previous step's model")
        mean = sum(s_[2] for s_ in mine) / len(mine)
        if tl is None or abs(float(tl) - mean) > 1e-5 * max(1.0, abs(mean)):
            bad.append(f"call {i}: train loss {tl} is not the mean {mean} of the epoch's batch losses")
        if validation:
            exp = (w - 3.0) ** 2 * 0.5
            if vl is None or abs(float(vl) - exp) > 1e-4 * max(1.0, abs(exp)):
                bad.append(f"call {i}: validation loss {vl} is not that of the current model ({exp})")
        elif vl is not None:
            bad.append(f"call {i}: validation loss without validation data")
    if res[0] != ("BEST" if K >= 1 else res[0]) :
        bad.append(f"train returned {res[0]!r} instead of stop_condition.best_model")
    return bad


def main():
    mode = sys.argv[1]
    req = json.loads(sys.stdin.read() or "{}")
    if mode in ("replay", "search") and req.get("cls") == "train" and req.get("protocol"):
        mdl = req.get("model") or {}
        K = int(req.get("k", 2))
        for key, v in mdl.items():
            if key.split("!")[0] in ("e", "e_exit"):
                try:
                    K = max(K, min(int(str(v)) + 2, 150))
                except ValueError:
                    pass
        bad = protocol_run(K, bool(req.get("validation")))
        print(json.dumps({"ok": True, "confirmed": bool(bad), "detail": bad[:3], "call": f"ml.train for {K} epochs with a recording stop condition"}))
        return
    if mode in ("replay", "search") and req.get("cls") == "train":
        n, f = train_runs()
        print(json.dumps({"ok": True, "confirmed": bool(f), "detail": f[:2]}))
        return
    if mode == "replay":
        if "history" in req:
            n, f = histories("quick")
            print(json.dumps({"ok": True, "confirmed": bool(f), "failures": f}))
            return
        print(json.dumps(replay(req)))
    elif mode == "search":
        print(json.dumps(search(req)))
    else:
        n, fails = histories(req.get("tier", "quick"))
        n2, f2 = train_runs()
        n, fails = n + n2, fails + f2
        print(json.dumps({"ok": True, "evaluations": n, "failures": fails, "grid": "histories over {1.0,0.5,0.75} up to length 4 (quick) / 6 (thorough), patience 0..3, delta {0,0.3}, 4 representations"}))


main()
