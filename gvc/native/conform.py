"""conformance pass for the ASSUMED library contracts: every contract model used by the checks (gvc/lib.py, gvc/conv.py) is
evaluated in concrete mode (the same model code, numbers instead of terms) and compared with the real library on small random
instances.  Bounded: it validates the assumptions, it proves nothing.  A mismatch means the checks reason about a library
that does not exist: it is reported as a problem of the machinery (exit 3), never as a property violation.
usage: python -m gvc.native.conform [seed]   -> one JSON line {"ok":..., "cases":..., "failures":[...]}"""
import sys, os, json, itertools, traceback
sys.path.insert(0, os.path.dirname(os.path.dirname(os.path.dirname(os.path.abspath(__file__)))))
import numpy as np
import z3
import jax, jax.numpy as jnp
from jax import lax
from gvc import arr, sym, lib, conv as cmodel

jax.config.update("jax_enable_x64", True)
M = lib.NumpyModel("jax.numpy")


def mat(a, sample=None, rng=None):
    """materialise a model array over concrete extents (sample=n: only n random elements, the rest NaN)"""
    if isinstance(a, (int, float)):
        return np.array(float(a))
    a = arr.lift(a)
    shp = [sym.concrete_int(arr.extent(d)) for d in a.dims]
    assert all(s is not None for s in shp), "symbolic extent in concrete mode"
    out = np.full(shp, np.nan)
    allidx = list(itertools.product(*[range(s) for s in shp]))
    if sample is not None and len(allidx) > sample:
        allidx = [allidx[i] for i in rng.choice(len(allidx), size=sample, replace=False)]
    for idx in allidx:
        v = a[idx] if len(idx) else a
        v = getattr(v, "e", v)
        if isinstance(v, arr.SArray):
            v = v.elem([])
        if not isinstance(v, (int, float, bool)):
            v = z3.simplify(arr.t_z3(v, True))
            assert z3.is_rational_value(v) or z3.is_int_value(v), f"non-numeric element {v}"
            v = float(v.as_fraction())
        out[idx] = float(v)
    return out


CASES = []


def case(name):
    def deco(f):
        CASES.append((name, f))
        return f
    return deco


def close(a, b, tol=1e-9):
    a, b = np.asarray(a, dtype=float), np.asarray(b, dtype=float)
    if a.shape == b.shape and np.isnan(a).any():       # sampled materialisation: compare the evaluated elements only
        k = ~np.isnan(a)
        a, b = a[k], b[k]
    return a.shape == b.shape and (a.size == 0 or float(np.abs(a - b).max()) <= tol * (1 + float(np.abs(b).max())))


@case("lax.conv_general_dilated")
def _(rng):
    n = 0
    for D in (2, 3):
        dn = ("NHWC", "HWIO", "NHWC") if D == 2 else ("NHWDC", "HWDIO", "NHWDC")
        for _i in range(8 if D == 2 else 3):
            G = int(rng.choice([1, 2]))
            I, O = int(rng.integers(1, 3)), G * int(rng.integers(1, 3))
            Msh = [int(rng.integers(1, 4)) for _ in range(D)]
            stride = [int(rng.integers(1, 3)) for _ in range(D)]
            ld = [int(rng.integers(1, 3)) for _ in range(D)]
            rd = [int(rng.integers(1, 3)) for _ in range(D)]
            N = [int(rng.integers(5, 7)) for _ in range(D)]      # >= the dilated filter extent (pre-condition of the model)
            pk = rng.choice(["SAME", "VALID", "explicit"]) if all(v == 1 for v in ld) else "explicit"   # the library rejects string padding with lhs dilation
            pad = str(pk) if pk != "explicit" else tuple((int(rng.integers(0, 3)), int(rng.integers(0, 3))) for _ in range(D))
            x = rng.normal(size=[2] + N + [G * I])          # all output elements exist; 10 random ones are evaluated per instance
            w = rng.normal(size=Msh + [I, O])
            real = lax.conv_general_dilated(jnp.array(x), jnp.array(w), stride, pad, lhs_dilation=ld, rhs_dilation=rd,
                                            dimension_numbers=dn, feature_group_count=G)
            # the model wants the group structure of the feature axes to be visible (ginjax builds them by reshape)
            xs = arr.lift(x.reshape([2] + N + [G, I])).reshape([2] + N + [G * I])
            ws = arr.lift(w.reshape(Msh + [I, G, O // G])).reshape(Msh + [I, O])
            mod = cmodel.conv_general_dilated(xs, ws, stride, pad, lhs_dilation=ld, rhs_dilation=rd, dimension_numbers=dn,
                                              feature_group_count=G)
            assert close(mat(mod, 10, rng), real, 1e-8), f"D={D} M={Msh} stride={stride} ld={ld} rd={rd} pad={pad} G={G}"
            n += 1
    return n


@case("lax.conv_general_dilated_patches")
def _(rng):
    n = 0
    for D in (2, 3):
        dn = ("NHWC", "OIHW", "NCHW") if D == 2 else ("NHWDC", "OIHWD", "NCHWD")
        for _i in range(3):
            Msh = [int(rng.integers(1, 3)) for _ in range(D)]
            stride = [int(rng.integers(1, 3)) for _ in range(D)]
            N = [int(rng.integers(3, 5)) for _ in range(D)]
            x = rng.normal(size=[2] + N + [2])
            real = lax.conv_general_dilated_patches(jnp.array(x), Msh, stride, ((0, 0),) * D, dimension_numbers=dn)
            mod = cmodel.conv_general_dilated_patches(x, Msh, stride, ((0, 0),) * D, dimension_numbers=dn)
            assert close(mat(mod), real), f"patches D={D} M={Msh} stride={stride}"
            n += 1
    return n


@case("jnp.pad (wrap)")
def _(rng):
    n = 0
    for _i in range(8):
        nd = int(rng.integers(1, 4))
        shp = [int(rng.integers(2, 5)) for _ in range(nd)]
        x = rng.normal(size=shp)
        mode = "wrap"            # the only mode ginjax uses and the only one modelled
        pw = tuple((int(rng.integers(0, 2 if mode == "wrap" else 3)), int(rng.integers(0, 2 if mode == "wrap" else 3))) for _ in range(nd))
        assert close(mat(M.pad(x, pw, mode=mode)), jnp.pad(jnp.array(x), pw, mode=mode)), f"pad {mode} {shp} {pw}"
        n += 1
    # wider than one period (concrete extents): several periods of the image
    for shp, pw in [((2,), ((3, 3),)), ((3, 2), ((4, 4), (0, 0))), ((2, 3), ((0, 0), (7, 7))), ((1, 3), ((2, 2), (4, 4)))]:
        x = rng.normal(size=shp)
        assert close(mat(M.pad(x, pw, mode="wrap")), jnp.pad(jnp.array(x), pw, mode="wrap")), f"pad wrap (several periods) {shp} {pw}"
        n += 1
    return n


@case("reshape / moveaxis / transpose / swapaxes / expand_dims / squeeze")
def _(rng):
    x = rng.normal(size=(2, 3, 4, 2))
    n = 0
    for shp in [(6, 8), (2, 12, 2), (2, 3, 2, 2, 2), (24, 2), (2, 3, 8), (48,)]:
        assert close(mat(M.reshape(x, shp)), x.reshape(shp)), f"reshape {shp}"
        n += 1
    for s, d in [(0, 3), (1, -1), (-1, 0), ((0, 1), (2, 3)), (2, 1)]:
        assert close(mat(M.moveaxis(x, s, d)), np.moveaxis(x, s, d)), f"moveaxis {s}->{d}"
        n += 1
    for ax in [None, (1, 0, 3, 2), (3, 2, 1, 0)]:
        assert close(mat(M.transpose(x, ax)), np.transpose(x, ax)), f"transpose {ax}"
        n += 1
    assert close(mat(M.swapaxes(x, 0, 2)), np.swapaxes(x, 0, 2))
    assert close(mat(M.expand_dims(x, 1)), np.expand_dims(x, 1))
    assert close(mat(M.squeeze(M.expand_dims(x, 1), 1)), x)
    # method forms used by the code
    sx = arr.lift(x)
    assert close(mat(sx.reshape((6, -1))), x.reshape((6, -1))), "reshape with -1"
    assert close(mat(sx.transpose((1, 0, 2, 3))), x.transpose((1, 0, 2, 3)))
    return n + 5


@case("concatenate / stack / full / arange / zeros / ones / eye")
def _(rng):
    a, b = rng.normal(size=(2, 3, 2)), rng.normal(size=(2, 1, 2))
    assert close(mat(M.concatenate([a, b], axis=1)), np.concatenate([a, b], axis=1))
    assert close(mat(M.concatenate([a, a], axis=-1)), np.concatenate([a, a], axis=-1))
    assert close(mat(M.stack([a, a + 1], axis=0)), np.stack([a, a + 1], axis=0))
    assert close(mat(M.stack([a, a + 1], axis=2)), np.stack([a, a + 1], axis=2))
    assert close(mat(M.full((2, 3), 1.5)), np.full((2, 3), 1.5))
    assert close(mat(M.arange(5)), np.arange(5)) and close(mat(M.arange(1, 9, 3)), np.arange(1, 9, 3))
    assert close(mat(M.zeros((2, 2))), np.zeros((2, 2))) and close(mat(M.ones((3,))), np.ones(3)) and close(mat(M.eye(3)), np.eye(3))
    return 9


@case("indexing: slices, integers, integer arrays (gather), None, Ellipsis")
def _(rng):
    x = rng.normal(size=(4, 3, 5))
    sx = arr.lift(x)
    ii = np.array([2, 0, 3, 3])
    tests = [(slice(1, 3),), (slice(None), 1), (Ellipsis, slice(0, 4)), (ii,), (slice(None), slice(None), np.array([[0, 4], [2, 2]])),
             (None, slice(None), 0), (-1,), (slice(None, 2), slice(1, None))]
    for t in tests:
        assert close(mat(sx[t]), x[t]), f"getitem {t}"
    return len(tests)


@case("einsum / tensordot / matmul / dot")
def _(rng):
    n = 0
    specs = [("ij,jk->ik", [(2, 3), (3, 4)]), ("...ij,jk->...ik", [(2, 2, 3), (3, 2)]), ("ii->", [(3, 3)]), ("aij,bj->abi", [(2, 3, 2), (4, 2)]),
             ("ij,kj->ik", [(2, 3), (4, 3)]), ("...i,...i->...", [(2, 3), (2, 3)]), ("abc->cab", [(2, 3, 4)]), ("i,j->ij", [(2,), (3,)]),
             ("...ab,ca,db->...cd", [(2, 2, 2), (2, 2), (2, 2)])]
    for sp, shps in specs:
        ops = [rng.normal(size=s) for s in shps]
        assert close(mat(M.einsum(sp, *ops)), np.einsum(sp, *ops), 1e-8), f"einsum {sp}"
        n += 1
    a, b = rng.normal(size=(2, 3, 4)), rng.normal(size=(4, 3, 2))
    for axes in [0]:          # ginjax uses tensordot only as an outer product (axes=0); other forms are rejected by the model
        if axes == 0:
            assert close(mat(M.tensordot(a[0, 0], b[:, 0, 0], axes=0)), np.tensordot(a[0, 0], b[:, 0, 0], axes=0))
        else:
            assert close(mat(M.tensordot(a, b, axes=axes)), np.tensordot(a, b, axes=axes), 1e-8), f"tensordot {axes}"
        n += 1
    assert close(mat(M.matmul(a[0], b[:, :, 0])), a[0] @ b[:, :, 0], 1e-8)
    t = rng.normal(size=(2, 3, 2, 3, 2))
    for (a1, a2) in [(0, 2), (2, 0), (1, 3), (-1, 0), (2, 4)]:
        assert close(mat(M.trace(arr.lift(t), axis1=a1, axis2=a2)), np.trace(t, axis1=a1, axis2=a2), 1e-8), f"trace {a1},{a2}"
        n += 1
    return n + 1


@case("sum / mean / linalg.norm / abs / sign / rint / remainder")
def _(rng):
    x = rng.normal(size=(2, 3, 4))
    n = 0
    for ax, kd in [(None, False), (1, False), ((0, 2), True), (-1, True), ((1, 2), False)]:
        assert close(mat(M.sum(x, axis=ax, keepdims=kd)), np.sum(x, axis=ax, keepdims=kd), 1e-8), f"sum {ax}"
        assert close(mat(M.mean(x, axis=ax, keepdims=kd)), np.mean(x, axis=ax, keepdims=kd), 1e-8), f"mean {ax}"
        n += 2
    assert close(mat(M.abs(x)), np.abs(x)) and close(mat(M.sign(x)), np.sign(x))
    h = np.array([-2.5, -1.5, -0.5, 0.5, 1.5, 2.5, 0.49, 2.51, -3.0])
    assert close(mat(M.rint(h)), np.rint(h)), "rint (half to even)"
    v, d = np.array([-7, -1, 0, 3, 9, 12]), 5
    assert close(mat(M.remainder(v, d)), np.asarray(jnp.remainder(jnp.array(v), d))), "remainder (sign of the divisor)"
    return n + 4


@case("vmap / pytree flattening order")
def _(rng):
    x, y = rng.normal(size=(3, 2, 4)), rng.normal(size=(3, 4))
    f = lambda a, b: (a * b).sum(axis=-1) if not isinstance(a, arr.SArray) else M.sum(a * b, axis=-1)
    real = jax.vmap(lambda a, b: jnp.sum(a * b, axis=-1))(jnp.array(x), jnp.array(y))
    mod = lib.vmap(lambda a, b: M.sum(a * b, axis=-1))(arr.lift(x), arr.lift(y))
    assert close(mat(mod), real, 1e-8), "vmap over axis 0"
    real = jax.vmap(lambda a, b: jnp.sum(a * b, axis=-1), in_axes=(0, None))(jnp.array(x), jnp.array(y[0]))
    mod = lib.vmap(lambda a, b: M.sum(a * b, axis=-1), in_axes=(0, None))(arr.lift(x), arr.lift(y[0]))
    assert close(mat(mod), real, 1e-8), "vmap in_axes=(0, None)"
    d = {(1, 0): 1.0, (0, 1): 2.0, (0, 0): 3.0, (2, 1): 4.0}
    leaves_real = [float(v[0]) for v in jax.tree_util.tree_leaves({k: jnp.array([v]) for k, v in d.items()})]
    leaves_mod = [float(mat(v)[0]) for v in lib.tree_flatten_obj({k: arr.lift(np.array([v])) for k, v in d.items()})[0]]
    assert leaves_real == leaves_mod, f"dict pytree order {leaves_real} vs {leaves_mod}"
    return 3


@case("random.permutation is a bijection determined by the key; split gives distinct keys")
def _(rng):
    k = jax.random.PRNGKey(int(rng.integers(0, 1000)))
    p1, p2 = np.asarray(jax.random.permutation(k, 17)), np.asarray(jax.random.permutation(k, 17))
    assert sorted(p1.tolist()) == list(range(17)) and (p1 == p2).all()
    a, b = jax.random.split(k)
    assert not (np.asarray(a) == np.asarray(b)).all()
    return 2


@case("equinox.nn.GroupNorm formula")
def _(rng):
    import equinox as eqx
    n = 0
    for groups, ch in [(1, 3), (2, 4), (3, 3)]:
        gn = eqx.nn.GroupNorm(groups, ch, eps=0.01)
        w, b = rng.normal(size=ch), rng.normal(size=ch)
        gn = eqx.tree_at(lambda m: (m.weight, m.bias), gn, (jnp.array(w), jnp.array(b)))
        x = rng.normal(size=(ch, 3, 2))
        y = x.reshape((groups, ch // groups, 3, 2))
        mean = y.mean(axis=(1, 2, 3), keepdims=True)
        var = (y * y).mean(axis=(1, 2, 3), keepdims=True) - mean ** 2
        spec = ((y - mean) / np.sqrt(var + 0.01)).reshape(x.shape) * w[:, None, None] + b[:, None, None]
        assert close(np.asarray(gn(jnp.array(x))), spec, 1e-6), f"GroupNorm groups={groups}"
        n += 1
    return n


@case("optax: a zero-gradient leaf is updated by a common multiple of itself; eqx.apply_updates adds leaf-wise")
def _(rng):
    import optax, equinox as eqx
    n = 0
    for name, opt in [("sgd", optax.sgd(0.1)), ("adam", optax.adam(0.1)), ("adamw", optax.adamw(0.1, weight_decay=0.3))]:
        params = {"a": jnp.array(rng.normal(size=(3,))), "b": jnp.array(rng.normal(size=(2, 2))), "c": jnp.array(rng.normal(size=(2,)))}
        grads = {"a": jnp.zeros(3), "b": jnp.zeros((2, 2)), "c": jnp.array(rng.normal(size=(2,)))}
        st = opt.init(params)
        for _i in range(3):
            upd, st = opt.update(grads, st, params)
            new = eqx.apply_updates(params, upd)
            ra = np.asarray(new["a"]) / np.asarray(params["a"])
            rb = np.asarray(new["b"]) / np.asarray(params["b"])
            assert np.allclose(ra, ra[0]) and np.allclose(rb, ra[0]), f"{name}: zero-gradient leaves not scaled by one factor"
            assert close(np.asarray(new["c"]), np.asarray(params["c"]) + np.asarray(upd["c"]), 1e-7)
            params = new
        n += 1
    return n


@case("stop_gradient is the identity on values and cuts the gradient")
def _(rng):
    x = jnp.array(rng.normal(size=(3,)))
    assert close(np.asarray(lax.stop_gradient(x)), np.asarray(x))
    g = jax.grad(lambda v: jnp.sum(lax.stop_gradient(v) * v))(x)
    assert close(np.asarray(g), np.asarray(x))
    return 2


def main(seed=0):
    rng = np.random.default_rng(seed)
    res = {"ok": True, "cases": 0, "models": [], "failures": []}
    for name, f in CASES:
        try:
            sym.reset()
            k = f(rng)
            res["cases"] += k
            res["models"].append(f"{name}: {k} instances")
        except Exception as ex:
            res["ok"] = False
            res["failures"].append(f"{name}: {type(ex).__name__}: {str(ex)[:300]} @ " +
                                   " <- ".join(f"{os.path.basename(t.filename)}:{t.lineno}" for t in traceback.extract_tb(sys.exc_info()[2])[-3:]))
    print(json.dumps(res))
    return 0 if res["ok"] else 3


if __name__ == "__main__":
    sys.exit(main(int(sys.argv[1]) if len(sys.argv) > 1 else 0))
