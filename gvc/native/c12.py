"""native harness for C12: real MultiImage arithmetic vs. the per-key numpy definition"""
import itertools
from gvc.native.nat import *

VIAS = ["ctor", "append", "jit", "copy", "vector"]


def scenario(req, e=None):
    """returns None if the real code agrees with the spec, else a description"""
    m = req.get("model") or {}
    D = req["D"]
    ka = keys(req.get("keys_a"))
    kb = keys(req.get("keys_b", req.get("keys_a")))
    nlead = req.get("nlead", 1)
    e = e or {}
    lead = [e.get(f"B{i}", ext(m, f"B{i}")) for i in range(nlead)]
    sp = [e.get(f"N{i}", ext(m, f"N{i}", 2, 3)) for i in range(D)]
    allk = list(dict.fromkeys(ka + kb))
    ch = {k: e.get("C", None) or ext(m, f"C{k[0]}{k[1]}", 1 + (i % 2), 3) for i, k in enumerate(allk)}
    if req.get("equal_sizes"):
        ch = {k: 1 for k in allk}
    A = {k: block(k, lead, ch[k], sp, D, base=1000.0 * (i + 1)) for i, k in enumerate(allk)}
    B = {k: block(k, lead, ch[k], sp, D, base=-7.0 * (i + 1)) * 3 for i, k in enumerate(allk)}
    sc = req["scenario"]
    call = f"{sc} D={D} lead={lead} spatial={sp} channels={ch} keys_a={ka} keys_b={kb} via=({req.get('via_a', req.get('via'))},{req.get('via_b')})"
    if sc == "binop":
        a = make_mi(A, ka, D, True, req["via_a"])
        b = make_mi(B, kb, D, True, req["via_b"])
        r = (a + b) if req["op"] == "add" else (a - b)
        spec = {k: (A[k] + B[k]) if req["op"] == "add" else (A[k] - B[k]) for k in ka}
        d = blocks_equal(r, spec, what="a op b")
    elif sc == "scalar":
        a = make_mi(A, ka, D, True, req["via"])
        r = (a * 2.0) if req["op"] == "mul" else (a / 4.0)
        spec = {k: (A[k] * 2.0) if req["op"] == "mul" else (A[k] / 4.0) for k in ka}
        d = blocks_equal(r, spec, what="a op s")
    elif sc == "eq":
        va = req["via_a"] if req["via_a"] != "vector" else "ctor"
        vb = req["via_b"] if req["via_b"] != "vector" else "ctor"
        a = make_mi(A, ka, D, True, va)
        b = make_mi(A, kb, D, True, vb)
        d = None if (a == b) is True else "equal multi-images (same blocks under the same keys) compare unequal"
        if d is None:
            B2 = dict(A)
            B2[kb[-1]] = A[kb[-1]] + 1.0
            if (a == make_mi(B2, kb, D, True, vb)) is not False:
                d = "multi-images differing in one block compare equal"
    elif sc == "reject":
        a = make_mi(A, ka, D, True)
        b = make_mi(B, kb, D, True)
        if req["op"] == "eq":
            d = None if (a == b) is False else "different type sets compare equal"
        else:
            try:
                r = (a + b) if req["op"] == "add" else (a - b)
                d = f"operands with type sets {ka} / {kb} were combined instead of rejected"
            except (AssertionError, KeyError, ValueError, TypeError):
                d = None
    else:
        return None, call
    return d, call


def replay(req):
    d, call = scenario(req)
    return {"ok": True, "confirmed": d is not None, "detail": d, "call": call}


def search(req):
    for B0, N, C in itertools.product([1, 2], [1, 2, 3], [None, 1, 2]):
        e = {"B0": B0, "B1": 2, "N0": N, "N1": max(1, N - 1), "N2": 2, "C": C}
        d, call = scenario(req, e)
        if d is not None:
            return {"ok": True, "confirmed": True, "detail": d, "call": call}
    return {"ok": True, "confirmed": False}


def standin(req):
    tier = req.get("tier", "quick")
    n, fails = 0, []
    keysets = [[(0, 0), (0, 1)], [(0, 0), (1, 0)], [(1, 1), (0, 1), (2, 0)], [(1, 0), (1, 1)]]
    for D in ([2] if tier == "quick" else [1, 2, 3]):
        for ks in keysets:
            if D == 1:
                ks = [k for k in ks if k[0] == 0]
            if len(ks) < 1:
                continue
            for ob_ in itertools.permutations(ks):
                for va, vb in itertools.product(VIAS, VIAS):
                    if tier == "quick" and (VIAS.index(va) + VIAS.index(vb)) % 3:
                        continue
                    for sc, op in [("binop", "add"), ("binop", "sub"), ("eq", None), ("scalar", "mul"), ("scalar", "div")]:
                        rq = dict(scenario=sc, op=op, D=D, nlead=1, keys_a=list(ks), keys_b=list(ob_), via_a=va, via_b=vb, via=vb)
                        for eqs in [False, True]:
                            rq["equal_sizes"] = eqs
                            d, call = scenario(rq)
                            n += 1
                            if d is not None:
                                fails.append({"name": f"{sc}/{op}/{ks}/{list(ob_)}/{va}/{vb}", "detail": d + " :: " + call, "request": rq})
                                if len(fails) >= 3:
                                    return {"ok": True, "evaluations": n, "failures": fails}
            if len(ks) >= 2:
                for op in ["add", "sub", "eq"]:
                    rq = dict(scenario="reject", op=op, D=D, keys_a=list(ks), keys_b=list(ks[:-1]))
                    d, call = scenario(rq)
                    n += 1
                    if d is not None:
                        fails.append({"name": f"reject/{op}/{ks}", "detail": d, "request": rq})
    return {"ok": True, "evaluations": n, "failures": fails, "grid": "key sets x insertion orders x histories x ops, concrete small shapes"}


main({"replay": replay, "search": search, "standin": standin})
