"""shared helpers of the native harnesses (run with the real jax / ginjax from the repository tree)"""
import sys, os, json, itertools
sys.path.insert(0, os.environ.get("GINJAX_SRC", "/repo/src"))
import numpy as np
import jax
import jax.numpy as jnp
import ginjax.geometric as geom
import ginjax.ml as ml
import ginjax.models as models
import ginjax.data as gdata


def ext(model, name, default=2, cap=4):
    v = (model or {}).get(name)
    try:
        return max(1, min(cap, int(str(v))))
    except (TypeError, ValueError):
        return default


def block(key, lead, chan, spatial, D, base=0.0, dtype=np.float32):
    shp = tuple(lead) + ((chan,) if chan is not None else ()) + tuple(spatial) + (D,) * key[0]
    n = int(np.prod(shp))
    return (base + np.arange(1, n + 1, dtype=np.float64)).reshape(shp)


def make_mi(blocks, order, D, is_torus=True, via="ctor"):
    data = {k: jnp.array(blocks[k], dtype=jnp.float32) for k in order}
    if via == "ctor":
        return geom.MultiImage(data, D, is_torus)
    if via == "append":
        m = geom.MultiImage({}, D, is_torus)
        for k in order:
            m.append(k[0], k[1], data[k])
        return m
    if via == "copy":
        return geom.MultiImage(data, D, is_torus).copy()
    if via == "jit":
        return jax.jit(lambda x: x)(geom.MultiImage(data, D, is_torus))
    if via == "vector":
        m = geom.MultiImage(data, D, is_torus)
        return geom.MultiImage.from_vector(m.to_vector(), m)
    raise ValueError(via)


def keys(l):
    return [tuple(k) for k in l]


def blocks_equal(mi, spec, exact=True, what=""):
    """MultiImage vs dict key->numpy array; returns None or a description of the first difference"""
    if set(mi.keys()) != set(spec.keys()):
        return f"{what} key set {list(mi.keys())} != {list(spec.keys())}"
    for k in spec:
        got = np.array(mi[k])
        if got.shape != spec[k].shape:
            return f"{what} block {k} shape {got.shape} != {spec[k].shape}"
        ok = np.array_equal(got, spec[k].astype(got.dtype)) if exact else np.allclose(got, spec[k], rtol=1e-4, atol=1e-4)
        if not ok:
            i = np.argwhere(~np.isclose(got, spec[k], rtol=1e-4, atol=1e-4))
            j = tuple(i[0]) if len(i) else ()
            return f"{what} block {k} differs at {j}: got {got[j] if j else got} expected {spec[k][j] if j else spec[k]}"
    return None


def main(handlers):
    """handlers: {'replay': f(req)->dict, 'search': f(req)->dict, 'standin': f(req)->dict}"""
    mode = sys.argv[1]
    req = json.loads(sys.stdin.read() or "{}")
    try:
        out = handlers[mode](req)
    except Exception as ex:  # harness crash is not a confirmation
        import traceback
        out = {"ok": False, "error": "".join(traceback.format_exception_only(type(ex), ex)).strip(), "tb": traceback.format_exc()[-1500:]}
    print(json.dumps(out, default=str))
