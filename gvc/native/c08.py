"""native harness for C08: real blocks on x and g.x with parameters moved away from initialisation and default eps"""
import itertools
from gvc.native.nat import *
from gvc.specs.act import act_np, rotated_flags
import jax.random as random
import equinox as eqx


def act_block(X, D, key, g):
    return np.stack([act_np(a, D, key[1], g) for a in X])


def rnd(shape, seed):
    return np.random.default_rng(seed).normal(size=shape)


def vn(D, k, p, c, g, shape=None):
    g = np.asarray(g)
    shape = shape or [3, 4, 2][:D]
    sig = geom.Signature((((k, p), c),))
    layer = ml.VectorNeuronNonlinear(sig, D, jax.nn.gelu, key=random.PRNGKey(1))
    X = rnd((c,) + tuple(shape) + (D,) * k, 3)
    y0 = np.array(layer(make_mi({(k, p): X}, [(k, p)], D))[(k, p)], dtype=np.float64)
    yg = np.array(layer(make_mi({(k, p): act_block(X, D, (k, p), g)}, [(k, p)], D))[(k, p)])
    ok = np.allclose(yg, act_block(y0, D, (k, p), g), rtol=1e-3, atol=1e-4)
    return (None if ok else "VN(g.x) != g.VN(x)"), f"vn D={D} k={k} p={p} channels={c} g={g.tolist()}"


def norm(D, key, groups, g, shape=None):
    g = np.asarray(g)
    key = tuple(key)
    shape = shape or [4, 3, 2][:D]
    c = 2 * groups
    sig = geom.Signature(((key, c),))
    layer = ml.GroupNorm(sig, D, groups) if groups > 1 else ml.LayerNorm(sig, D)
    rng = np.random.default_rng(5)
    # parameters away from their initial values
    if key[0] == 0:
        vn_ = layer.vanilla_norm[key]
        vn_ = eqx.tree_at(lambda m: (m.weight, m.bias), vn_, (jnp.array(rng.normal(size=c) + 1.5, dtype=jnp.float32), jnp.array(rng.normal(size=c) + 0.7, dtype=jnp.float32)))
        layer = eqx.tree_at(lambda l: l.vanilla_norm[key], layer, vn_)
    else:
        layer = eqx.tree_at(lambda l: (l.scale[key], l.bias[key]), layer,
                            (jnp.array(rng.normal(size=layer.scale[key].shape) + 1.5, dtype=jnp.float32), jnp.array(rng.normal(size=layer.bias[key].shape) + 0.7, dtype=jnp.float32)))
    X = rnd((c,) + tuple(shape) + (D,) * key[0], 9) + 0.3
    y0 = np.array(layer(make_mi({key: X}, [key], D))[key], dtype=np.float64)
    yg = np.array(layer(make_mi({key: act_block(X, D, key, g)}, [key], D))[key])
    ok = np.allclose(yg, act_block(y0, D, key, g), rtol=2e-3, atol=2e-3)
    return (None if ok else f"norm(g.x) != g.norm(x) (max diff {np.abs(yg - act_block(y0, D, key, g)).max():.3g})"), f"norm D={D} type={key} groups={groups} g={g.tolist()}"


def pool(D, k, p, op, g, shape=None):
    g = np.asarray(g)
    shape = shape or [4, 6, 2][:D]
    X = rnd(tuple(shape) + (D,) * k, 2)
    if op == "max_pool":
        X = np.random.default_rng(4).permutation(np.arange(1, X.size + 1, dtype=np.float64)).reshape(X.shape) / 7.0   # distinct norms: no ties
    f = {"average_pool": lambda a: a.average_pool(2), "unpool": lambda a: a.unpool(2), "max_pool": lambda a: a.max_pool(2)}[op]
    r0 = f(geom.GeometricImage(jnp.array(X, dtype=jnp.float32), p, D))
    rg = f(geom.GeometricImage(jnp.array(act_np(X, D, p, g), dtype=jnp.float32), p, D))
    if (r0.k, r0.parity) != (k, p % 2) or (rg.k, rg.parity) != (k, p % 2):
        return f"declared type changed to {(r0.k, r0.parity)}", f"{op} D={D} k={k} p={p}"
    exp = act_np(np.array(r0.data, dtype=np.float64), D, p, g)
    ok = np.array(rg.data).shape == exp.shape and np.allclose(np.array(rg.data), exp, rtol=1e-4, atol=1e-4)
    return (None if ok else f"{op}(g.x) != g.{op}(x)"), f"{op} D={D} k={k} p={p} g={g.tolist()}"


def maxnormpool(D, g):
    g = np.asarray(g)
    shape = [4, 4, 2][:D]
    keys_ = [(0, 0), (1, 1)]
    X = {k: np.random.default_rng(6 + k[0]).permutation(np.arange(1, 2 * int(np.prod(shape)) * D ** k[0] + 1, dtype=np.float64)).reshape((2,) + tuple(shape) + (D,) * k[0]) / 5.0 for k in keys_}
    layer = ml.MaxNormPool(2)
    y0 = layer(make_mi(X, keys_, D))
    yg = layer(make_mi({k: act_block(X[k], D, k, g) for k in keys_}, keys_, D))
    for k in keys_:
        if not np.allclose(np.array(yg[k]), act_block(np.array(y0[k], dtype=np.float64), D, k, g), rtol=1e-4, atol=1e-4):
            return f"MaxNormPool block {k} not equivariant", f"MaxNormPool D={D} g={g.tolist()}"
    return None, f"MaxNormPool D={D} g={g.tolist()}"


def whiten(D, g, groups=2):
    """bounded check of _group_norm_K1 (real eigh): generic, small-amplitude and sparse inputs, default and large eps"""
    from ginjax.ml.layers import _group_norm_K1
    g = np.asarray(g)
    shape = [4, 3, 2][:D]
    full = (4,) + tuple(shape) + (D,)
    generic = rnd(full, 8)
    sparse = np.zeros(full)
    for c in range(4):
        sparse[(c,) + tuple((c + i) % s for i, s in enumerate(shape))] = rnd((D,), 30 + c)
    for name, X, eps in [("generic", generic, 1e-5), ("generic eps=0.3", generic, 0.3), ("amplitude 1e-2", generic * 1e-2, 1e-5),
                         ("sparse", sparse, 1e-5), ("sparse eps=0.3", sparse, 0.3)]:
        w0 = np.array(_group_norm_K1(D, jnp.array(X, dtype=jnp.float32), groups, eps=eps), dtype=np.float64)
        wg = np.array(_group_norm_K1(D, jnp.array(act_block(X, D, (1, 0), g), dtype=jnp.float32), groups, eps=eps))
        exp = act_block(w0, D, (1, 0), g)
        scale = max(1.0, float(np.abs(exp).max()))
        if not (wg.shape == exp.shape and np.abs(wg - exp).max() <= 5e-3 * scale):
            return f"_group_norm_K1(g.x) != g._group_norm_K1(x) on {name} input (max diff {np.abs(wg - exp).max():.3g}, scale {scale:.3g})", \
                f"_group_norm_K1 D={D} groups={groups} g={g.tolist()}"
    return None, f"_group_norm_K1 D={D} groups={groups} g={g.tolist()}"


def run_req(req):
    sc = req["scenario"]
    if sc == "vn":
        return vn(req["D"], req["k"], req["p"], req["c"], req["g"])
    if sc == "norm":
        return norm(req["D"], req["key"], req["groups"], req["g"])
    if sc == "pool":
        return pool(req["D"], req["k"], req["p"], req["op"], req["g"])
    if sc == "whiten":
        return whiten(req["D"], req["g"], req.get("groups", 2))
    if sc == "maxnormpool":
        return maxnormpool(req["D"], req["g"])
    return None, sc


def replay(req):
    d, call = run_req(req)
    return {"ok": True, "confirmed": d is not None, "detail": d, "call": call}


def standin(req):
    tier = req.get("tier", "quick")
    only = req.get("only")
    n, fails = 0, []

    def rec(r, rq):
        nonlocal n
        n += 1
        if r[0] is not None:
            fails.append({"name": r[1], "detail": r[0], "request": rq})

    for D in [2, 3]:
        ops = geom.make_all_operators(D)
        gs = range(len(ops)) if D == 2 else ([1, 9, 24, 33, 40] if tier == "quick" else range(0, 48, 3))
        for gi in gs:
            g = np.asarray(ops[gi]).tolist()
            rec(maxnormpool(D, g), dict(scenario="maxnormpool", D=D, g=g))
            for groups in [1, 2]:
                rec(whiten(D, g, groups), dict(scenario="whiten", D=D, g=g, groups=groups))
            for (k, p) in [(0, 0), (1, 1)]:
                rec(pool(D, k, p, "max_pool", g), dict(scenario="pool", D=D, k=k, p=p, op="max_pool", g=g))
            if only == "external":
                continue
            for (k, p) in [(0, 0), (0, 1), (1, 0), (1, 1), (2, 0)]:
                for c in [1, 3]:
                    rec(vn(D, k, p, c, g), dict(scenario="vn", D=D, k=k, p=p, c=c, g=g))
            for key in [(0, 0), (0, 1), (1, 0), (1, 1)]:
                for groups in [1, 2]:
                    rec(norm(D, key, groups, g), dict(scenario="norm", D=D, key=list(key), groups=groups, g=g))
            for (k, p) in [(0, 0), (1, 1)]:
                for op in ["average_pool", "unpool"]:
                    rec(pool(D, k, p, op, g), dict(scenario="pool", D=D, k=k, p=p, op=op, g=g))
        if len(fails) > 12:
            break
    return {"ok": True, "evaluations": n, "failures": fails[:6], "grid": "all blocks x types x group elements, perturbed parameters, default eps; max pooling without norm ties; eigh whitening"}


main({"replay": replay, "search": replay, "standin": standin})
