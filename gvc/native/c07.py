"""native harness for C07: real equivariant networks (tiny), parameters perturbed away from initialisation, x and g.x"""
import itertools
from gvc.native.nat import *
from gvc.specs.act import act_np, rotated_flags
import jax.random as random
import equinox as eqx

_B = {}


def banks(D):
    if D not in _B:
        ops = geom.make_all_operators(D)
        _B[D] = (geom.get_invariant_filters([3], [0, 1, 2], [0, 1], D, ops), geom.get_invariant_filters([2], [0, 1, 2], [0, 1], D, ops))
    return _B[D]


def perturb(model, seed=0):
    """every trainable array leaf except the invariant filter banks moves away from its initial value"""
    rng = np.random.default_rng(seed)
    leaves, treedef = jax.tree_util.tree_flatten(model, is_leaf=lambda x: isinstance(x, geom.MultiImage))
    new = []
    for l in leaves:
        if isinstance(l, geom.MultiImage) or not eqx.is_array(l):
            new.append(l)
        else:
            new.append(l + jnp.array(rng.normal(size=l.shape) * 0.3 + 0.2, dtype=l.dtype))
    return jax.tree_util.tree_unflatten(treedef, new)


def build(cfg):
    D = cfg["D"]
    fb, up = banks(D)
    sin, sout = keys(cfg["sin"]), keys(cfg["sout"])
    isig = geom.Signature(tuple((k, 1 + i) for i, k in enumerate(sin)))
    osig = geom.Signature(tuple((k, (dict(isig)[k] if cfg.get("same_io") else 2 - (i % 2))) for i, k in enumerate(sout)))
    kw = dict(equivariant=True, conv_filters=fb, key=random.PRNGKey(4))
    a = cfg["arch"]
    if a == "ConvBlock":
        m = models.ConvBlock(D, isig, osig, cfg.get("use_bias", "auto"), cfg.get("activation", "relu"), use_group_norm=cfg.get("group_norm", False),
                             preactivation_order=cfg.get("preact", False), **kw)
    elif a == "ResNet":
        m = models.ResNet(D, isig, osig, 2, num_blocks=cfg.get("num_blocks", 1), num_conv=cfg.get("num_conv", 1), use_bias=cfg.get("use_bias", "auto"),
                          use_group_norm=cfg.get("group_norm", True), preactivation_order=cfg.get("preact", True), **kw)
    elif a == "DilResNet":
        m = models.DilResNet(D, isig, osig, 2, num_blocks=cfg.get("num_blocks", 1), use_bias=cfg.get("use_bias", "auto"), use_group_norm=cfg.get("group_norm", False), **kw)
    else:
        m = models.UNet(D, isig, osig, 2, num_downsamples=cfg.get("num_downsamples", 1), num_conv=cfg.get("num_conv", 1), use_bias=cfg.get("use_bias", "auto"),
                        upsample_filters=up, use_group_norm=cfg.get("group_norm", False), **kw)
    return perturb(m), isig, osig


def one(cfg, g, shift=None):
    D = cfg["D"]
    g = np.asarray(g)
    model, isig, osig = build(cfg)
    nd = cfg.get("num_downsamples", 0) if cfg["arch"] == "UNet" else 0
    dil = cfg["arch"] == "DilResNet"
    base = 4 if not dil else 6
    shape = [(base + d) * (2 ** nd) for d in range(D)]
    rng = np.random.default_rng(2)
    flags = tuple(cfg.get("flags", [True] * D))
    X = {k: rng.normal(size=(c,) + tuple(shape) + (D,) * k[0]) for k, c in isig}
    sin = [k for k, _ in isig]
    call = f"model {cfg} g={g.tolist()} shift={shift}"
    y0 = model(make_mi(X, sin, D, flags))[0]
    if shift is not None:
        ys = model(make_mi({k: np.roll(v, shift, axis=tuple(range(1, 1 + D))) for k, v in X.items()}, sin, D, flags))[0]
        for t in y0.keys():
            if not np.allclose(np.array(ys[t]), np.roll(np.array(y0[t]), shift, axis=tuple(range(1, 1 + D))), rtol=2e-3, atol=2e-3):
                return f"block {t} does not commute with the cyclic shift {shift}", call
        return None, call
    gX = {k: np.stack([act_np(a, D, k[1], g) for a in X[k]]) for k in sin}
    yg = model(make_mi(gX, sin, D, rotated_flags(flags, g)))[0]
    if list(y0.keys()) != list(yg.keys()):
        return "output key lists differ", call
    for t in y0.keys():
        exp = np.stack([act_np(a, D, t[1], g) for a in np.array(y0[t], dtype=np.float64)])
        got = np.array(yg[t])
        if got.shape != exp.shape or not np.allclose(got, exp, rtol=5e-3, atol=5e-3):
            extra = " (pseudo-scalar through normalisation)" if (any(k == (0, 1) for k in sin + [t]) and cfg.get("group_norm")) else ""
            return f"block {t}: model(g.x) != g.model(x), max diff {np.abs(got - exp).max():.3g}{extra}", call
    return None, call


def replay(req):
    d, call = one(req["cfg"], req["g"])
    return {"ok": True, "confirmed": d is not None, "detail": d, "call": call}


CFGS = [dict(arch="ConvBlock", D=2, sin=[[0, 0], [1, 0]], sout=[[1, 0], [0, 0]], group_norm=True),
        dict(arch="ConvBlock", D=2, sin=[[0, 0], [1, 0]], sout=[[0, 0], [1, 0]], same_io=True, preact=True, group_norm=True),
        dict(arch="ResNet", D=2, sin=[[0, 0], [1, 0]], sout=[[1, 0], [0, 0]], num_blocks=1, num_conv=2, group_norm=True),
        dict(arch="DilResNet", D=2, sin=[[0, 0], [1, 0]], sout=[[0, 0]], num_blocks=1, group_norm=True, flags=[True, False]),
        dict(arch="UNet", D=2, sin=[[0, 0], [1, 0]], sout=[[1, 0], [0, 0]], num_downsamples=1, num_conv=1, group_norm=True),
        dict(arch="ResNet", D=2, sin=[[0, 1], [1, 1]], sout=[[1, 1]], num_blocks=1, num_conv=1, group_norm=False),
        dict(arch="ResNet", D=2, sin=[[0, 1], [1, 0]], sout=[[0, 1]], num_blocks=1, num_conv=1, group_norm=True)]


def standin(req):
    tier = req.get("tier", "quick")
    n, fails = 0, []
    for cfg in CFGS + ([dict(CFGS[2], D=3), dict(CFGS[4], D=3)] if tier != "quick" else []):
        D = cfg["D"]
        ops = geom.make_all_operators(D)
        gs = [1, 3, 4, 6] if D == 2 and tier == "quick" else (range(8) if D == 2 else [1, 9, 24, 33])
        for gi in gs:
            d, call = one(cfg, ops[gi])
            n += 1
            if d is not None:
                nm = f"model {cfg['arch']} pseudo-scalar through norm" if "pseudo-scalar" in d else call
                fails.append({"name": nm, "detail": d, "request": dict(scenario="model", cfg=cfg, g=np.asarray(ops[gi]).tolist())})
                break
        if all(cfg.get("flags", [True])) and D == 2:
            tot = 2 ** (cfg.get("num_downsamples", 0) if cfg["arch"] == "UNet" else 0)
            d, call = one(cfg, np.eye(D), shift=(tot, 2 * tot))
            n += 1
            if d is not None:
                fails.append({"name": call, "detail": d, "request": dict(scenario="model", cfg=cfg, g=np.eye(D).tolist())})
    return {"ok": True, "evaluations": n, "failures": fails[:5], "grid": "7 tiny architectures x group elements, perturbed parameters; cyclic shifts (multiples of the pooling factor)"}


main({"replay": replay, "search": replay, "standin": standin})
