"""gvc.loader -- import the real ginjax source (unmodified, from the repository working tree) under
the library contract models, and rebind a small list of names in the ginjax modules' globals to
symbol-aware versions that fall through to the originals on concrete arguments."""
from __future__ import annotations
import sys, os, hashlib, importlib, builtins
from . import lib

REPO_SRC = os.environ.get("GINJAX_SRC", "/repo/src")
MODULES = [
    "ginjax.geometric.constants", "ginjax.geometric.functional_geometric_image",
    "ginjax.geometric.geometric_image", "ginjax.geometric.multi_image", "ginjax.geometric.common",
    "ginjax.geometric", "ginjax.ml.layers", "ginjax.ml.losses", "ginjax.ml.stopping_conditions",
    "ginjax.ml.training", "ginjax.ml", "ginjax.models", "ginjax.data",
]
REBOUND = ["np", "it", "math", "len", "range", "int", "float", "print", "time"]
_loaded = None


class ItShim:
    def __getattr__(self, n):
        import itertools
        return getattr(itertools, n)

    def product(self, *ranges, **k):
        import itertools
        ranges = [list(r) if not isinstance(r, (lib.SRange, range, list, tuple)) else r for r in ranges]
        if any(isinstance(r, lib.SRange) for r in ranges):
            if k:
                raise lib.OutOfReach("product(repeat=) over symbolic ranges")
            return lib.GenericProduct(ranges)
        return itertools.product(*ranges, **k)


class TimeShim:
    def time(self):
        return 0.0

    def time_ns(self):
        return 0


def load(src=None):
    """returns dict name -> module; idempotent per process"""
    global _loaded
    if _loaded is not None:
        return _loaded
    src = src or REPO_SRC
    mods = lib.install()
    # drop the editable-install finder's path, use the working tree directly
    sys.path.insert(0, src)
    for name in list(sys.modules):
        if name == "ginjax" or name.startswith("ginjax."):
            del sys.modules[name]
    import ginjax.geometric  # noqa
    import ginjax.ml  # noqa
    import ginjax.models  # noqa
    import ginjax.data  # noqa
    out = {}
    np_shim = lib.NumpyModel("numpy(shim)", real=__import__("numpy"))
    it_shim, math_shim, time_shim = ItShim(), lib.MathShim(), TimeShim()
    for name in MODULES:
        m = sys.modules[name]
        out[name] = m
        g = m.__dict__
        if "np" in g:
            g["np"] = np_shim
        if "it" in g:
            g["it"] = it_shim
        if "math" in g:
            g["math"] = math_shim
        if "time" in g and not callable(g["time"]):
            g["time"] = time_shim
        g["len"] = lib.slen
        g["range"] = lib.srange
        # int / float are rebound only where the source converts symbolic scalars (elsewhere they are also used as
        # numpy dtypes); a conversion anywhere else raises OutOfReach through SInt.__int__ / SReal.__float__
        if name in ("ginjax.ml.training",):
            g["int"] = lib.sint
        if name in ("ginjax.ml.stopping_conditions",):
            g["float"] = lib.FloatShim
        g["print"] = lambda *a, **k: None
    out["_src"] = src
    _loaded = out
    return out


def source_hashes(src=None):
    src = src or REPO_SRC
    hs = {}
    for name in MODULES:
        rel = name.replace(".", "/")
        for cand in (f"{src}/{rel}.py", f"{src}/{rel}/__init__.py"):
            if os.path.exists(cand):
                hs[os.path.relpath(cand, src)] = hashlib.sha256(open(cand, "rb").read()).hexdigest()[:16]
    return hs
