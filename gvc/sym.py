"""gvc.sym -- symbolic scalars, path conditions and forking execution.

The real ginjax source is executed by CPython; integers (extents, counts, epochs), reals (losses,
pixel values) and booleans derived from them are proxy objects carrying z3 terms.  A comparison that
the path condition does not decide *forks*: the obligation is re-executed once per feasible branch
(decision-prefix re-execution), so every path of the real function is covered.

Soundness guards: any attempt to concretise a symbolic value raises OutOfReach, which makes the
obligation *undecided* (never passed, never a violation).
"""
from __future__ import annotations
import itertools, time, os
import z3

RLIMIT = int(os.environ.get("GVC_RLIMIT", "40000000"))   # deterministic budget per query
TIMEOUT_MS = int(os.environ.get("GVC_TIMEOUT_MS", "60000"))  # wall-clock backstop only


class OutOfReach(Exception):
    """the code left the subset the engine can execute symbolically (=> undecided)"""


class Refuted(Exception):
    """a safety obligation (library pre-condition, assert of the code) can fail; carries a model"""

    def __init__(self, what, model=None):
        super().__init__(what)
        self.what = what
        self.model = model


class Ctx:
    def __init__(self):
        self.path = []          # z3 Bool terms: pre-condition + branch decisions
        self.decisions = []     # branch decisions of the current run
        self.pos = 0
        self.todo = None        # list of decision prefixes still to run (None: forking disabled)
        self.nq = 0             # number of solver queries
        self.solver_s = 0.0
        self.unknowns = 0
        self.trace = []         # notes (assumed contracts used, rewrites, ...)
        self.hyps = []          # extra index-range hypotheses active while building terms
        self.cache = {}

    def all_hyps(self):
        return list(self.path) + list(self.hyps)


CTX = Ctx()


def reset(pre=(), decisions=(), todo=None):
    global CTX
    old = CTX
    CTX = Ctx()
    CTX.path = list(pre)
    CTX.decisions = list(decisions)
    CTX.todo = todo
    CTX.nq, CTX.solver_s, CTX.unknowns = old.nq, old.solver_s, old.unknowns
    return CTX


def _solver(rlimit=None):
    s = z3.Solver()
    s.set("timeout", TIMEOUT_MS)
    s.set("rlimit", rlimit or RLIMIT)
    return s


def check_sat(assertions, rlimit=None):
    """returns ('sat', model) | ('unsat', None) | ('unknown', None)"""
    s = _solver(rlimit)
    s.add(*assertions)
    t = time.time()
    r = s.check()
    CTX.nq += 1
    CTX.solver_s += time.time() - t
    if r == z3.sat:
        return "sat", s.model()
    if r == z3.unsat:
        return "unsat", None
    CTX.unknowns += 1
    return "unknown", None


def _vars(t, cache={}):
    k = t.get_id()
    if k in cache:
        return cache[k][1]
    out = set()
    seen = set()
    stack = [t]
    while stack:
        x = stack.pop()
        i = x.get_id()
        if i in seen:
            continue
        seen.add(i)
        if z3.is_app(x):
            if x.num_args() == 0:
                if x.decl().kind() == z3.Z3_OP_UNINTERPRETED:
                    out.add(x.decl().name())
            else:
                if x.decl().kind() == z3.Z3_OP_UNINTERPRETED:
                    out.add("fn:" + x.decl().name())
                stack.extend(x.children())
        elif z3.is_quantifier(x):
            stack.append(x.body())
    if len(cache) > 200000:
        cache.clear()
    cache[k] = (t, out)      # keep the term alive: z3 re-uses ids of collected terms
    return out


def _free_consts(t):
    out, seen, stack = [], set(), [t]
    while stack:
        x = stack.pop()
        if x.get_id() in seen:
            continue
        seen.add(x.get_id())
        if z3.is_const(x) and x.decl().kind() == z3.Z3_OP_UNINTERPRETED:
            out.append(x)
        elif z3.is_app(x):
            stack.extend(x.children())
    return out


def relevant(hyps, goals):
    """cone of influence: the hypotheses sharing (transitively) a symbol with the goals.
    Dropping the others is sound for validity, and keeps 'sat' answers sat (the dropped ones are over
    disjoint symbols and the path is feasible)."""
    vs = set()
    for g in goals:
        vs |= _vars(g)
    hv = [(h, _vars(h)) for h in hyps]
    keep = [False] * len(hv)
    changed = True
    while changed:
        changed = False
        for i, (h, v) in enumerate(hv):
            if not keep[i] and (v & vs or not v):
                keep[i] = True
                if not v <= vs:
                    vs |= v
                    changed = True
    return [h for (h, _), k in zip(hv, keep) if k]


def _small(t, limit=600):
    n, seen, stack = 0, set(), [t]
    while stack:
        x = stack.pop()
        if x.get_id() in seen:
            continue
        seen.add(x.get_id())
        n += 1
        if n > limit:
            return False
        if z3.is_app(x):
            stack.extend(x.children())
    return True


def poly_zero(t):
    """is the integer/real term t identically zero as a polynomial (syntactic normal form)?  Only attempted on small
    terms: the sum-of-monomials expansion is exponential in general."""
    if not _small(t):
        return False
    try:
        r = z3.simplify(t, som=True)
    except z3.Z3Exception:
        return False
    return (z3.is_int_value(r) and r.as_long() == 0) or (z3.is_rational_value(r) and r.numerator_as_long() == 0)


UMUL = z3.Function("umul", z3.RealSort(), z3.RealSort(), z3.RealSort())
UINV = z3.Function("uinv", z3.RealSort(), z3.RealSort())
_INVMARK = z3.Function("uinv", z3.RealSort(), z3.RealSort())        # a / b is abstracted as umul(a, uinv(b))
_abs_cache = {}
_ABS_ALT = [False]        # alternative tie-breaking order of umul factors (second attempt)


def _split_const(t):
    """t = c * rest with c a rational numeral (python Fraction-like pair) -> (c_term or None, rest)"""
    if z3.is_mul(t):
        consts = [c for c in t.children() if z3.is_rational_value(c) or z3.is_int_value(c)]
        rest = [c for c in t.children() if not (z3.is_rational_value(c) or z3.is_int_value(c))]
        if consts and rest:
            c = consts[0]
            for x in consts[1:]:
                c = c * x
            r = rest[0]
            for x in rest[1:]:
                r = r * x
            return z3.simplify(c), r
    if z3.is_app(t) and t.decl().kind() == z3.Z3_OP_UMINUS:
        c, r = _split_const(t.arg(0))
        return (z3.simplify(-c) if c is not None else z3.RealVal(-1)), r
    return None, t


_leaf_cache = {}
_fp_cache = {}


def _hashf(key, lo=0.5, hi=1.5):
    import hashlib
    h = int(hashlib.md5(repr(key).encode()).hexdigest()[:12], 16)
    return lo + (hi - lo) * (h % 1000003) / 1000003.0


def fingerprint(t):
    """numeric value of a term under a fixed pseudo-random interpretation of its symbols (ints, reals, uninterpreted
    functions): semantically equal terms get (numerically) equal fingerprints whatever their syntactic shape.
    Used only to ORDER the factors of abstracted products canonically; never to decide anything."""
    k = t.get_id()
    if k in _fp_cache:
        return _fp_cache[k][1]
    import math as _m
    if _NUM_ENV[0] is not None:
        v = _fp(t)                      # numeric refutation mode: errors propagate (the sample is discarded)
        _fp_cache[k] = (t, v)
        return v
    try:
        v = _fp(t)
    except (ZeroDivisionError, OverflowError, ValueError):
        v = _hashf(("err", str(t)[:200]))
    if len(_fp_cache) > 300000:
        _fp_cache.clear()
    _fp_cache[k] = (t, v)
    return v


_NUM_ENV = [None]       # (int model dict name->int, seed) when evaluating for a numeric refutation


def _fp(t):
    import math as _m
    if z3.is_int_value(t):
        return t.as_long()
    if z3.is_rational_value(t):
        return t.numerator_as_long() / t.denominator_as_long()
    if z3.is_true(t):
        return True
    if z3.is_false(t):
        return False
    if not z3.is_app(t):
        return _hashf(str(t))
    kind = t.decl().kind()
    kids = t.children()
    if t.num_args() == 0:
        env = _NUM_ENV[0]
        if env is not None:
            if t.sort() == z3.IntSort():
                return env[0].get(t.decl().name(), 3)
            if t.sort() == z3.BoolSort():
                return env[0].get(t.decl().name(), False)
            return _hashf(("real", t.decl().name(), env[1]), 0.3, 1.7)
        if t.sort() == z3.IntSort():
            return 3 + int(_hashf(("int", t.decl().name()), 0, 37))
        if t.sort() == z3.BoolSort():
            return _hashf(("bool", t.decl().name())) > 1.0
        return _hashf(("real", t.decl().name()))
    f = fingerprint
    if kind == z3.Z3_OP_ADD:
        return sum(f(c) for c in kids)
    if kind == z3.Z3_OP_MUL:
        r = 1
        for c in kids:
            r = r * f(c)
        return r
    if kind == z3.Z3_OP_SUB:
        r = f(kids[0])
        for c in kids[1:]:
            r = r - f(c)
        return r
    if kind == z3.Z3_OP_UMINUS:
        return -f(kids[0])
    if kind == z3.Z3_OP_DIV:
        return f(kids[0]) / f(kids[1])
    if kind == z3.Z3_OP_IDIV:
        return f(kids[0]) // f(kids[1])
    if kind in (z3.Z3_OP_MOD, z3.Z3_OP_REM):
        return f(kids[0]) % f(kids[1])
    if kind in (z3.Z3_OP_TO_REAL, z3.Z3_OP_TO_INT):
        v = f(kids[0])
        return _m.floor(v) if kind == z3.Z3_OP_TO_INT else v
    if kind == z3.Z3_OP_ITE:
        return f(kids[1]) if f(kids[0]) else f(kids[2])
    if kind == z3.Z3_OP_AND:
        return all(f(c) for c in kids)
    if kind == z3.Z3_OP_OR:
        return any(f(c) for c in kids)
    if kind == z3.Z3_OP_NOT:
        return not f(kids[0])
    if kind == z3.Z3_OP_LE:
        return f(kids[0]) <= f(kids[1])
    if kind == z3.Z3_OP_GE:
        return f(kids[0]) >= f(kids[1])
    if kind == z3.Z3_OP_LT:
        return f(kids[0]) < f(kids[1])
    if kind == z3.Z3_OP_GT:
        return f(kids[0]) > f(kids[1])
    if kind == z3.Z3_OP_EQ:
        a, b = f(kids[0]), f(kids[1])
        return a == b if isinstance(a, (bool, int)) and isinstance(b, (bool, int)) else abs(a - b) < 1e-12
    name = t.decl().name()
    if name == "sqrt":
        return _m.sqrt(abs(f(kids[0])))
    if name.startswith("act_"):
        v = f(kids[0])
        return 1.3 * _m.tanh(v) + 0.1 * v + 0.05 * v * v
    if name == "umul":
        return f(kids[0]) * f(kids[1])
    if name == "uinv":
        return 1.0 / f(kids[0])
    if _NUM_ENV[0] is not None and name in FUNC_EVAL:
        # a library result with a defining contract (argmax): evaluate it by its definition so that the instantiated
        # contract facts hold in the numeric world
        vals = [f(v) for v in FUNC_EVAL[name](list(kids))]
        return max(range(len(vals)), key=lambda i: (vals[i], -i))
    args = tuple(round(f(c), 9) if not isinstance(f(c), bool) else f(c) for c in kids)
    if _NUM_ENV[0] is not None:
        if t.sort() == z3.IntSort():
            return int(_hashf((name, args, _NUM_ENV[0][1]), 0, 4))      # an integer-valued function stays integer-valued
        if t.sort() == z3.BoolSort():
            return _hashf((name, args, _NUM_ENV[0][1]), 0, 1) > 0.5
        return _hashf((name, args, _NUM_ENV[0][1]), -1.5, 1.5)
    return _hashf((name, args))


def refute_numeric(goal, hyps, tries=5):
    """search for a counter-model by evaluation: integer constants from a z3 model of the hypotheses, real constants and
    uninterpreted functions interpreted pseudo-randomly; accepted only if EVERY hypothesis evaluates to true and the goal to
    false under that interpretation (then it is a genuine counter-model: sqrt is the real square root, activations a fixed
    smooth function).  Returns the z3 model (for the integer part) or None."""
    sv = z3.Solver()
    sv.set("timeout", 5000)
    lin = [abstract_mul(h) for h in hyps]
    sv.add(*lin)
    if sv.check() != z3.sat:
        return None
    m = sv.model()
    ints = {}
    for d in m.decls():
        if d.arity() == 0:
            v = m[d]
            if z3.is_int_value(v):
                ints[d.name()] = v.as_long()
            elif z3.is_true(v) or z3.is_false(v):
                ints[d.name()] = z3.is_true(v)
    saved = dict(_fp_cache)
    try:
        for seed in range(tries):
            _fp_cache.clear()
            _NUM_ENV[0] = (ints, seed)
            try:
                if all(_fp(h) is True for h in hyps) and _fp(goal) is False:
                    return m
            except (ZeroDivisionError, OverflowError, ValueError, TypeError):
                continue
    finally:
        _NUM_ENV[0] = None
        _fp_cache.clear()
        _fp_cache.update(saved)
    return None


def _leaf_sig(t):
    """multiset of the uninterpreted leaf applications below t (as sorted ids): invariant under arithmetic re-arrangement"""
    k = t.get_id()
    if k in _leaf_cache:
        return _leaf_cache[k][1]
    ids, seen, stack = [], set(), [t]
    while stack:
        x = stack.pop()
        if z3.is_app(x):
            kind = x.decl().kind()
            if kind == z3.Z3_OP_UNINTERPRETED and x.decl().name() not in ("umul", "uinv", "sqrt") and not x.decl().name().startswith("act_"):
                ids.append(x.get_id())
                continue
            stack.extend(x.children())
    sig = tuple(sorted(set(ids)))
    if len(_leaf_cache) > 200000:
        _leaf_cache.clear()
    _leaf_cache[k] = (t, sig)
    return sig


def _signed_sum(a):
    """a factor with a negative fingerprint is replaced by its negation (the sign goes into the constant), so that
    -(x+y) and (-x)+(-y) are abstracted alike"""
    if not (z3.is_add(a) and a.sort() == z3.RealSort()):
        return 1, a
    v = fingerprint(a)
    if isinstance(v, (int, float)) and v < 0:
        return -1, z3.simplify(-a)
    return 1, a


def abstract_mul(t):
    """replace products of two non-constant REAL terms by the uninterpreted, commutative, constant-homogeneous
    function umul.  If a formula is valid with umul uninterpreted it is valid for real multiplication
    (real multiplication is one interpretation); a counter-model of the abstraction proves nothing."""
    k = (t.get_id(), _ABS_ALT[0])
    if k in _abs_cache:
        return _abs_cache[k][1]
    if not z3.is_app(t) or t.num_args() == 0:
        r = t
    else:
        if z3.is_mul(t) and t.sort() == z3.RealSort():
            # flatten nested products first: the factor multiset (not the bracketing) determines the abstraction
            const = None
            raw = []
            stack = list(t.children())
            while stack:
                c = stack.pop()
                if z3.is_rational_value(c) or z3.is_int_value(c):
                    const = c if const is None else const * c
                elif z3.is_mul(c) and c.sort() == z3.RealSort():
                    stack.extend(c.children())
                elif z3.is_app(c) and c.decl().kind() == z3.Z3_OP_DIV and not (z3.is_rational_value(c.arg(1)) or z3.is_int_value(c.arg(1))):
                    stack.append(c.arg(0))
                    raw.append(("inv", c.arg(1)))
                elif z3.is_app(c) and c.decl().kind() == z3.Z3_OP_UMINUS:
                    const = z3.RealVal(-1) if const is None else const * z3.RealVal(-1)
                    stack.append(c.arg(0))
                else:
                    raw.append(c)
            facs = []
            for c in raw:
                if isinstance(c, tuple):
                    sg, a = _signed_sum(abstract_mul(c[1]))
                    facs.append(UINV(a))
                else:
                    sg, a = _signed_sum(abstract_mul(c))
                    facs.append(a)
                if sg == -1:
                    const = z3.RealVal(-1) if const is None else const * z3.RealVal(-1)
            if len(facs) <= 1:
                r = facs[0] if facs else z3.RealVal(1)
            else:
                # order the factors by head symbol first (stable across syntactically different but equal arguments),
                # then by term id: umul is meant to be commutative / associative
                sgn_ = -1 if _ABS_ALT[0] else 1
                facs.sort(key=lambda x: (round(float(fingerprint(x)), 8), sgn_ * x.get_id()))
                r = facs[0]
                for f in facs[1:]:
                    r = UMUL(r, f)
            if const is not None:
                r = z3.simplify(const) * r
        elif t.decl().kind() == z3.Z3_OP_DIV and t.sort() == z3.RealSort() and not (z3.is_rational_value(t.arg(1)) or z3.is_int_value(t.arg(1))):
            r = abstract_mul(t.arg(0) * (z3.RealVal(1) * _INVMARK(t.arg(1))))
        else:
            kids = [abstract_mul(c) for c in t.children()]
            try:
                r = t.decl()(*kids)
            except z3.Z3Exception:
                r = t
    if len(_abs_cache) > 300000:
        _abs_cache.clear()
    _abs_cache[k] = (t, r)
    return r


def abstract_all(terms):
    """abstract a list of formulas and add the facts umul(a, a) >= 0 for every square that occurs (true of real
    multiplication, so 'unsat' of the result is still sound)"""
    out = [abstract_mul(t) for t in terms]
    seen, sq, todo = set(), [], list(out)
    while todo:
        x = todo.pop()
        i = x.get_id()
        if i in seen:
            continue
        seen.add(i)
        if z3.is_app(x):
            if x.decl().name() == "umul" and x.num_args() == 2 and x.arg(0).eq(x.arg(1)):
                sq.append(x >= 0)
            todo.extend(x.children())
    return out + sq


def _has_nl_real_mul(t, seen=None):
    seen = set() if seen is None else seen
    stack = [t]
    while stack:
        x = stack.pop()
        i = x.get_id()
        if i in seen:
            continue
        seen.add(i)
        if z3.is_app(x):
            if z3.is_mul(x) and x.sort() == z3.RealSort():
                if sum(1 for c in x.children() if not (z3.is_rational_value(c) or z3.is_int_value(c))) >= 2:
                    return True
            if x.decl().kind() == z3.Z3_OP_DIV and x.sort() == z3.RealSort() and not (z3.is_rational_value(x.arg(1)) or z3.is_int_value(x.arg(1))):
                return True
            stack.extend(x.children())
    return False


def valid(e, extra=()):
    """is e valid under path condition + active hypotheses (+extra)?  unknown counts as 'not valid'"""
    if isinstance(e, bool):
        return e
    e = z3.simplify(e)
    if z3.is_true(e):
        return True
    if z3.is_eq(e) and e.arg(0).sort() != z3.BoolSort() and poly_zero(e.arg(0) - e.arg(1)):
        return True
    if z3.is_false(e) and not CTX.path and not CTX.hyps and not extra:
        return False
    key = (e.get_id(), tuple(x.get_id() for x in CTX.path), tuple(x.get_id() for x in CTX.hyps),
           tuple(x.get_id() for x in extra))
    if key in CTX.cache:
        return CTX.cache[key][0]
    goal = z3.Not(e)
    hy = relevant(CTX.all_hyps() + list(extra), [goal])
    if not _has_nl_real_mul(e) and any(_has_nl_real_mul(h) for h in hy):
        # a linear question under non-linear hypotheses: ask it with multiplication abstracted ('unsat' is sound, and
        # this helper treats everything else as "not valid" anyway) -- never the slow NRA query
        r, _ = check_sat(abstract_all(hy + [goal]), RLIMIT // 8)
    else:
        r, _ = check_sat(hy + [goal])
    res = (r == "unsat")
    CTX.cache[key] = (res, e, tuple(CTX.hyps), tuple(extra))   # keep terms alive (ids are re-used otherwise)
    return res


import contextlib


@contextlib.contextmanager
def scope(hyps=()):
    """temporarily extend the index hypotheses; everything added inside (incl. hints) is dropped on exit"""
    n0 = len(CTX.hyps)
    CTX.hyps.extend(hyps)
    try:
        yield
    finally:
        del CTX.hyps[n0:]


def _cond_atoms(t):
    """arithmetic comparison atoms occurring in the conditions of if-then-else sub-terms of t"""
    atoms, seen_ids = [], set()
    seen = set()
    stack = [t]

    def add_atoms(c):
        st = [c]
        while st:
            x = st.pop()
            if z3.is_and(x) or z3.is_or(x) or z3.is_not(x):
                st.extend(x.children())
            elif z3.is_app(x) and x.decl().kind() in (z3.Z3_OP_LE, z3.Z3_OP_GE, z3.Z3_OP_LT, z3.Z3_OP_GT, z3.Z3_OP_EQ):
                if x.get_id() not in seen_ids:
                    seen_ids.add(x.get_id())
                    atoms.append(x)
    while stack:
        x = stack.pop()
        if x.get_id() in seen:
            continue
        seen.add(x.get_id())
        if z3.is_app(x):
            if x.decl().kind() == z3.Z3_OP_ITE:
                add_atoms(x.arg(0))
            stack.extend(x.children())
    return atoms


def prove_by_cases(goal, extra=(), max_leaves=600):
    """validity of `goal` by case analysis on the comparison atoms of its if-then-else conditions: every leaf is an
    ite-free (typically linear) query.  Complete enumeration of the feasible sign vectors => sound and, per leaf,
    a 'refuted' answer is a genuine counter-model.  One incremental solver decides the atoms (push/pop)."""
    leaves = [0]
    base = relevant(CTX.all_hyps() + list(extra), [goal])
    inc = z3.Solver()
    inc.set("timeout", 20000)
    inc.add(*base)

    def decided(a):
        """True / False if the atom is decided by the solver's current assertions, else None"""
        inc.push()
        inc.add(z3.Not(a))
        r = inc.check()
        inc.pop()
        CTX.nq += 1
        if r == z3.unsat:
            return True
        inc.push()
        inc.add(a)
        r = inc.check()
        inc.pop()
        CTX.nq += 1
        if r == z3.unsat:
            return False
        return None

    def rec(g, atoms, hy):
        g = z3.simplify(g)
        if z3.is_true(g):
            return "proved", None
        i = 0
        while i < len(atoms):
            a = atoms[i]
            i += 1
            d = decided(a)
            if d is True:
                g = z3.simplify(z3.substitute(g, (a, z3.BoolVal(True))))
            elif d is False:
                g = z3.simplify(z3.substitute(g, (a, z3.BoolVal(False))))
            else:
                rest = atoms[i:]
                inc.push()
                inc.add(a)
                r = rec(z3.substitute(g, (a, z3.BoolVal(True))), rest, hy + [a])
                inc.pop()
                if r[0] != "proved":
                    return r
                inc.push()
                inc.add(z3.Not(a))
                r = rec(z3.substitute(g, (a, z3.BoolVal(False))), rest, hy + [z3.Not(a)])
                inc.pop()
                return r
            if z3.is_true(g):
                return "proved", None
        leaves[0] += 1
        if leaves[0] > max_leaves:
            return "unknown", None
        more = _cond_atoms(g)
        if more:
            return rec(g, more, hy)
        return refute_or_prove(g, list(extra) + hy)

    t0 = time.time()
    try:
        return rec(goal, _cond_atoms(goal), [])
    finally:
        CTX.solver_s += 0.0


INSTANTIATORS = {}     # declaration name -> (callable(args) -> list of facts): contract axioms of uninterpreted library
                       # results (argmax), instantiated for every application that occurs in a goal (trigger = the application)


FUNC_EVAL = {}         # declaration name -> callable(args) -> list of value terms; the function is the argmax of them
FINITE_RANGE = {}      # declaration name -> P: the function's values lie in range(P) (part of its instantiated contract)
_IN_SPLIT = [False]


def _finite_apps(goal):
    out, seen, ids = [], set(), set()
    todo = [goal]
    while todo:
        x = todo.pop()
        if x.get_id() in seen:
            continue
        seen.add(x.get_id())
        if z3.is_app(x):
            if x.num_args() > 0 and x.decl().name() in FINITE_RANGE and x.get_id() not in ids:
                ids.add(x.get_id())
                out.append((x, FINITE_RANGE[x.decl().name()]))
            todo.extend(x.children())
    return out


def instantiate_axioms(goal):
    if not INSTANTIATORS:
        return
    done = CTX.cache.setdefault("axiom_instances", set())
    todo = [goal]
    seen = set()
    while todo:
        x = todo.pop()
        if not z3.is_expr(x) or x.get_id() in seen:
            continue
        seen.add(x.get_id())
        if z3.is_app(x):
            nm = x.decl().name()
            if nm in INSTANTIATORS and x.num_args() > 0:
                key = (nm, tuple(z3.simplify(a).get_id() for a in x.children()))
                if key not in done:
                    done.add(key)
                    CTX.cache.setdefault("axiom_keep", []).append(x)
                    for f in INSTANTIATORS[nm]([z3.simplify(a) for a in x.children()]):
                        f = z3.simplify(f)
                        if not z3.is_true(f):
                            CTX.path.append(f)
                            todo.append(f)
            todo.extend(x.children())


def prove_goal(goal, extra=()):
    """strategy: (1) the multiplication-abstracted query with the full budget (cheap, sound when it says valid);
    (2) case analysis on ite conditions; (3) the real query (also the one that yields counter-models)"""
    if isinstance(goal, bool):
        return ("proved", None) if goal else ("refuted", None)
    goal = z3.simplify(goal)
    if z3.is_true(goal):
        return "proved", None
    instantiate_axioms(goal)
    if FINITE_RANGE and not _IN_SPLIT[0]:
        apps = _finite_apps(goal)
        n = 1
        for _, P in apps:
            n *= P
        if apps and n <= 512:
            # complete case analysis on the values of finite-range library results (argmax): every leaf fixes them
            import itertools as _it
            _IN_SPLIT[0] = True
            try:
                for combo in _it.product(*[range(P) for _, P in apps]):
                    eqs = [a == v for (a, _), v in zip(apps, combo)]
                    g2 = z3.simplify(z3.substitute(goal, *[(a, z3.IntVal(v)) for (a, _), v in zip(apps, combo)]))
                    st, m = prove_goal(g2, list(extra) + eqs)
                    if st != "proved":
                        return st, m
                return "proved", None
            finally:
                _IN_SPLIT[0] = False
    natoms = len(_cond_atoms(goal))
    if natoms < 6:
        st, m = refute_or_prove(goal, extra, rlimit=RLIMIT // 4 if natoms else None)
        if st != "unknown":
            return st, m
    if natoms:
        st, m = prove_by_cases(goal, extra)
        if st != "unknown":
            return st, m
    return refute_or_prove(goal, extra)


def add_hint(f):
    """add a fact to the path condition after proving it from the current context (sound by construction);
    used for small non-linear consequences that help the later, larger queries"""
    f = z3.simplify(f)
    if z3.is_true(f) or any(f.eq(p) for p in CTX.hyps):
        return True
    if valid(f):
        CTX.hyps.append(f)
        CTX.hint_count = getattr(CTX, "hint_count", 0) + 1
        return True
    return False


def refute_or_prove(e, extra=(), rlimit=None):
    """('proved',None) | ('refuted',model) | ('unknown',None) for validity of e under the context"""
    if isinstance(e, bool):
        return ("proved", None) if e else ("refuted", None)
    e = z3.simplify(e)
    if z3.is_true(e):
        return "proved", None
    if z3.is_eq(e) and e.arg(0).sort() != z3.BoolSort() and poly_zero(e.arg(0) - e.arg(1)):
        return "proved", None
    instantiate_axioms(e)
    goal = z3.Not(e)
    hy = relevant(CTX.all_hyps() + list(extra), [goal])
    if _has_nl_real_mul(e) or any(_has_nl_real_mul(h) for h in hy):
        # first try with real multiplication abstracted to an uninterpreted commutative function: 'unsat' is sound
        for alt in (False, True):
            _ABS_ALT[0] = alt
            try:
                r, _ = check_sat(abstract_all(hy + [goal]))
            finally:
                _ABS_ALT[0] = False
            if r == "unsat":
                return "proved", None
        m = refute_numeric(e, hy)
        if m is not None:
            return "refuted", m
    r, m = check_sat(hy + [goal], rlimit)
    if r == "unsat":
        return "proved", None
    if r == "sat":
        return "refuted", m
    return "unknown", None


def feasible(extra=()):
    """False only if the context is PROVABLY contradictory (used to skip empty cases); with non-linear hypotheses the
    question is asked with multiplication abstracted (unsat there is unsat here), never as an NRA query"""
    hy = CTX.all_hyps() + list(extra)
    if any(_has_nl_real_mul(h) for h in hy):
        r, _ = check_sat(abstract_all(hy), RLIMIT // 8)
    else:
        r, _ = check_sat(hy)
    return r != "unsat"


# ------------------------------------------------------------------------------------------------
# term helpers

def is_sym(x):
    return isinstance(x, (SInt, SReal, SBool)) or z3.is_expr(x)


def zi(x):
    """-> z3 Int term"""
    if isinstance(x, SInt):
        return x.e
    if isinstance(x, bool):
        return z3.IntVal(int(x))
    if isinstance(x, int):
        return z3.IntVal(x)
    if z3.is_expr(x):
        if x.sort() == z3.IntSort():
            return x
        raise OutOfReach(f"zi: non-int term {x}")
    try:
        import numpy as _np
        if isinstance(x, _np.integer):
            return z3.IntVal(int(x))
        if isinstance(x, _np.floating) and float(x).is_integer():
            return z3.IntVal(int(x))
    except ImportError:
        pass
    if isinstance(x, float) and not isinstance(x, SReal) and x.is_integer():
        return z3.IntVal(int(x))
    raise OutOfReach(f"zi: cannot make an Int term of {type(x).__name__}")


def zr(x):
    """-> z3 Real term"""
    if isinstance(x, SReal):
        if x.inf is not None and not z3.is_false(x.inf):
            raise OutOfReach("arithmetic on a possibly infinite value")
        return x.e
    if isinstance(x, SInt):
        return z3.ToReal(x.e)
    if isinstance(x, bool):
        return z3.RealVal(int(x))
    if isinstance(x, int):
        return z3.RealVal(x)
    if isinstance(x, float):
        if x != x or x in (float("inf"), float("-inf")):
            raise OutOfReach("nan/inf literal in real arithmetic")
        from fractions import Fraction
        f = Fraction(x)
        return z3.RealVal(f"{f.numerator}/{f.denominator}")
    if z3.is_expr(x):
        if x.sort() == z3.IntSort():
            return z3.ToReal(x)
        if x.sort() == z3.RealSort():
            return x
        raise OutOfReach(f"zr: term of sort {x.sort()}")
    try:
        import numpy as _np
        if isinstance(x, _np.integer):
            return z3.RealVal(int(x))
        if isinstance(x, _np.floating):
            return zr(float(x))
        if isinstance(x, _np.ndarray) and x.ndim == 0:
            return zr(x.item())
    except ImportError:
        pass
    raise OutOfReach(f"zr: cannot make a Real term of {type(x).__name__}")


def mk(e):
    """wrap an Int term (normalised as a sum of monomials), folding constants to python ints"""
    e = z3.simplify(e, som=True)
    if z3.is_int_value(e):
        return e.as_long()
    return SInt(e)


def mkr(e):
    e = z3.simplify(e)
    return SReal(e)


def concrete_int(x):
    if isinstance(x, bool):
        return int(x)
    if isinstance(x, int):
        return x
    if isinstance(x, SInt):
        e = z3.simplify(x.e)
        if z3.is_int_value(e):
            return e.as_long()
    return None


# python floor-division / modulo on Int terms, context-aware (see DESIGN 2.3)
def int_floordiv(a, b):
    ea, eb = zi(a), zi(b)
    cb = concrete_int(mk(eb))
    if cb is not None:
        if cb == 0:
            raise ZeroDivisionError("integer division by zero")
        if cb == 1:
            return mk(ea)
    # e = q*d with q syntactically evident: try the quotient candidates from the factors of ea
    for q in _quotient_candidates(ea, eb):
        if valid(ea == q * eb):
            return mk(q)
    ebs = z3.simplify(eb)
    if z3.is_app(ebs) and ebs.decl().kind() == z3.Z3_OP_ITE:
        c, x, y = ebs.children()
        with scope([c]):
            qx = zi(int_floordiv(mk(ea), mk(x)))
        with scope([z3.Not(c)]):
            qy = zi(int_floordiv(mk(ea), mk(y)))
        return mk(z3.If(c, qx, qy))
    if cb is not None and cb > 0:
        return mk(ea / eb)            # z3 int division == floor division for positive divisor
    if valid(eb > 0):
        if valid(z3.And(ea >= 0, ea < eb)):
            return 0
        return mk(ea / eb)
    if valid(eb < 0):
        return mk((-ea) / (-eb))
    raise OutOfReach("floor division by a divisor of unknown sign")


def int_mod(a, b):
    ea, eb = zi(a), zi(b)
    cb = concrete_int(mk(eb))
    if cb is not None and cb == 0:
        raise ZeroDivisionError("integer modulo by zero")
    if cb == 1:
        return 0
    if valid(eb > 0):
        if valid(z3.And(ea >= 0, ea < eb)):
            return mk(ea)
        for q in _quotient_candidates(ea, eb):
            if valid(ea == q * eb):
                return 0
        return mk(ea % eb)            # z3 mod is non-negative for positive divisor == python
    if valid(eb < 0):
        return mk(-((-ea) % (-eb)))
    raise OutOfReach("modulo by a divisor of unknown sign")


def _quotient_candidates(ea, eb):
    """syntactically evident quotients of ea by eb: if ea is a product containing eb's factors (or a sum of such)"""
    out = []
    ea_s, eb_s = z3.simplify(ea), z3.simplify(eb)
    if z3.is_add(ea_s):
        parts = []
        for c in ea_s.children():
            qs = _quotient_candidates(c, eb_s)
            if not qs:
                parts = None
                break
            parts.append(qs[0])
        if parts:
            q = parts[0]
            for x in parts[1:]:
                q = q + x
            return [z3.simplify(q)]

    def factors(t):
        if z3.is_mul(t):
            fs = []
            for c in t.children():
                fs += factors(c)
            return fs
        return [t]

    fa, fb = factors(ea_s), factors(eb_s)
    # numeric coefficients: 4*m / 2 -> 2*m
    ca = [f for f in fa if z3.is_int_value(f)]
    cb = [f for f in fb if z3.is_int_value(f)]
    if cb:
        na, nb = 1, 1
        for f in ca:
            na *= f.as_long()
        for f in cb:
            nb *= f.as_long()
        if nb != 0 and na % nb == 0:
            fa = [f for f in fa if not z3.is_int_value(f)] + ([z3.IntVal(na // nb)] if na // nb != 1 else [])
            fb = [f for f in fb if not z3.is_int_value(f)]
    rest = list(fa)
    ok = True
    for f in fb:
        for i, g in enumerate(rest):
            if g.eq(f):
                rest.pop(i)
                break
        else:
            ok = False
            break
    if ok:
        q = z3.IntVal(1)
        for g in rest:
            q = q * g
        out.append(z3.simplify(q))
    return out


# ------------------------------------------------------------------------------------------------
class SBool:
    __slots__ = ("e",)

    def __init__(self, e):
        self.e = e

    def __bool__(self):
        e = z3.simplify(self.e)
        if z3.is_true(e):
            return True
        if z3.is_false(e):
            return False
        c = CTX
        if c.pos < len(c.decisions):
            d = c.decisions[c.pos]
        else:
            can_t = not valid(z3.Not(e))
            can_f = not valid(e)
            if can_t and can_f:
                if c.todo is None:
                    raise OutOfReach(f"undecided branch with forking disabled: {e}")
                d = True
                c.todo.append(c.decisions[: c.pos] + [False])
                c.decisions.append(True)
            elif can_t:
                d = True
                c.decisions.append(True)
            elif can_f:
                d = False
                c.decisions.append(False)
            else:
                raise OutOfReach("infeasible path")
        c.pos += 1
        c.path.append(e if d else z3.Not(e))
        return d

    def __and__(self, o):
        return SBool(z3.And(self.e, zb(o)))

    __rand__ = __and__

    def __or__(self, o):
        return SBool(z3.Or(self.e, zb(o)))

    __ror__ = __or__

    def __invert__(self):
        return SBool(z3.Not(self.e))

    def __eq__(self, o):
        return SBool(self.e == zb(o))

    def __hash__(self):
        raise OutOfReach("hash of symbolic bool")

    def __repr__(self):
        return f"SBool({self.e})"


def zb(x):
    if isinstance(x, SBool):
        return x.e
    if isinstance(x, bool):
        return z3.BoolVal(x)
    if z3.is_expr(x) and x.sort() == z3.BoolSort():
        return x
    raise OutOfReach(f"zb {type(x)}")


def _cmp(op, a, b):
    """comparison of two scalars (int/real, maybe symbolic)"""
    if isinstance(a, SReal) or isinstance(b, SReal) or isinstance(a, float) or isinstance(b, float):
        return _cmp_real(op, a, b)
    ea, eb = zi(a), zi(b)
    e = {"lt": ea < eb, "le": ea <= eb, "gt": ea > eb, "ge": ea >= eb, "eq": ea == eb, "ne": ea != eb}[op]
    e = z3.simplify(e)
    if z3.is_true(e):
        return True
    if z3.is_false(e):
        return False
    return SBool(e)


def _ext(x):
    """-> (inf_flag Bool term, Real term) of an extended real (+inf only)"""
    if isinstance(x, SReal):
        return (x.inf if x.inf is not None else z3.BoolVal(False)), x.e
    if isinstance(x, float) and x == float("inf"):
        return z3.BoolVal(True), z3.RealVal(0)
    return z3.BoolVal(False), zr(x)


def _cmp_real(op, a, b):
    ia, ea = _ext(a)
    ib, eb = _ext(b)
    if op == "lt":
        e = z3.And(z3.Not(ia), z3.Or(ib, ea < eb))
    elif op == "le":
        e = z3.Or(ib, z3.And(z3.Not(ia), ea <= eb))
    elif op == "gt":
        e = z3.And(z3.Not(ib), z3.Or(ia, ea > eb))
    elif op == "ge":
        e = z3.Or(ia, z3.And(z3.Not(ib), ea >= eb))
    elif op == "eq":
        e = z3.Or(z3.And(ia, ib), z3.And(z3.Not(ia), z3.Not(ib), ea == eb))
    else:
        e = z3.Not(z3.Or(z3.And(ia, ib), z3.And(z3.Not(ia), z3.Not(ib), ea == eb)))
    e = z3.simplify(e)
    if z3.is_true(e):
        return True
    if z3.is_false(e):
        return False
    return SBool(e)


class SInt:
    __slots__ = ("e",)

    def __init__(self, e):
        self.e = e

    # arithmetic
    def __add__(self, o):
        if isinstance(o, (SReal, float)):
            return mkr(zr(self) + zr(o))
        if not _scalar(o):
            return NotImplemented
        return mk(self.e + zi(o))

    __radd__ = __add__

    def __sub__(self, o):
        if isinstance(o, (SReal, float)):
            return mkr(zr(self) - zr(o))
        if not _scalar(o):
            return NotImplemented
        return mk(self.e - zi(o))

    def __rsub__(self, o):
        if isinstance(o, (SReal, float)):
            return mkr(zr(o) - zr(self))
        if not _scalar(o):
            return NotImplemented
        return mk(zi(o) - self.e)

    def __mul__(self, o):
        if isinstance(o, (SReal, float)):
            return mkr(zr(self) * zr(o))
        if isinstance(o, tuple):
            raise OutOfReach("tuple repetition by a symbolic count")
        if not _scalar(o):
            return NotImplemented
        return mk(self.e * zi(o))

    __rmul__ = __mul__

    def __neg__(self):
        return mk(-self.e)

    def __pos__(self):
        return self

    def __abs__(self):
        if valid(self.e >= 0):
            return self
        if valid(self.e <= 0):
            return mk(-self.e)
        return mk(z3.If(self.e >= 0, self.e, -self.e))

    def __floordiv__(self, o):
        return int_floordiv(self, o)

    def __rfloordiv__(self, o):
        return int_floordiv(o, self)

    def __mod__(self, o):
        return int_mod(self, o)

    def __rmod__(self, o):
        return int_mod(o, self)

    def __truediv__(self, o):
        eo = zr(o)
        if not valid(eo != 0):
            raise OutOfReach("true division by a possibly zero value")
        ci = None
        try:
            ci = zi(o)
        except OutOfReach:
            pass
        if ci is not None:
            for q in _quotient_candidates(self.e, ci):
                if valid(self.e == q * ci):
                    return mkr(z3.ToReal(q))
        return mkr(zr(self) / eo)

    def __rtruediv__(self, o):
        if not valid(self.e != 0):
            raise OutOfReach("true division by a possibly zero value")
        return mkr(zr(o) / zr(self))

    def __pow__(self, o):
        c = concrete_int(o)
        if c is None or c < 0:
            raise OutOfReach("power with symbolic/negative exponent")
        r = 1
        for _ in range(c):
            r = r * self
        return r

    def __rpow__(self, o):
        raise OutOfReach("power with symbolic exponent")

    # comparisons
    def __lt__(self, o):
        return _cmp("lt", self, o)

    def __le__(self, o):
        return _cmp("le", self, o)

    def __gt__(self, o):
        return _cmp("gt", self, o)

    def __ge__(self, o):
        return _cmp("ge", self, o)

    def __eq__(self, o):
        if not _scalar(o):
            return False
        return _cmp("eq", self, o)

    def __ne__(self, o):
        if not _scalar(o):
            return True
        return _cmp("ne", self, o)

    def __hash__(self):
        # one hash bucket for all symbolic ints: set / dict membership is then decided by __eq__, i.e. by a
        # (forking) semantic equality test, never by the syntax of the term.  Mixed int / SInt keys are not
        # supported soundly (an int hashes to itself); ginjax only builds sets of channel counts of one kind.
        return 0x51A7

    def __index__(self):
        c = concrete_int(self)
        if c is not None:
            return c
        raise OutOfReach("__index__ of a symbolic int")

    def __int__(self):
        c = concrete_int(self)
        if c is not None:
            return c
        raise OutOfReach("__int__ of a symbolic int")

    def __float__(self):
        raise OutOfReach("__float__ of a symbolic int")

    def __bool__(self):
        return bool(_cmp("ne", self, 0))

    def __repr__(self):
        return f"SInt({self.e})"


def _scalar(o):
    if isinstance(o, (int, float, SInt, SReal)):
        return True
    if z3.is_expr(o):
        return True
    try:
        import numpy as _np
        return isinstance(o, (_np.integer, _np.floating))
    except ImportError:
        return False


class SReal(float):
    """symbolic real.  Subclass of float so that isinstance(x, float) is faithful for python floats;
    other representations (numpy scalars, 0-d arrays) are separate proxy classes in gvc.reps.
    inf: optional z3 Bool 'this value is +infinity' (used for jnp.inf initialisers)."""

    def __new__(cls, e, inf=None):
        o = float.__new__(cls, 0.0)
        return o

    def __init__(self, e, inf=None):
        self.e = e
        self.inf = inf

    def _fin(self):
        return self.inf is None or z3.is_false(z3.simplify(self.inf))

    def __add__(self, o):
        if not _scalar(o):
            return NotImplemented
        if not self._fin():
            io, eo = _ext(o)
            return SReal(z3.simplify(self.e + eo), z3.simplify(z3.Or(self.inf, io)))
        return mkr(self.e + zr(o))

    __radd__ = __add__

    def __sub__(self, o):
        if not _scalar(o):
            return NotImplemented
        if not self._fin():
            # (+inf or finite) - finite
            return SReal(z3.simplify(self.e - zr(o)), self.inf)
        return mkr(self.e - zr(o))

    def __rsub__(self, o):
        if not _scalar(o):
            return NotImplemented
        return mkr(zr(o) - zr(self))

    def __mul__(self, o):
        if not _scalar(o):
            return NotImplemented
        return mkr(zr(self) * zr(o))

    __rmul__ = __mul__

    def __truediv__(self, o):
        if not _scalar(o):
            return NotImplemented
        eo = zr(o)
        if not valid(eo != 0):
            raise OutOfReach("division by a possibly zero real")
        return mkr(zr(self) / eo)

    def __rtruediv__(self, o):
        if not valid(zr(self) != 0):
            raise OutOfReach("division by a possibly zero real")
        return mkr(zr(o) / zr(self))

    def __neg__(self):
        return mkr(-zr(self))

    def __pos__(self):
        return self

    def __abs__(self):
        e = zr(self)
        if valid(e >= 0):
            return self
        if valid(e <= 0):
            return mkr(-e)
        return mkr(z3.If(e >= 0, e, -e))

    def __pow__(self, o):
        c = concrete_int(o)
        if c is None or c < 0:
            raise OutOfReach("real power with non-natural exponent")
        r = z3.RealVal(1)
        for _ in range(c):
            r = r * zr(self)
        return mkr(r)

    def __lt__(self, o):
        return _cmp_real("lt", self, o)

    def __le__(self, o):
        return _cmp_real("le", self, o)

    def __gt__(self, o):
        return _cmp_real("gt", self, o)

    def __ge__(self, o):
        return _cmp_real("ge", self, o)

    def __eq__(self, o):
        if not _scalar(o):
            return False
        return _cmp_real("eq", self, o)

    def __ne__(self, o):
        if not _scalar(o):
            return True
        return _cmp_real("ne", self, o)

    def __hash__(self):
        raise OutOfReach("hash of a symbolic real")

    def __float__(self):
        raise OutOfReach("__float__ of a symbolic real")

    def __int__(self):
        raise OutOfReach("__int__ of a symbolic real")

    def __bool__(self):
        return bool(_cmp_real("ne", self, 0.0))

    def __format__(self, spec):
        return f"<sym {self.e}>"

    def __repr__(self):
        return f"SReal({self.e}{'' if self.inf is None else ', inf=' + str(self.inf)})"


_fresh = itertools.count()


def fresh_int(name, lo=None, hi=None, pre=None):
    v = z3.Int(f"{name}")
    if pre is not None:
        if lo is not None:
            pre.append(v >= zi(lo))
        if hi is not None:
            pre.append(v < zi(hi))
    return SInt(v)


def fresh_name(prefix):
    return f"{prefix}!{next(_fresh)}"


# ------------------------------------------------------------------------------------------------
MAX_PATHS = int(os.environ.get("GVC_MAX_PATHS", "256"))


def run_paths(fn, pre=(), max_paths=MAX_PATHS):
    """Execute fn() once per feasible path.  Yields dicts:
       {'path': [...], 'result': value} | {'path': [...], 'raised': exception}
    OutOfReach propagates to the caller (=> undecided)."""
    todo = [[]]
    n = 0
    while todo:
        prefix = todo.pop()
        n += 1
        if n > max_paths:
            raise OutOfReach(f"more than {max_paths} paths")
        ctx = reset(pre=pre, decisions=prefix, todo=todo)
        try:
            res = fn()
            out = {"result": res}
        except (AssertionError, ValueError, NotImplementedError, KeyError, ZeroDivisionError) as ex:
            out = {"raised": ex}
        out["path"] = list(ctx.path)
        out["decisions"] = list(ctx.decisions)
        out["ctx"] = ctx
        yield out


def model_to_dict(m, limit=60):
    if m is None:
        return None
    d = {}
    for decl in m.decls():
        if decl.arity() == 0:
            d[decl.name()] = str(m[decl])
        if len(d) >= limit:
            break
    return d
