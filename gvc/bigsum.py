"""gvc.bigsum -- sums over symbolic index ranges.

A SumExpr is  plain + Σ_k  coef_k · Σ_{vars_k ∈ box_k} body_k(vars_k)   with z3 terms inside.
Rules implemented (each is a textbook identity, Lean statements in /verif/lean/Rules.lean):
  * linearity: +, -, scaling by a term free of the bound variables, nesting of sums (Fubini for
    finite sums: a sum whose body is a sum is the sum over the product box);
  * congruence: two sums over boxes of equal extents are equal if the bodies agree point-wise.
Everything else about a SumExpr (products of sums, conditionals on sums) is OutOfReach.
"""
from __future__ import annotations
import itertools
import z3
from . import sym
from .sym import OutOfReach, zi, valid

_cnt = itertools.count()


class Term:
    __slots__ = ("coef", "vars", "exts", "hyps", "body")

    def __init__(self, coef, vars, exts, hyps, body):
        self.coef, self.vars, self.exts, self.hyps, self.body = coef, vars, exts, hyps, body


class SumExpr:
    def __init__(self, plain=0, terms=()):
        self.plain = plain
        self.terms = list(terms)

    def scale(self, c):
        from .arr import t_bin
        return SumExpr(t_bin("mul", self.plain, c), [Term(t_bin("mul", t.coef, c), t.vars, t.exts, t.hyps, t.body) for t in self.terms])

    @staticmethod
    def binop(op, a, b):
        from .arr import t_bin
        A = a if isinstance(a, SumExpr) else SumExpr(a)
        B = b if isinstance(b, SumExpr) else SumExpr(b)
        if op == "add":
            return SumExpr(t_bin("add", A.plain, B.plain), A.terms + B.terms)
        if op == "sub":
            Bn = B.scale(-1)
            return SumExpr(t_bin("add", A.plain, Bn.plain), A.terms + Bn.terms)
        if op == "mul":
            if not isinstance(b, SumExpr):
                return A.scale(b)
            if not isinstance(a, SumExpr):
                return B.scale(a)
            if not A.terms:
                return B.scale(A.plain)
            if not B.terms:
                return A.scale(B.plain)
            raise OutOfReach("product of two symbolic sums")
        if op == "div":
            if isinstance(b, SumExpr):
                if b.terms:
                    raise OutOfReach("division by a symbolic sum")
                b = b.plain
            return A.scale(t_bin("div", 1, b))
        raise OutOfReach(op)


def bigsum(dims, body_fn):
    """Σ over the boxes of `dims` of body_fn(indices).  Sum-dims split into one term per branch."""
    from .arr import fresh_cases, t_bin, t_z3, _num, is_z3
    tag = f"s{next(_cnt)}"
    per = [fresh_cases(d, f"{tag}_{i}") for i, d in enumerate(dims)]
    out = SumExpr(0)
    for combo in itertools.product(*per):
        idx = [c[0] for c in combo]
        hyps = [h for c in combo for h in c[1]]
        vars_ = []
        exts = []
        for h in hyps:
            # hyps come in pairs (v >= 0, v < ext)
            if z3.is_app(h) and h.decl().kind() == z3.Z3_OP_LT or h.decl().kind() == z3.Z3_OP_GT:
                pass
        for c in combo:
            hs = c[1]
            for j in range(0, len(hs), 2):
                v = hs[j].arg(0)
                vars_.append(v)
                exts.append(hs[j + 1].arg(1))
        with sym.scope(hyps):
            if not sym.feasible():
                continue          # empty range
            body = body_fn(idx)
        if isinstance(body, SumExpr):
            # nesting: Σ_v (plain + Σ_w c·b) = Σ_v plain + Σ_{v,w} c·b
            if not (_num(body.plain) and body.plain == 0):
                out.terms.append(Term(1, vars_, exts, hyps, body.plain))
            for t in body.terms:
                out.terms.append(Term(1, vars_ + t.vars, exts + t.exts, hyps + t.hyps, t_bin("mul", t.coef, t.body)))
        else:
            if _num(body) and body == 0:
                continue
            if not vars_:
                out.plain = t_bin("add", out.plain, body)
            else:
                out.terms.append(Term(1, vars_, exts, hyps, body))
    if not out.terms:
        return out.plain
    return out


def _drop_zero(A):
    """remove sums whose summand is identically zero"""
    from .arr import t_bin, t_z3, _num
    keep = []
    for t in A.terms:
        v = t_bin("mul", t.coef, t.body)
        if _num(v) and v == 0:
            continue
        if z3.is_expr(v):
            vs = z3.simplify(v)
            if (z3.is_rational_value(vs) or z3.is_int_value(vs)) and str(vs) in ("0", "0.0"):
                continue
            if valid(t_z3(v, True) == 0, extra=list(t.hyps)):
                continue
        keep.append(t)
    return SumExpr(A.plain, keep)


def _merge_terms(A):
    """linearity: sums over boxes with (provably) the same extents are merged into one sum of the added summands"""
    from .arr import t_bin
    groups = []
    for t in A.terms:
        placed = False
        for g in groups:
            h = g[0]
            if len(h.vars) == len(t.vars) and all(valid(e1 == e2) for e1, e2 in zip(h.exts, t.exts)):
                g.append(t)
                placed = True
                break
        if not placed:
            groups.append([t])
    out = []
    for g in groups:
        h = g[0]
        if len(g) == 1:
            out.append(h)
            continue
        body = t_bin("mul", h.coef, h.body)
        for t in g[1:]:
            b = t_bin("mul", t.coef, t.body)
            if z3.is_expr(b) and t.vars:
                b = z3.substitute(b, *list(zip(t.vars, h.vars)))
            body = t_bin("add", body, b)
        out.append(Term(1, h.vars, h.exts, h.hyps, body))
    return SumExpr(A.plain, out)


def sum_equal(a, b):
    """('proved'|'refuted'|'unknown', detail, model) for a == b by linearity + congruence"""
    from .arr import t_bin, t_eq, _short
    A = _merge_terms(_drop_zero(a if isinstance(a, SumExpr) else SumExpr(a)))
    B = _merge_terms(_drop_zero(b if isinstance(b, SumExpr) else SumExpr(b)))
    st, m = sym.refute_or_prove(t_eq(A.plain, B.plain))
    if st != "proved":
        return st, f"plain parts differ: {_short(A.plain)} vs {_short(B.plain)}", m
    if len(A.terms) != len(B.terms):
        return "unknown", f"different number of symbolic sums: {len(A.terms)} vs {len(B.terms)}", None
    n = len(A.terms)
    if n > 6:
        return "unknown", "too many symbolic sums to match", None
    last = None
    for perm in itertools.permutations(range(n)):
        ok = True
        for i, j in enumerate(perm):
            r = _term_equal(A.terms[i], B.terms[j])
            if r[0] != "proved":
                ok = False
                last = r
                break
        if ok:
            return "proved", f"{n} symbolic sums matched by congruence", None
    # report the identity pairing's failure (most informative)
    r = _term_equal(A.terms[0], B.terms[0]) if n else ("unknown", "", None)
    return r if r[0] != "proved" else (last or ("unknown", "no matching of the symbolic sums found", None))


def _term_equal(s, t):
    from .arr import t_bin, t_eq, _short
    if len(s.vars) != len(t.vars):
        return "unknown", "sums over boxes of different rank", None
    n = len(s.vars)
    # candidate pairings of the bound variables: extents must agree (Fubini: the order of summation is free)
    ok = [[valid(e1 == e2) for e2 in t.exts] for e1 in s.exts]
    lhs = t_bin("mul", s.coef, s.body)
    rhs0 = t_bin("mul", t.coef, t.body)
    last = ("unknown", "no pairing of the bound variables with equal extents", None)
    tried = 0
    ident = tuple(range(n))
    perms = [ident] + [p for p in itertools.permutations(range(n)) if p != ident]
    for perm in perms:
        if not all(ok[i][perm[i]] for i in range(n)):
            continue
        tried += 1
        if tried > 24:
            break
        sub = [(t.vars[perm[i]], s.vars[i]) for i in range(n)]
        rhs = z3.substitute(rhs0, *sub) if z3.is_expr(rhs0) and sub else rhs0
        st, m = sym.prove_goal(t_eq(lhs, rhs), extra=list(s.hyps))
        if st == "proved":
            return "proved", "", None
        if tried == 1:
            last = (st, f"summands differ: {_short(lhs)} vs {_short(rhs)}", m)
    # re-indexing by a signed-permutation bijection of a D-dimensional sub-box (Equiv.sum_comp): candidates are
    # supplied by the caller (the pixel maps of the group element under consideration)
    for (col, sgn) in REINDEX:
        r = _reindexed_equal(s, t, col, sgn, lhs, rhs0)
        if r is not None:
            return r
    if SHIFTS:
        r = _shifted_equal(s, t, lhs, rhs0)
        if r is not None:
            return r
    return last


SHIFTS = []        # list of (extent term N, shift term tau) with 0 <= tau < N: candidates for re-indexing by a cyclic shift


def _shifted_equal(s, t, lhs, rhs0):
    """sum over s.vars of lhs == sum over t.vars of rhs0 via y_j = (x_j -+ tau) mod N on the axes whose extent is listed in
    SHIFTS (identity on the others): x -> (x - tau) mod N is a bijection of range(N) for 0 <= tau < N (Equiv.sum_comp)."""
    from .arr import t_eq
    n = len(s.vars)
    if n != len(t.vars) or not all(valid(e1 == e2) for e1, e2 in zip(s.exts, t.exts)):
        return None
    taus = []
    for e in s.exts:
        tau = None
        for (N, tt) in SHIFTS:
            if valid(e == zi(N)) and valid(z3.And(zi(tt) >= 0, zi(tt) < zi(N))):
                tau = zi(tt)
                break
        taus.append(tau)
    if all(tt is None for tt in taus):
        return None
    for direction in (1, -1):
        sub = []
        for x, y, e, tt in zip(s.vars, t.vars, s.exts, taus):
            if tt is None:
                sub.append((y, x))
            else:
                q = x - direction * tt
                sub.append((y, z3.If(q < 0, q + e, z3.If(q >= e, q - e, q))))
        rhs = z3.substitute(rhs0, *sub) if z3.is_expr(rhs0) else rhs0
        st, m = sym.prove_goal(t_eq(lhs, rhs), extra=list(s.hyps))
        if st == "proved":
            return "proved", "re-indexed by a cyclic shift", None
    return None


REINDEX = []       # list of (col, sgn): x'_j = x_i if sgn[i] == 1 else ext_j - 1 - x_i, for the i with col[i] == j


def _reindexed_equal(s, t, col, sgn, lhs, rhs0):
    """sum over s.vars of lhs == sum over t.vars of rhs0, via y = sigma(x) on D of the variables:
    y_{col[i]} := x_i (sgn +1) or ext - 1 - x_i (sgn -1).  sigma is a bijection of the boxes when the extents match
    (ext_s[i] == ext_t[col[i]]): an injective affine map between finite boxes of equal cardinality."""
    from .arr import t_eq
    D = len(col)
    n = len(s.vars)
    if n < D:
        return None
    for spos in itertools.permutations(range(n), D):            # positions (in s.vars) of x_0..x_{D-1}
        for tpos in itertools.permutations(range(n), D):        # positions (in t.vars) of y_0..y_{D-1}
            if not all(valid(s.exts[spos[i]] == t.exts[tpos[col[i]]]) for i in range(D)):
                continue
            rest_s = [i for i in range(n) if i not in spos]
            rest_t = [i for i in range(n) if i not in tpos]
            if not all(valid(s.exts[a] == t.exts[b]) for a, b in zip(rest_s, rest_t)):
                continue
            sub = []
            for i in range(D):
                x = s.vars[spos[i]]
                y = t.vars[tpos[col[i]]]
                ext = t.exts[tpos[col[i]]]
                sub.append((y, x if sgn[i] == 1 else ext - 1 - x))
            sub += [(t.vars[b], s.vars[a]) for a, b in zip(rest_s, rest_t)]
            rhs = z3.substitute(rhs0, *sub) if z3.is_expr(rhs0) else rhs0
            st, m = sym.prove_goal(t_eq(lhs, rhs), extra=list(s.hyps))
            if st == "proved":
                return "proved", "re-indexed by the pixel bijection", None
    return None


def nonneg(a):
    """every summand (coefficient * body) of a SumExpr is >= 0, and so is the plain part => the sum is >= 0
    (Finset.sum_nonneg); returns (status, detail, model)"""
    from .arr import t_bin, t_z3, _num
    A = a if isinstance(a, SumExpr) else SumExpr(a)
    st, m = sym.refute_or_prove(t_z3(A.plain, True) >= 0)
    if st != "proved":
        return st, "plain part may be negative", m
    for t in A.terms:
        st, m = sym.refute_or_prove(t_z3(t_bin("mul", t.coef, t.body), True) >= 0, extra=list(t.hyps))
        if st != "proved":
            return st, "a summand may be negative", m
    return "proved", f"{len(A.terms)} sums of non-negative summands", None


_WORLD = {}


class _Small(dict):
    def get(self, k, default=None):
        return self[k] if k in self else 2


def numeric_value(S, hyps=()):
    """numeric value of a SumExpr in a small concrete world: every integer constant (extents) is 2, reals and
    uninterpreted functions are interpreted pseudo-randomly, the sums are evaluated over their (then concrete) boxes.
    Two sums that are provably equal under `hyps` have equal values PROVIDED the world satisfies `hyps` -- returns None if
    it does not (or if anything cannot be evaluated).  Used only as a FILTER before sum_equal (which decides)."""
    from .arr import t_bin, t_z3, _num
    S = S if isinstance(S, SumExpr) else SumExpr(S)
    env = _Small()
    # integer constants: a small model of the hypotheses (all extents / indices <= 3) so that the world satisfies them
    hyps = list(hyps)
    key = tuple(h.get_id() for h in hyps)
    if _WORLD.get("key") != key:
        _WORLD.clear()
        _WORLD["key"] = key
        _WORLD["keep"] = hyps
        sv = z3.Solver()
        sv.set("timeout", 3000)
        lin = [sym.abstract_mul(h) for h in hyps]
        sv.add(*lin)
        ints = set()
        for h in hyps:
            for v in sym._vars(h):
                pass
        seen = {}
        stack = list(hyps)
        while stack:
            x = stack.pop()
            if x.get_id() in seen:
                continue
            seen[x.get_id()] = x
            if z3.is_app(x) and x.num_args() == 0 and x.sort() == z3.IntSort() and not z3.is_int_value(x):
                ints.add(x)
            stack.extend(x.children())
        for c in ints:
            sv.add(c <= 3, c >= -3)
        if sv.check() == z3.sat:
            m = sv.model()
            _WORLD["ints"] = {c.decl().name(): m.eval(c, model_completion=True).as_long() for c in ints}
        else:
            _WORLD["ints"] = None
    if _WORLD["ints"] is None:
        return None
    env.update(_WORLD["ints"])
    saved = dict(sym._fp_cache)
    old = sym._NUM_ENV[0]
    try:
        sym._fp_cache.clear()
        sym._NUM_ENV[0] = (env, 7)
        for h in hyps:
            if sym._fp(h) is not True:
                return None

        def val(t):
            if _num(t):
                return float(t)
            return float(sym._fp(t_z3(t, True)))
        total = val(S.plain)
        for t in S.terms:
            exts = [int(sym._fp(e)) for e in t.exts]
            if any(e > 4 for e in exts):
                return None
            summand = t_z3(t_bin("mul", t.coef, t.body), True)
            names = [v.decl().name() for v in t.vars]
            for point in itertools.product(*[range(e) for e in exts]):
                for n_, v_ in zip(names, point):
                    env[n_] = v_
                sym._fp_cache.clear()
                total += float(sym._fp(summand))
            for n_ in names:
                env.pop(n_, None)
        return total
    except Exception:
        return None
    finally:
        sym._NUM_ENV[0] = old
        sym._fp_cache.clear()
        sym._fp_cache.update(saved)
