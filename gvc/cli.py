import sys, os, json, argparse, importlib, traceback


def main():
    ap = argparse.ArgumentParser()
    ap.add_argument("what")
    ap.add_argument("arg", nargs="?")
    ap.add_argument("--tier", default=os.environ.get("VERIF_TIER", "quick"))
    a = ap.parse_args()
    seed = int(os.environ.get("VERIF_SEED", "0") or 0)
    from . import core
    if a.what == "replay":
        rp = json.load(open(a.arg))
        res = core.native(rp["property"], "replay", rp.get("replay_request") or {})
        print(json.dumps(res, indent=1))
        sys.exit(1 if res.get("confirmed") else 0)
    if a.what == "baseline":
        from . import baseline
        sys.exit(baseline.main())
    pid = a.what.upper()
    try:
        mod = importlib.import_module(f"gvc.props.{pid.lower()}")
    except ModuleNotFoundError:
        print(f"no check for {pid}")
        sys.exit(3)
    try:
        rc = core.run_property(pid, a.tier, mod, seed)
    except Exception:
        traceback.print_exc()
        rc = 3
    sys.exit(rc)


main()
