"""gvc.arr -- structured symbolic pull-arrays.

An SArray is (dims, elem): `dims` is one Dim per axis, `elem(idx)` gives the term of one element.
A Dim is an algebraic description of how the axis was built:

    Atom(ext)        an axis factor with (symbolic or concrete) extent
    Prod([d1..dn])   row-major product  (reshape / merge of axes)
    Sum([d1..dn])    concatenation

An index into a Dim mirrors its structure (Atom: int term, Prod: tuple, Sum: Br(branch, idx)), or is
Flat(term): a plain row-major integer, converted on demand (Atom: itself, Sum: offset dispatch,
Prod: div/mod only by concrete strides).  reshape regroups / splits factors, so the re-layouts of
ginjax never produce div/mod terms; everything stays linear integer arithmetic for z3.
"""
from __future__ import annotations
import itertools, math
from fractions import Fraction
import numpy as np
import z3
from . import sym
from .sym import OutOfReach, Refuted, SInt, SReal, SBool, zi, zr, mk, valid, concrete_int

UNROLL_LIMIT = 4096


# ------------------------------------------------------------------------------------------------
# terms: python numbers | z3 Int/Real terms | BigSum expressions (gvc.bigsum.SumExpr)

def is_z3(x):
    return z3.is_expr(x)


def t_norm(x):
    """scalar proxy / numpy scalar -> python number or z3 term"""
    if isinstance(x, SInt):
        return x.e
    if isinstance(x, SReal):
        return zr(x)
    if isinstance(x, SBool):
        return x.e
    if isinstance(x, (bool, np.bool_)):
        return bool(x)
    if isinstance(x, (int, float, Fraction)):
        return x
    if isinstance(x, np.integer):
        return int(x)
    if isinstance(x, np.floating):
        return float(x)
    if isinstance(x, np.ndarray) and x.ndim == 0:
        return x.item()
    if is_z3(x):
        return x
    from .bigsum import SumExpr
    if isinstance(x, SumExpr):
        return x
    if isinstance(x, SArray) and x.ndim == 0:
        return x.elem(())
    raise OutOfReach(f"t_norm: {type(x).__name__}")


def t_z3(x, real=None):
    """python number / z3 term -> z3 term (Real if real is True or x is a float/Fraction)"""
    if is_z3(x):
        if real and x.sort() == z3.IntSort():
            return z3.ToReal(x)
        return x
    if isinstance(x, bool):
        return z3.RealVal(int(x)) if real else z3.IntVal(int(x))
    if isinstance(x, int):
        return z3.RealVal(x) if real else z3.IntVal(x)
    if isinstance(x, Fraction):
        return z3.RealVal(f"{x.numerator}/{x.denominator}")
    if isinstance(x, float):
        return zr(x)
    raise OutOfReach(f"t_z3: {type(x).__name__}")


def _is_real(x):
    if is_z3(x):
        return x.sort() == z3.RealSort()
    return isinstance(x, (float, Fraction))


def _num(x):
    return isinstance(x, (int, float, Fraction)) and not isinstance(x, bool) or isinstance(x, bool)


def t_bin(op, a, b):
    from .bigsum import SumExpr
    if isinstance(a, SumExpr) or isinstance(b, SumExpr):
        return SumExpr.binop(op, a, b)
    if _num(a) and _num(b):
        if op == "add":
            return a + b
        if op == "sub":
            return a - b
        if op == "mul":
            return a * b
        if op == "div":
            if b == 0:
                raise ZeroDivisionError
            if isinstance(a, int) and isinstance(b, int):
                return Fraction(a, b) if a % b else a // b
            return a / b
    real = _is_real(a) or _is_real(b) or op == "div"
    # cheap algebraic identities keep terms small
    if op == "mul":
        if _num(a) and a == 0 or _num(b) and b == 0:
            return 0
        if _num(a) and a == 1:
            return b
        if _num(b) and b == 1:
            return a
    if op == "add":
        if _num(a) and a == 0:
            return b
        if _num(b) and b == 0:
            return a
    if op == "sub" and _num(b) and b == 0:
        return a
    if op == "div" and _num(b) and b == 1:
        return a
    za, zb_ = t_z3(a, real), t_z3(b, real)
    if op == "mul" and za.eq(zb_) and z3.is_app(za) and za.decl().name() == "sqrt" and valid(za.arg(0) >= 0):
        return za.arg(0)          # sqrt(t)*sqrt(t) = t for t >= 0 (defining axiom of sqrt)
    if op == "sub" and za.eq(zb_):
        return 0
    if op == "add":
        return za + zb_
    if op == "sub":
        return za - zb_
    if op == "mul":
        return za * zb_
    if op == "div":
        if not _num(b) and not valid(zb_ != 0):
            raise OutOfReach("array division by a possibly zero term")
        return za / zb_
    raise OutOfReach(op)


def t_cond(cond, t):
    """If(cond, t, 0); distributes into symbolic sums (the condition must not mention their bound variables)"""
    from .bigsum import SumExpr, Term
    if _num(t) and t == 0:
        return 0
    if isinstance(t, SumExpr):
        bound = {v.get_id() for x in t.terms for v in x.vars}
        for v in sym._free_consts(cond):
            if v.get_id() in bound:
                raise OutOfReach("condition depends on a summation variable")
        return SumExpr(t_cond(cond, t.plain), [Term(x.coef, x.vars, x.exts, x.hyps, t_cond(cond, x.body)) for x in t.terms])
    real = _is_real(t) or True
    return z3.If(cond, t_z3(t, True), z3.RealVal(0))


def t_neg(a):
    from .bigsum import SumExpr
    if isinstance(a, SumExpr):
        return a.scale(-1)
    if _num(a):
        return -a
    return -a


def t_eq(a, b):
    """z3 Bool term a == b (both z3-able)"""
    real = _is_real(a) or _is_real(b)
    return t_z3(a, real) == t_z3(b, real)


# ------------------------------------------------------------------------------------------------
# Dims

_ids = itertools.count()


class Atom:
    __slots__ = ("ext", "name", "id")

    def __init__(self, ext, name=None):
        c = concrete_int(ext)
        self.ext = c if c is not None else (ext if isinstance(ext, SInt) else mk(zi(ext)))
        self.id = next(_ids)
        self.name = name or f"a{self.id}"

    def __repr__(self):
        return f"{self.name}:{self.ext.e if isinstance(self.ext, SInt) else self.ext}"


class Prod:
    __slots__ = ("kids",)

    def __init__(self, kids):
        self.kids = list(kids)

    def __repr__(self):
        return "(" + "*".join(map(repr, self.kids)) + ")"


class Sum:
    __slots__ = ("kids",)

    def __init__(self, kids):
        self.kids = list(kids)

    def __repr__(self):
        return "[" + "+".join(map(repr, self.kids)) + "]"


class Br:
    __slots__ = ("b", "idx")

    def __init__(self, b, idx):
        self.b = b
        self.idx = idx

    def __repr__(self):
        return f"Br({self.b},{self.idx})"


class Flat:
    __slots__ = ("t",)

    def __init__(self, t):
        self.t = t.e if isinstance(t, SInt) else t

    def __repr__(self):
        return f"Flat({self.t})"


def mkprod(kids):
    out = []
    for k in kids:
        if isinstance(k, Prod):
            out += k.kids
        else:
            out.append(k)
    if len(out) == 1:
        return out[0]
    return Prod(out)


def mksum(kids):
    out = []
    for k in kids:
        if isinstance(k, Sum):
            out += k.kids
        else:
            out.append(k)
    if len(out) == 1:
        return out[0]
    return Sum(out)


def extent(d):
    if isinstance(d, Atom):
        return d.ext
    if isinstance(d, Prod):
        r = 1
        for k in d.kids:
            r = r * extent(k)
        return r
    r = 0
    for k in d.kids:
        r = r + extent(k)
    return r


def factors(d):
    """reshape leaves of a Dim: Prod is flattened, Atom and Sum are leaves"""
    if isinstance(d, Prod):
        out = []
        for k in d.kids:
            out += factors(k)
        return out
    return [d]


def is_unit(d):
    return concrete_int(extent(d)) == 1 if not isinstance(d, Sum) else (len(d.kids) == 1 and is_unit(d.kids[0]))


def ext_eq(a, b):
    ca, cb = concrete_int(a), concrete_int(b)
    if ca is not None and cb is not None:
        return ca == cb
    return valid(zi(a) == zi(b))


def zero_idx(d):
    if isinstance(d, Atom):
        return 0
    if isinstance(d, Prod):
        return tuple(zero_idx(k) for k in d.kids)
    return Br(0, zero_idx(d.kids[0]))


def to_flat(d, idx):
    """structured index -> flat int term (python int or z3)"""
    if isinstance(idx, Flat):
        return idx.t
    if isinstance(d, Atom):
        return idx.e if isinstance(idx, SInt) else idx
    if isinstance(d, Prod):
        tot = 0
        for k, ix in zip(d.kids, idx):
            tot = _iadd(_imul(tot, extent(k)), to_flat(k, ix))
        return tot
    off = 0
    for k in d.kids[: idx.b]:
        off = off + extent(k)
    return _iadd(off, to_flat(d.kids[idx.b], idx.idx))


def _iadd(a, b):
    r = mk(zi(a) + zi(b))
    return r.e if isinstance(r, SInt) else r


def _imul(a, b):
    ca, cb = concrete_int(a) if not is_z3(a) else None, concrete_int(b) if not is_z3(b) else None
    if ca == 0 or cb == 0:
        return 0
    r = mk(zi(a) * zi(b))
    return r.e if isinstance(r, SInt) else r


ENUM_SMALL = [0]      # >0: concrete atoms of extent <= ENUM_SMALL[0] are enumerated instead of symbolic


def fresh_cases(d, tag):
    """enumerate index cases of a Dim: yields (idx, hyps). Sum branches are separate cases."""
    if isinstance(d, Atom):
        c = concrete_int(d.ext)
        if c == 1:
            return [(0, [])]
        if c is not None and c <= ENUM_SMALL[0]:
            return [(v, []) for v in range(c)]
        v = z3.Int(f"{tag}_{d.name}")
        return [(v, [v >= 0, v < zi(d.ext)])]
    if isinstance(d, Prod):
        parts = [fresh_cases(k, f"{tag}{i}") for i, k in enumerate(d.kids)]
        out = []
        for combo in itertools.product(*parts):
            out.append((tuple(c[0] for c in combo), [h for c in combo for h in c[1]]))
        return out
    out = []
    for b, k in enumerate(d.kids):
        for idx, hyps in fresh_cases(k, f"{tag}b{b}"):
            out.append((Br(b, idx), hyps))
    return out


_same_cache = {}


def same_struct(a, b):
    """are two Dims isomorphic (same tree shape, provably equal extents)? unit atoms must match too"""
    if a is b:
        return True
    if type(a) is not type(b):
        return False
    if isinstance(a, Atom):
        return ext_eq(a.ext, b.ext)
    if len(a.kids) != len(b.kids):
        return False
    return all(same_struct(x, y) for x, y in zip(a.kids, b.kids))


def conv_idx(d_from, idx, d_to):
    """express an index of d_from as an index of d_to (same extent)"""
    if d_from is d_to or isinstance(idx, Flat):
        return idx
    if same_struct(d_from, d_to):
        return idx
    # drop / insert unit factors of products
    fa, fb = factors(d_from), factors(d_to)
    if isinstance(d_from, (Prod, Atom)) and isinstance(d_to, (Prod, Atom)):
        ia = list(idx) if isinstance(d_from, Prod) else [idx]
        nz = [(f, i) for f, i in zip(fa, ia) if not is_unit(f)]
        nzb = [f for f in fb if not is_unit(f)]
        if len(nz) == len(nzb) and all(same_struct(x[0], y) for x, y in zip(nz, nzb)):
            it_ = iter(nz)
            out = [zero_idx(f) if is_unit(f) else next(it_)[1] for f in fb]
            return tuple(out) if isinstance(d_to, Prod) else out[0]
    if isinstance(d_from, Prod) and isinstance(d_to, Prod) and not isinstance(idx, Flat):
        ka = [(k, i) for k, i in zip(d_from.kids, idx) if not is_unit(k)]
        kb = [k for k in d_to.kids if not is_unit(k)]
        if len(ka) == len(kb) and all(ext_eq(extent(a[0]), extent(b)) for a, b in zip(ka, kb)):
            it_ = iter(ka)
            out = []
            for k in d_to.kids:
                if is_unit(k):
                    out.append(zero_idx(k))
                else:
                    kf, ix = next(it_)
                    out.append(conv_idx(kf, ix, k))
            return tuple(out)
    if isinstance(d_from, Sum) and isinstance(d_to, Sum) and isinstance(idx, Br) and len(d_from.kids) == len(d_to.kids) and \
            all(ext_eq(extent(a), extent(b)) for a, b in zip(d_from.kids, d_to.kids)):
        return Br(idx.b, conv_idx(d_from.kids[idx.b], idx.idx, d_to.kids[idx.b]))
    return Flat(to_flat(d_from, idx))


# ------------------------------------------------------------------------------------------------
class SArray:
    __array_priority__ = 1000

    def __init__(self, dims, elem, dtype="real", taint=None):
        self.dims = list(dims)
        self._elem = elem
        self.dtype = dtype
        self.taint = taint          # used by the gradient-path obligation (C09)

    # -- basic info
    @property
    def ndim(self):
        return len(self.dims)

    @property
    def shape(self):
        return tuple(extent(d) for d in self.dims)

    @property
    def size(self):
        r = 1
        for e in self.shape:
            r = r * e
        return r

    def __len__(self):
        if not self.dims:
            raise TypeError("len() of unsized object")
        c = concrete_int(extent(self.dims[0]))
        if c is None:
            raise OutOfReach("len() of an array with symbolic leading extent")
        return c

    def slen(self):
        """symbolic-aware len (the loader rebinds `len` in ginjax modules to this)"""
        if not self.dims:
            raise TypeError("len() of unsized object")
        return extent(self.dims[0])

    def __repr__(self):
        return f"SArray{self.dims}"

    def _ax(self, a):
        a = concrete_int(a)
        if a is None:
            raise OutOfReach("symbolic axis number")
        if a < 0:
            a += self.ndim
        if not 0 <= a < self.ndim:
            raise ValueError(f"axis {a} out of bounds for array of dimension {self.ndim}")
        return a

    # -- element access with index normalisation
    def elem(self, idx):
        idx = tuple(idx)
        if len(idx) != len(self.dims):
            raise RuntimeError(f"gvc: index arity {len(idx)} vs {len(self.dims)}")
        return _at(self, list(idx), 0)

    # -- structure ops
    def transpose(self, *order):
        if len(order) == 1 and isinstance(order[0], (tuple, list)):
            order = tuple(order[0])
        if len(order) == 0 or order == (None,):
            order = tuple(reversed(range(self.ndim)))
        order = [self._ax(o) for o in order]
        if sorted(order) != list(range(self.ndim)):
            raise ValueError("axes don't match array")
        dims = [self.dims[o] for o in order]
        src = self

        def elem(idx):
            o = [None] * src.ndim
            for newpos, oldpos in enumerate(order):
                o[oldpos] = idx[newpos]
            return src.elem(o)

        return SArray(dims, elem, self.dtype, self.taint)

    @property
    def T(self):
        return self.transpose()

    def moveaxis(self, src, dst):
        if isinstance(src, (tuple, list)):
            srcs = [self._ax(s) for s in src]
            dsts = [self._ax(d) for d in dst]
            order = [i for i in range(self.ndim) if i not in srcs]
            for d, s in sorted(zip(dsts, srcs)):
                order.insert(d, s)
            return self.transpose(order)
        s, d = self._ax(src), self._ax(dst)
        order = list(range(self.ndim))
        order.pop(s)
        order.insert(d, s)
        return self.transpose(order)

    def swapaxes(self, a, b):
        a, b = self._ax(a), self._ax(b)
        order = list(range(self.ndim))
        order[a], order[b] = order[b], order[a]
        return self.transpose(order)

    def astype(self, t):
        return self

    def copy(self):
        return self

    def squeeze(self, axis=None):
        keep = []
        for i, d in enumerate(self.dims):
            if axis is None:
                if concrete_int(extent(d)) == 1:
                    continue
            elif i in ([self._ax(a) for a in axis] if isinstance(axis, (tuple, list)) else [self._ax(axis)]):
                if concrete_int(extent(d)) != 1:
                    raise ValueError("cannot squeeze axis of size != 1")
                continue
            keep.append(i)
        src = self
        dims = [self.dims[i] for i in keep]

        def elem(idx):
            full = [zero_idx(d) for d in src.dims]
            for j, i in enumerate(keep):
                full[i] = idx[j]
            return src.elem(full)

        return SArray(dims, elem, self.dtype, self.taint)

    def reshape(self, *shape, order="C"):
        if len(shape) == 1 and isinstance(shape[0], (tuple, list)):
            shape = tuple(shape[0])
        return _reshape(self, list(shape))

    def ravel(self):
        return self.reshape(-1)

    flatten = ravel

    # -- indexing
    def __getitem__(self, key):
        return _getitem(self, key)

    def __iter__(self):
        n = len(self)
        for i in range(n):
            yield self[i]

    @property
    def at(self):
        raise OutOfReach("array.at[] updates are not modelled")

    # -- arithmetic
    def __add__(self, o):
        return ew2("add", self, o)

    def __radd__(self, o):
        return ew2("add", o, self)

    def _inplace(self, op, o):
        # numpy semantics for arrays that came from the numpy shim (lib.NumpyModel marks them): the OBJECT changes, so every
        # alias (a cache entry, a default argument, another local) sees the new values.  jax arrays are immutable: rebinding.
        if not getattr(self, "_mutable", False):
            return ew2(op, self, o)
        old = SArray(self.dims, self._elem, self.dtype, self.taint)
        r = ew2(op, old, o)
        if len(r.dims) != len(old.dims) or not all(ext_eq(extent(a), extent(b)) for a, b in zip(r.dims, old.dims)):
            raise ValueError("non-broadcastable output operand in an in-place operation")
        self.dims, self._elem = list(r.dims), r._elem
        return self

    def __iadd__(self, o):
        return self._inplace("add", o)

    def __isub__(self, o):
        return self._inplace("sub", o)

    def __imul__(self, o):
        return self._inplace("mul", o)

    def __sub__(self, o):
        return ew2("sub", self, o)

    def __rsub__(self, o):
        return ew2("sub", o, self)

    def __mul__(self, o):
        return ew2("mul", self, o)

    def __rmul__(self, o):
        return ew2("mul", o, self)

    def __truediv__(self, o):
        return ew2("div", self, o)

    def __rtruediv__(self, o):
        return ew2("div", o, self)

    def __neg__(self):
        return ew1(t_neg, self)

    def __pos__(self):
        return self

    def __pow__(self, p):
        c = concrete_int(p)
        if c is None or c < 1:
            raise OutOfReach("array power with non-positive/symbolic exponent")
        r = self
        for _ in range(c - 1):
            r = r * self
        return r

    def __matmul__(self, o):
        return matmul(self, o)

    def __rmatmul__(self, o):
        return matmul(o, self)

    def __abs__(self):
        return ew1(t_abs, self)

    def __lt__(self, o):
        return _cmp_arr("lt", self, o)

    def __gt__(self, o):
        return _cmp_arr("gt", self, o)

    def __le__(self, o):
        return _cmp_arr("le", self, o)

    def __ge__(self, o):
        return _cmp_arr("ge", self, o)

    def __eq__(self, o):
        return _cmp_arr("eq", self, o)

    def __ne__(self, o):
        return _cmp_arr("ne", self, o)

    def __bool__(self):
        if self.ndim == 0:
            t = self.elem(())
            if isinstance(t, bool):
                return t
            if is_z3(t) and t.sort() == z3.BoolSort():
                return bool(SBool(t))
            return bool(sym._cmp_real("ne", SReal(t_z3(t, True)), 0.0))
        raise ValueError("truth value of an array with more than one element is ambiguous")

    def __float__(self):
        raise OutOfReach("float() of a symbolic array")

    def __index__(self):
        if self.ndim == 0:
            c = concrete_int(self.elem(())) if not is_z3(self.elem(())) else None
            if c is not None:
                return c
        raise OutOfReach("__index__ of a symbolic array")

    __hash__ = None

    def sum(self, axis=None, keepdims=False):
        return asum(self, axis, keepdims)

    def mean(self, axis=None, keepdims=False):
        return amean(self, axis, keepdims)

    def item(self):
        if self.ndim:
            raise ValueError("item() of non-scalar array")
        return scalar_of(self.elem(()), self.dtype)


def scalar_of(t, dtype="real"):
    if _num(t):
        return t
    if is_z3(t):
        if t.sort() == z3.IntSort():
            return mk(t)
        if t.sort() == z3.BoolSort():
            return SBool(t)
        return SReal(z3.simplify(t))
    raise OutOfReach("scalar_of")


def t_abs(t):
    if _num(t):
        return abs(t)
    if not sym._small(t, 80) or sym._has_nl_real_mul(t):
        return z3.If(t >= 0, t, -t)          # no context-aware simplification on large / non-linear terms (cost)
    if valid(t >= 0):
        return t
    if valid(t <= 0):
        return -t
    return z3.If(t >= 0, t, -t)


def _cmp_arr(op, a, b):
    if isinstance(b, SArray) and b.ndim == 0:
        b = scalar_of(b.elem(()))
    if isinstance(a, SArray) and a.ndim == 0 and not isinstance(b, SArray):
        x = scalar_of(a.elem(()))
        if isinstance(x, (int, float, Fraction)) and not isinstance(b, (int, float, Fraction, SInt, SReal)):
            raise OutOfReach("comparison of a 0-d array with a non-scalar")
        return {"lt": lambda: x < b, "gt": lambda: x > b, "le": lambda: x <= b, "ge": lambda: x >= b,
                "eq": lambda: x == b, "ne": lambda: x != b}[op]()
    raise OutOfReach("elementwise array comparison")


# ------------------------------------------------------------------------------------------------
def _at(arr, idx, pos):
    """normalise Flat indices (from pos on), then call the array's element function"""
    for i in range(pos, len(idx)):
        ix = idx[i]
        if isinstance(ix, SInt):
            idx[i] = ix = ix.e
        if not isinstance(ix, Flat):
            continue
        d = arr.dims[i]
        t = ix.t
        if isinstance(d, Atom):
            idx[i] = t
            continue
        if isinstance(d, Sum):
            offs = [0]
            for k in d.kids:
                offs.append(offs[-1] + extent(k))
            # decided by the context?
            if not is_z3(t):
                for b in range(len(d.kids)):
                    lo, hi = offs[b], offs[b + 1]
                    if valid(z3.And(zi(lo) <= t, t < zi(hi))):
                        j = list(idx)
                        j[i] = Br(b, Flat(_iadd(t, -zi(lo)) if True else None))
                        return _at(arr, j, i)
            else:
                for b in range(len(d.kids)):
                    lo, hi = offs[b], offs[b + 1]
                    if valid(z3.And(zi(lo) <= t, t < zi(hi))):
                        j = list(idx)
                        j[i] = Br(b, Flat(_iadd(t, mk(-zi(lo)))))
                        return _at(arr, j, i)
            # general dispatch: nested If over branches
            res = None
            for b in reversed(range(len(d.kids))):
                lo, hi = offs[b], offs[b + 1]
                j = list(idx)
                j[i] = Br(b, Flat(_iadd(t, mk(-zi(lo)))))
                with sym.scope([z3.And(zi(lo) <= zi(t), zi(t) < zi(hi))]):
                    val = _at(arr, j, i)
                from .bigsum import SumExpr
                if isinstance(val, SumExpr):
                    raise OutOfReach("conditional over BigSum terms")
                if res is None:
                    res = val
                else:
                    real = _is_real(res) or _is_real(val)
                    res = z3.If(zi(t) < zi(hi), t_z3(val, real), t_z3(res, real))
            return res
        if isinstance(d, Prod):
            # unravel by concrete strides only (div/mod by constants)
            kids = d.kids
            rest = t
            digs = [None] * len(kids)
            for j_ in reversed(range(1, len(kids))):
                e = extent(kids[j_])
                digs[j_] = Flat(sym.int_mod(mk(zi(rest)), e))
                rest = sym.int_floordiv(mk(zi(rest)), e)
                rest = rest.e if isinstance(rest, SInt) else rest
            digs[0] = Flat(rest)
            for dg in digs:
                if is_z3(dg.t) and _has_symbolic_divmod(dg.t):
                    raise OutOfReach("flat index into a product axis with symbolic strides")
            idx[i] = tuple(digs)
            # re-normalise nested kids
            return _at_nested(arr, idx, i)
    # nested Flat inside structured indices
    for i in range(len(idx)):
        if _has_flat(idx[i]):
            return _at_nested(arr, idx, i)
    return arr._elem(tuple(idx))


def _has_symbolic_divmod(t):
    """does term t contain div/mod with a non-constant divisor?"""
    seen = set()
    stack = [t]
    while stack:
        x = stack.pop()
        if x.get_id() in seen:
            continue
        seen.add(x.get_id())
        if z3.is_app(x):
            k = x.decl().kind()
            if k in (z3.Z3_OP_IDIV, z3.Z3_OP_MOD, z3.Z3_OP_REM, z3.Z3_OP_DIV):
                if not z3.is_int_value(x.arg(1)) and not z3.is_rational_value(x.arg(1)):
                    return True
            stack += x.children()
    return False


def _has_flat(ix):
    if isinstance(ix, Flat):
        return True
    if isinstance(ix, tuple):
        return any(_has_flat(x) for x in ix)
    if isinstance(ix, Br):
        return _has_flat(ix.idx)
    return False


def _at_nested(arr, idx, i):
    """resolve Flat indices nested inside the structured index of axis i by viewing the axis's
    sub-dimension as a one-axis array (re-using _at's dispatch)"""
    d = arr.dims[i]
    ix = idx[i]

    def resolve(d, ix, k):
        # k: continuation taking the resolved structured index
        if isinstance(ix, SInt):
            ix = ix.e
        if isinstance(ix, Flat):
            if isinstance(d, Atom):
                return k(ix.t)
            helper = SArray([d], lambda j: k(j[0]))
            return _at(helper, [ix], 0)
        if isinstance(d, Atom):
            return k(ix)
        if isinstance(d, Prod):
            def go(pos, acc):
                if pos == len(d.kids):
                    return k(tuple(acc))
                return resolve(d.kids[pos], ix[pos], lambda r: go(pos + 1, acc + [r]))
            return go(0, [])
        return resolve(d.kids[ix.b], ix.idx, lambda r: k(Br(ix.b, r)))

    def cont(r):
        j = list(idx)
        j[i] = r
        return _at(arr, j, i + 1) if not any(_has_flat(x) for x in j[:i + 1]) else _at(arr, j, 0)

    return resolve(d, ix, cont)


# ------------------------------------------------------------------------------------------------
def _reshape(a, shape):
    """regroup (and, where needed, split) the factors of the axes; -1 solved structurally"""
    # leading axes whose extents are requested unchanged are kept as they are (even if Sum)
    fl = []           # (old_axis, position in that axis's factor list, factor)
    for ai, d in enumerate(a.dims):
        for k, f in enumerate(factors(d)):
            fl.append((ai, (k,), f))
    nreq = len(shape)
    neg = [i for i, s in enumerate(shape) if concrete_int(s) == -1]
    if len(neg) > 1:
        raise ValueError("can only specify one unknown dimension")
    groups = [None] * nreq

    def take_prefix(pos, req):
        """from fl[pos:], a group whose product == req; returns (group, newpos); may split an atom"""
        grp = []
        cur = 1
        p = pos
        # skip nothing; unit factors are absorbed greedily only when needed
        while True:
            if ext_eq(cur, req):
                # absorb following unit factors only if nothing else will need them: leave them
                return grp, p
            if p >= len(fl):
                raise OutOfReach(f"reshape: cannot match extent {req} (have {cur})")
            ai, k, f = fl[p]
            if isinstance(f, Atom) and not grp and concrete_int(f.ext) != 1:
                # would this atom need splitting?  (req * q == f.ext for the quotient q)
                q = _try_quot(f.ext, req)
                if q is not None and not ext_eq(q, 1):
                    a1, a2 = Atom(req, f.name + "h"), Atom(q, f.name + "l")
                    kp = k if isinstance(k, tuple) else (k,)
                    fl[p:p + 1] = [(ai, kp + (0,), a1), (ai, kp + (1,), a2)]
                    _splits.setdefault(id(a), {})[(ai, kp)] = (f, a1, a2)
                    continue
            grp.append(fl[p])
            cur = cur * extent(f)
            p += 1

    def take_suffix(end, req):
        grp = []
        cur = 1
        p = end
        while True:
            if ext_eq(cur, req):
                return grp, p
            if p <= 0:
                raise OutOfReach(f"reshape: cannot match trailing extent {req}")
            ai, k, f = fl[p - 1]
            if isinstance(f, Atom) and not grp and concrete_int(f.ext) != 1:
                q = _try_quot(f.ext, req)
                if q is not None and not ext_eq(q, 1):
                    a1, a2 = Atom(q, f.name + "h"), Atom(req, f.name + "l")
                    kp = k if isinstance(k, tuple) else (k,)
                    fl[p - 1:p] = [(ai, kp + (0,), a1), (ai, kp + (1,), a2)]
                    _splits.setdefault(id(a), {})[(ai, kp)] = (f, a1, a2)
                    p += 1
                    continue
            grp.insert(0, fl[p - 1])
            cur = cur * extent(f)
            p -= 1

    _splits.pop(id(a), None)
    pos = 0
    if neg:
        j = neg[0]
        for i in range(j):
            groups[i], pos = take_prefix(pos, shape[i])
        end = len(fl)
        for i in reversed(range(j + 1, nreq)):
            groups[i], end = take_suffix(end, shape[i])
        if end < pos:
            raise OutOfReach("reshape: overlapping groups")
        groups[j] = fl[pos:end]
    else:
        for i in range(nreq):
            groups[i], pos = take_prefix(pos, shape[i])
        # leftovers must be unit factors
        for ai, k, f in fl[pos:]:
            if not is_unit(f):
                # size mismatch: a library pre-condition
                st, m = sym.refute_or_prove(zi(a.size) == zi(_prod(shape)))
                if st == "refuted":
                    raise Refuted(f"reshape: cannot reshape array of size into shape {shape}", m)
                raise OutOfReach("reshape: leftover factors")
            groups[-1 if nreq else 0].append((ai, k, f)) if nreq else None
    splits = _splits.pop(id(a), {})
    # unit factors carry no information: drop them from groups that also hold a non-unit factor
    groups = [([x for x in g if not is_unit(x[2])] or g[:1]) for g in groups]
    new_dims = [mkprod([f for _, _, f in g]) if g else Atom(1) for g in groups]
    src = a
    old_factor_lists = [factors(d) for d in a.dims]

    def elem(idx):
        # collect the index of every (old axis, factor position)
        got = {}
        for g, ix in zip(groups, idx):
            if not g:
                continue
            if len(g) == 1:
                ixs = [ix]
            else:
                if isinstance(ix, Flat):
                    raise OutOfReach("flat index into a regrouped axis")
                ixs = list(ix)
            for (ai, k, f), v in zip(g, ixs):
                got[(ai, k)] = v
        full = []
        for ai, d in enumerate(src.dims):
            fs = old_factor_lists[ai]
            vals = []

            def val(kp, f):
                if (ai, kp) in splits:
                    f0, a1, a2 = splits[(ai, kp)]
                    hi, lo = val(kp + (0,), a1), val(kp + (1,), a2)
                    return _iadd(_imul(to_flat(a1, hi), a2.ext), to_flat(a2, lo))
                if (ai, kp) in got:
                    return got[(ai, kp)]
                return zero_idx(f)

            for k, f in enumerate(fs):
                vals.append(val((k,), f))
            full.append(tuple(vals) if isinstance(d, Prod) else vals[0])
        return src.elem(full)

    return SArray(new_dims, elem, a.dtype, a.taint)


_splits = {}


def _prod(xs):
    r = 1
    for x in xs:
        r = r * x
    return r


def _try_quot(ext, req):
    """q with req*q == ext, if provable"""
    ce, cr = concrete_int(ext), concrete_int(req)
    if ce is not None and cr is not None:
        return ce // cr if cr and ce % cr == 0 and ce != cr else None
    try:
        for q in sym._quotient_candidates(zi(ext), zi(req)):
            if valid(zi(ext) == q * zi(req)):
                return mk(q)
    except OutOfReach:
        pass
    # req may itself be written as ext // n  (reshape_pmap): then q = n
    if isinstance(req, SInt) and cr is None:
        for n in (2, 3, 4, 8):
            if valid(zi(req) * n == zi(ext)):
                return n
    return None


# ------------------------------------------------------------------------------------------------
def _getitem(a, key):
    if not isinstance(key, tuple):
        key = (key,)
    key = list(key)
    # bool / None handling
    n_real = sum(1 for k in key if k is not None and k is not Ellipsis)
    if any(k is Ellipsis for k in key):
        i = key.index(Ellipsis)
        key[i:i + 1] = [slice(None)] * (a.ndim - n_real)
    key += [slice(None)] * (a.ndim - sum(1 for k in key if k is not None))
    if sum(1 for k in key if k is not None) != a.ndim:
        raise IndexError("too many indices for array")
    # advanced (array) indices
    adv = [(i, k) for i, k in enumerate(key) if isinstance(k, (SArray, np.ndarray, list))]
    adv_arrays = []
    if adv:
        adv_arrays = [lift(k, "int") for _, k in adv]
        bshape_src = adv_arrays[0]
        for x in adv_arrays[1:]:
            if x.ndim != bshape_src.ndim or not all(ext_eq(p, q) for p, q in zip(x.shape, bshape_src.shape)):
                raise OutOfReach("advanced indices of different shapes")
        adv_pos = [i for i, _ in adv]
        contiguous = adv_pos == list(range(adv_pos[0], adv_pos[0] + len(adv_pos))) and not any(
            k is None for k in key[adv_pos[0]:adv_pos[-1] + 1])
    new_dims = []
    plan = []     # per result axis: ('keep', old) | ('shift', old, lo) | ('sel', old, [branches]) | ('new',) | ('adv', j)
    fixed = {}    # old axis -> fixed index
    old = 0
    adv_emitted = False
    for k in key:
        if k is None:
            new_dims.append(Atom(1))
            plan.append(("new",))
            continue
        d = a.dims[old]
        if isinstance(k, slice):
            if k.step is not None and concrete_int(k.step) != 1:
                raise OutOfReach("strided slice")
            if k.start is None and k.stop is None:
                new_dims.append(d)
                plan.append(("keep", old))
            else:
                nd, pl = _slice_dim(d, k.start, k.stop)
                new_dims.append(nd)
                plan.append(pl + (old,))
        elif isinstance(k, (SArray, np.ndarray, list)):
            j = [i for i, (p, _) in enumerate(adv) if p == old or True][0]
            if not adv_emitted:
                if not contiguous:
                    raise OutOfReach("non-adjacent advanced indices")
                for bd in adv_arrays[0].dims:
                    new_dims.append(bd)
                    plan.append(("advaxis",))
                adv_emitted = True
            fixed[old] = ("adv", [p for p, _ in adv].index(old))
        else:
            # integer index
            c = concrete_int(k) if not is_z3(k) else None
            e = extent(d)
            if c is not None:
                if c < 0:
                    kk = e + c
                    kk = kk.e if isinstance(kk, SInt) else kk
                else:
                    kk = c
            else:
                kk = zi(k)
            st, m = sym.refute_or_prove(z3.And(zi(kk) >= 0, zi(kk) < zi(e)))
            if st == "refuted":
                raise Refuted(f"index {k} out of bounds for axis of extent {e}", m)
            if st == "unknown":
                raise OutOfReach("index bounds undecided")
            fixed[old] = ("int", kk)
        old += 1
    src = a
    nadv = adv_arrays[0].ndim if adv else 0

    def elem(idx):
        full = [None] * src.ndim
        advidx = []
        for pl, ix in zip(plan, idx):
            if pl[0] == "new":
                continue
            if pl[0] == "advaxis":
                advidx.append(ix)
            elif pl[0] == "keep":
                full[pl[1]] = ix
            elif pl[0] == "keepx":
                full[pl[1]] = ix
            elif pl[0] == "shift":
                _, lo, dnew, oldax = pl
                full[oldax] = Flat(_iadd(to_flat(dnew, ix), lo))
            elif pl[0] == "sel":
                _, b0, nb, oldax = pl
                if nb == 1:
                    full[oldax] = Br(b0, ix)
                else:
                    if isinstance(ix, Flat):
                        off = 0
                        for kd in src.dims[oldax].kids[:b0]:
                            off = off + extent(kd)
                        full[oldax] = Flat(_iadd(ix.t, off))
                    else:
                        full[oldax] = Br(b0 + ix.b, ix.idx)
        for oldax, fx in fixed.items():
            if fx[0] == "int":
                full[oldax] = Flat(fx[1])
            else:
                v = adv_arrays[fx[1]].elem(advidx)
                full[oldax] = Flat(v)
                _check_gather_bounds(v, extent(src.dims[oldax]))
        return src.elem(full)

    if not new_dims and a.dtype == "int":
        return scalar_of(elem(()))          # indexing an integer array down to a scalar gives a python-like int
    return SArray(new_dims, elem, a.dtype, a.taint)


def _check_gather_bounds(v, e):
    if _num(v):
        ok = 0 <= v < e if concrete_int(e) is not None else None
        if ok is True:
            return
    st, m = sym.refute_or_prove(z3.And(zi(v) >= 0, zi(v) < zi(e)))
    if st == "refuted":
        raise Refuted(f"gather index {v} not provably inside [0,{e})", m)
    if st == "unknown":
        raise OutOfReach("gather bounds undecided")


def _slice_dim(d, start, stop):
    """python slice semantics on one axis; returns (new Dim, plan-prefix)"""
    e = extent(d)

    def normbound(b, default):
        if b is None:
            return default
        c = concrete_int(b)
        if c is not None and c < 0:
            return e + c
        if c is None and isinstance(b, SInt):
            if valid(b.e < 0):
                return e + b
        return b

    lo, hi = normbound(start, 0), normbound(stop, e)
    ok = z3.And(zi(lo) >= 0, zi(lo) <= zi(hi), zi(hi) <= zi(e))
    st, m = sym.refute_or_prove(ok)
    if st != "proved":
        # python clamps; we do not model clamping: demand in-range bounds
        if st == "refuted":
            raise Refuted(f"slice [{start}:{stop}] not within axis extent {e}", m)
        raise OutOfReach("slice bounds undecided")
    if isinstance(d, Sum):
        offs = [0]
        for k in d.kids:
            offs.append(offs[-1] + extent(k))
        for b0 in range(len(d.kids)):
            if ext_eq(offs[b0], lo):
                for b1 in range(b0 + 1, len(d.kids) + 1):
                    if ext_eq(offs[b1], hi):
                        nb = b1 - b0
                        nd = d.kids[b0] if nb == 1 else Sum(d.kids[b0:b1])
                        return nd, ("sel", b0, nb)
    if ext_eq(lo, 0) and ext_eq(hi, e):
        return d, ("keepx",)
    nd = Atom(hi - lo)
    return nd, ("shift", lo.e if isinstance(lo, SInt) else lo, nd)


# ------------------------------------------------------------------------------------------------
def _num_index(i):
    """a z3 integer numeral (possibly after simplification) as a Python int; anything else unchanged"""
    if z3.is_expr(i):
        v = i if z3.is_int_value(i) else z3.simplify(i)
        if z3.is_int_value(v):
            return v.as_long()
    return i


def lift(x, dtype=None):
    """anything array-like -> SArray"""
    if isinstance(x, SArray):
        return x
    if isinstance(x, (list, tuple)):
        if len(x) and all(isinstance(v, SArray) for v in x):
            return stack(list(x), 0)
        if any(isinstance(v, (SInt, SReal)) or is_z3(v) for v in _flatten_list(x)):
            return _from_nested(x)
        x = np.array(x)
    if isinstance(x, (SInt, SReal)) or is_z3(x) or isinstance(x, (int, float, Fraction, np.integer, np.floating)):
        t = t_norm(x)
        return SArray([], lambda idx: t, "real")
    if isinstance(x, np.ndarray):
        arr = x
        dims = [Atom(int(n)) for n in arr.shape]
        kind = "int" if arr.dtype.kind in "iub" else "real"

        def elem(idx):
            idx = [_num_index(i) for i in idx]
            if all(not is_z3(i) for i in idx):
                v = arr[tuple(int(i) for i in idx)]
                return int(v) if kind == "int" else (int(v) if float(v).is_integer() else float(v))
            # symbolic index into a concrete table: If-chain over the (small) table
            if arr.size > 256:
                raise OutOfReach("symbolic index into a large concrete table")
            res = None
            for pos in itertools.product(*[range(n) for n in arr.shape]):
                v = arr[pos]
                v = int(v) if kind == "int" or float(v).is_integer() else float(v)
                cond = z3.And(*[zi(i) == p for i, p in zip(idx, pos)])
                vt = t_z3(v, kind != "int")
                res = vt if res is None else z3.If(cond, vt, res)
            return res

        return SArray(dims, elem, kind)
    raise OutOfReach(f"lift: {type(x).__name__}")


def _flatten_list(x):
    if isinstance(x, (list, tuple)):
        for v in x:
            yield from _flatten_list(v)
    else:
        yield x


def _from_nested(x):
    """nested python lists/tuples with symbolic scalars -> concrete-shape SArray"""
    def shape_of(v):
        if isinstance(v, (list, tuple)):
            return (len(v),) + (shape_of(v[0]) if len(v) else ())
        if isinstance(v, SArray):
            return tuple(v.shape)
        return ()

    shp = shape_of(x)
    dims = [Atom(n) for n in shp]

    def elem(idx):
        v = x
        for pos, i in enumerate(idx):
            if isinstance(v, SArray):
                return v.elem(idx[pos:])
            if is_z3(i):
                raise OutOfReach("symbolic index into a python list")
            v = v[int(i)]
        return t_norm(v)

    allint = all(isinstance(v, (int, SInt)) or (is_z3(v) and v.sort() == z3.IntSort()) for v in _flatten_list(x))
    return SArray(dims, elem, "int" if allint else "real")


def bshape(arrs):
    nd = max(a.ndim for a in arrs)
    out = []
    for ax in range(nd):
        cand = None
        for a in arrs:
            j = ax - (nd - a.ndim)
            if j < 0:
                continue
            d = a.dims[j]
            if concrete_int(extent(d)) == 1:
                continue
            if cand is None:
                cand = d
            else:
                if not ext_eq(extent(cand), extent(d)):
                    st, m = sym.refute_or_prove(zi(extent(cand)) == zi(extent(d)))
                    if st == "refuted":
                        raise Refuted(f"operands could not be broadcast together: {extent(cand)} vs {extent(d)}", m)
                    raise OutOfReach("broadcast extents undecided")
        out.append(cand if cand is not None else Atom(1))
    return out


def bidx(a, dims, idx):
    """index of operand a for result index idx (broadcasting)"""
    nd = len(dims)
    out = []
    for j, d in enumerate(a.dims):
        ax = j + (nd - a.ndim)
        if concrete_int(extent(d)) == 1 and dims[ax] is not d:
            out.append(zero_idx(d))
        else:
            out.append(conv_idx(dims[ax], idx[ax], d))
    return out


def ew2(op, a, b):
    a, b = lift(a), lift(b)
    dims = bshape([a, b])
    f = (lambda x, y: t_bin(op, x, y))
    dtype = "int" if a.dtype == b.dtype == "int" and op != "div" else "real"
    taint = a.taint or b.taint
    if taint:
        _taint_violation(taint, op)

    def elem(idx):
        return f(a.elem(bidx(a, dims, idx)), b.elem(bidx(b, dims, idx)))

    return SArray(dims, elem, dtype)


def ewn(f, *arrs, dtype="real"):
    arrs = [lift(a) for a in arrs]
    dims = bshape(arrs)
    for a in arrs:
        if a.taint:
            _taint_violation(a.taint, getattr(f, "__name__", "op"))

    def elem(idx):
        return f(*[a.elem(bidx(a, dims, idx)) for a in arrs])

    return SArray(dims, elem, dtype)


def ew1(f, a, dtype=None):
    a = lift(a)
    if a.taint:
        _taint_violation(a.taint, getattr(f, "__name__", "op"))
    return SArray(a.dims, lambda idx: f(a.elem(idx)), dtype or a.dtype)


TAINT_LOG = []


def _taint_violation(taint, op):
    TAINT_LOG.append((taint, op))


# ------------------------------------------------------------------------------------------------
def concatenate(arrs, axis=0):
    arrs = [lift(a) for a in arrs]
    if not arrs:
        raise ValueError("need at least one array to concatenate")
    nd = arrs[0].ndim
    ax = arrs[0]._ax(axis)
    # zero-extent operands vanish
    keep = [a for a in arrs if concrete_int(extent(a.dims[ax])) != 0] if all(a.ndim == nd for a in arrs) else arrs
    if not keep:
        return arrs[0]
    arrs = keep
    a0 = arrs[0]
    for b in arrs[1:]:
        if b.ndim != nd:
            raise ValueError("all the input array dimensions except for the concatenation axis must match exactly")
        for i in range(nd):
            if i != ax and not ext_eq(a0.shape[i], b.shape[i]):
                st, m = sym.refute_or_prove(zi(a0.shape[i]) == zi(b.shape[i]))
                if st == "refuted":
                    raise Refuted(f"concatenate: off-axis extents differ on axis {i}: {a0.shape[i]} vs {b.shape[i]}", m)
                raise OutOfReach("concatenate: off-axis extents undecided")
    if len(arrs) == 1:
        return a0
    kids = []
    owner = []
    for ai, a in enumerate(arrs):
        d = a.dims[ax]
        if isinstance(d, Sum):
            for bi, k in enumerate(d.kids):
                kids.append(k)
                owner.append((ai, bi))
        else:
            kids.append(d)
            owner.append((ai, None))
    dims = list(a0.dims)
    dims[ax] = Sum(kids)
    taint = next((a.taint for a in arrs if a.taint), None)

    def elem(idx):
        br = idx[ax]
        ai, bi = owner[br.b]
        a = arrs[ai]
        j = []
        for i in range(nd):
            if i == ax:
                j.append(br.idx if bi is None else Br(bi, br.idx))
            else:
                j.append(conv_idx(dims[i], idx[i], a.dims[i]))
        return a.elem(j)

    dt = "int" if all(a.dtype == "int" for a in arrs) else "real"
    return SArray(dims, elem, dt, taint)


def expand_dims(a, axis):
    a = lift(a)
    ax = concrete_int(axis)
    if ax < 0:
        ax += a.ndim + 1
    key = [slice(None)] * a.ndim
    key.insert(ax, None)
    return a[tuple(key)]


def stack(arrs, axis=0):
    arrs = [lift(a) for a in arrs]
    return concatenate([expand_dims(a, axis) for a in arrs], axis)


def full(shape, val, dtype="real"):
    if not isinstance(shape, (tuple, list)):
        shape = (shape,)
    dims = [Atom(s) for s in shape]
    if isinstance(val, SArray):
        # jnp.full(shape, array): broadcast array to shape
        b = val
        nd = len(dims)
        for j, d in enumerate(b.dims):
            axn = j + nd - b.ndim
            if concrete_int(extent(d)) != 1:
                dims[axn] = d
        return SArray(dims, lambda idx: b.elem(bidx(b, dims, idx)), b.dtype, b.taint)
    t = t_norm(val)
    return SArray(dims, lambda idx: t, dtype)


def arange(*args):
    if len(args) == 1:
        lo, hi, st = 0, args[0], 1
    elif len(args) == 2:
        lo, hi, st = args[0], args[1], 1
    else:
        lo, hi, st = args
    cs = concrete_int(st)
    if cs == 1:
        n = hi - lo
    else:
        # ceil((hi-lo)/st) for positive step
        if not valid(zi(st) > 0):
            raise OutOfReach("arange with non-positive/unknown step")
        n = None
        for q in sym._quotient_candidates(zi(hi - lo), zi(st)):
            if valid(zi(hi - lo) == q * zi(st)):
                n = mk(q)          # (hi-lo) is an exact multiple of the step
        if n is None:
            n = sym.int_floordiv(hi - lo + st - 1, st)
    st_, m = sym.refute_or_prove(zi(n) >= 0)
    if st_ != "proved":
        raise OutOfReach("arange of possibly negative length")
    d = Atom(n)
    lo_t, st_t = zi(lo), zi(st)
    return SArray([d], lambda idx: z3.simplify(lo_t + zi(idx[0]) * st_t) if is_z3(idx[0]) or is_z3(lo_t) else None, "int") \
        if False else SArray([d], lambda idx: _arange_elem(lo, st, idx[0]), "int")


def _arange_elem(lo, st, i):
    prod = zi(i) * zi(st)
    if is_z3(i) and concrete_int(st) is None:
        # non-linear product digit*step: record its (provable) bounds as hints for later queries
        sym.add_hint(prod >= 0)
        sym.add_hint(prod >= zi(i))
    r = mk(zi(lo) + prod)
    return r.e if isinstance(r, SInt) else r


# ------------------------------------------------------------------------------------------------
def _axes_list(a, axis):
    if axis is None:
        return list(range(a.ndim))
    if isinstance(axis, (tuple, list, range)):
        return sorted(a._ax(x) for x in axis)
    return [a._ax(axis)]


def concrete_indices(d):
    """all structured indices of a fully concrete Dim (or None if symbolic / too large)"""
    if isinstance(d, Atom):
        c = concrete_int(d.ext)
        return None if c is None or c > UNROLL_LIMIT else list(range(c))
    if isinstance(d, Prod):
        parts = [concrete_indices(k) for k in d.kids]
        if any(p is None for p in parts):
            return None
        n = 1
        for p in parts:
            n *= len(p)
        if n > UNROLL_LIMIT:
            return None
        return [tuple(c) for c in itertools.product(*parts)]
    out = []
    for b, k in enumerate(d.kids):
        p = concrete_indices(k)
        if p is None:
            return None
        out += [Br(b, i) for i in p]
    return out


def asum(a, axis=None, keepdims=False, weight=None):
    a = lift(a)
    if a.taint:
        _taint_violation(a.taint, "sum")
    axes = _axes_list(a, axis)
    keep = [i for i in range(a.ndim) if i not in axes]
    conc = {i: concrete_indices(a.dims[i]) for i in axes}
    sym_axes = [i for i in axes if conc[i] is None]
    con_axes = [i for i in axes if conc[i] is not None]
    dims = [a.dims[i] for i in keep] if not keepdims else [a.dims[i] if i in keep else Atom(1) for i in range(a.ndim)]

    def elem(idx):
        full = [None] * a.ndim
        if keepdims:
            for i in keep:
                full[i] = idx[i]
        else:
            for j, i in enumerate(keep):
                full[i] = idx[j]

        def inner(full):
            tot = 0
            for combo in itertools.product(*[conc[i] for i in con_axes]):
                f2 = list(full)
                for i, v in zip(con_axes, combo):
                    f2[i] = v
                tot = t_bin("add", tot, a.elem(f2))
            return tot

        if not sym_axes:
            return inner(full)
        from .bigsum import bigsum
        return bigsum([a.dims[i] for i in sym_axes], lambda vals: inner(_fill(full, sym_axes, vals)))

    return SArray(dims, elem, a.dtype)


def _fill(full, axes, vals):
    f = list(full)
    for i, v in zip(axes, vals):
        f[i] = v
    return f


def amean(a, axis=None, keepdims=False):
    a = lift(a)
    axes = _axes_list(a, axis)
    n = 1
    for i in axes:
        n = n * extent(a.dims[i])
    s = asum(a, axis, keepdims)
    return ew2("div", s, n)


def matmul(a, b):
    a, b = lift(a), lift(b)
    if a.ndim == 0 or b.ndim == 0:
        raise ValueError("matmul: scalar operand")
    # contract last axis of a with (second to) last axis of b; only 1-D / 2-D forms used by ginjax
    if b.ndim == 1:
        return einsum("...j,j->...", a, b)
    if a.ndim == 1:
        return einsum("j,jk->k", a, b)
    return einsum("...ij,jk->...ik", a, b) if b.ndim == 2 else einsum("...ij,...jk->...ik", a, b)


def einsum(spec, *ops, **kw):
    ops = [lift(o) for o in ops]
    spec = spec.replace(" ", "")
    if "->" in spec:
        ins, out = spec.split("->")
        explicit = True
    else:
        ins, out = spec, None
        explicit = False
    terms = ins.split(",")
    if len(terms) != len(ops):
        raise ValueError("einsum: number of operands does not match the subscripts")
    # expand ellipsis
    ell_n = 0
    for t, o in zip(terms, ops):
        if "..." in t:
            ell_n = max(ell_n, o.ndim - (len(t) - 3))
    ELL = [chr(0x3b1 + i) for i in range(ell_n)]   # greek letters for broadcast axes
    lterms = []
    for t, o in zip(terms, ops):
        if "..." in t:
            n = o.ndim - (len(t) - 3)
            i = t.index("...")
            t2 = list(t[:i]) + ELL[ell_n - n:] + list(t[i + 3:])
        else:
            t2 = list(t)
        if len(t2) != o.ndim:
            raise ValueError(f"einsum: operand has {o.ndim} dims but subscripts {t} give {len(t2)}")
        lterms.append(t2)
    if explicit:
        if "..." in out:
            i = out.index("...")
            outl = list(out[:i]) + ELL + list(out[i + 3:])
        else:
            outl = list(out)
    else:
        cnt = {}
        for t in lterms:
            for ch in t:
                cnt[ch] = cnt.get(ch, 0) + 1
        outl = ELL + sorted(ch for ch, c in cnt.items() if c == 1 and ch not in ELL)
    # letter -> Dim (first occurrence with non-unit extent); check agreement
    ldim = {}
    for t, o in zip(lterms, ops):
        for ch, d in zip(t, o.dims):
            if ch not in ldim or (concrete_int(extent(ldim[ch])) == 1 and concrete_int(extent(d)) != 1):
                ldim[ch] = d
            elif concrete_int(extent(d)) != 1 and not ext_eq(extent(d), extent(ldim[ch])):
                st, m = sym.refute_or_prove(zi(extent(d)) == zi(extent(ldim[ch])))
                if st == "refuted":
                    raise Refuted(f"einsum: extents of index '{ch}' differ", m)
                raise OutOfReach("einsum extents undecided")
    summed = [ch for ch in ldim if ch not in outl]
    conc = {ch: concrete_indices(ldim[ch]) for ch in summed}
    sym_l = [ch for ch in summed if conc[ch] is None]
    con_l = [ch for ch in summed if conc[ch] is not None]
    dims = [ldim[ch] for ch in outl]
    for o in ops:
        if o.taint:
            _taint_violation(o.taint, "einsum")

    def elem(idx):
        env = dict(zip(outl, idx))

        def prod_at(env):
            r = 1
            for t, o in zip(lterms, ops):
                j = []
                for ch, d in zip(t, o.dims):
                    if concrete_int(extent(d)) == 1 and ldim[ch] is not d:
                        j.append(zero_idx(d))
                    else:
                        j.append(conv_idx(ldim[ch], env[ch], d))
                r = t_bin("mul", r, o.elem(j))
                if _num(r) and r == 0:
                    return 0
            return r

        def inner(env):
            tot = 0
            for combo in itertools.product(*[conc[ch] for ch in con_l]):
                e2 = dict(env)
                e2.update(zip(con_l, combo))
                tot = t_bin("add", tot, prod_at(e2))
            return tot

        if not sym_l:
            return inner(env)
        from .bigsum import bigsum

        def body(vals):
            e2 = dict(env)
            e2.update(zip(sym_l, vals))
            return inner(e2)

        return bigsum([ldim[ch] for ch in sym_l], body)

    return SArray(dims, elem, "int" if all(o.dtype == "int" for o in ops) else "real")


def tensordot(a, b, axes=2):
    a, b = lift(a), lift(b)
    if concrete_int(axes) == 0:
        dims = a.dims + b.dims
        na = a.ndim
        if a.taint or b.taint:
            _taint_violation(a.taint or b.taint, "tensordot")
        return SArray(dims, lambda idx: t_bin("mul", a.elem(idx[:na]), b.elem(idx[na:])), "real")
    raise OutOfReach("tensordot with axes != 0")


def where(c, x, y):
    raise OutOfReach("jnp.where is not modelled")


def source(name, dims, dtype="real"):
    """opaque input array: an uninterpreted function of the flattened structured index.
    Every Atom contributes one Int argument; Sum branches get distinct functions."""
    cache = {}

    def flat_args(d, ix, tag):
        if isinstance(d, Atom):
            return [zi(ix)], tag
        if isinstance(d, Prod):
            args = []
            for k, i in zip(d.kids, ix):
                a_, tag = flat_args(k, i, tag)
                args += a_
            return args, tag
        a_, tag = flat_args(d.kids[ix.b], ix.idx, tag + f"b{ix.b}")
        return a_, tag

    def elem(idx):
        args, tag = [], ""
        for i, (d, ix) in enumerate(zip(dims, idx)):
            a_, t = flat_args(d, ix, f"x{i}")
            args += a_
            tag += t if "b" in t else ""
        key = (tag, len(args))
        if key not in cache:
            rng = z3.RealSort() if dtype == "real" else z3.IntSort()
            cache[key] = z3.Function(f"{name}{'_' + tag if tag else ''}", *([z3.IntSort()] * len(args) + [rng]))
        return cache[key](*args) if args else cache[key]()

    return SArray(list(dims), elem, dtype)


# ------------------------------------------------------------------------------------------------
def refine(sd, cd, tag):
    """common refinement of two Dims of equal extent: list of (index into sd, index into cd, hyps)"""
    if sd is cd or same_struct(sd, cd):
        return [(ix, ix, hy) for ix, hy in fresh_cases(sd, tag)]
    if isinstance(sd, Prod) and isinstance(cd, Prod):
        # align non-unit kids pairwise when their extents agree
        ks = [k for k in sd.kids if not is_unit(k)]
        kc = [k for k in cd.kids if not is_unit(k)]
        if len(ks) == len(kc) and all(ext_eq(extent(a), extent(b)) for a, b in zip(ks, kc)):
            parts = [refine(a, b, f"{tag}{i}") for i, (a, b) in enumerate(zip(ks, kc))]
            out = []
            for combo in itertools.product(*parts):
                it_s, it_c = iter(combo), iter(combo)
                si = tuple(zero_idx(k) if is_unit(k) else next(it_s)[0] for k in sd.kids)
                ci = tuple(zero_idx(k) if is_unit(k) else next(it_c)[1] for k in cd.kids)
                out.append((si, ci, [h for c in combo for h in c[2]]))
            return out
    if isinstance(sd, Sum) and isinstance(cd, Sum) and len(sd.kids) == len(cd.kids) and \
            all(ext_eq(extent(a), extent(b)) for a, b in zip(sd.kids, cd.kids)):
        out = []
        for b, (a, c) in enumerate(zip(sd.kids, cd.kids)):
            for si, ci, hy in refine(a, c, f"{tag}b{b}"):
                out.append((Br(b, si), Br(b, ci), hy))
        return out
    if isinstance(sd, Prod) and not isinstance(cd, Prod) and len([k for k in sd.kids if not is_unit(k)]) == 1:
        k = [k for k in sd.kids if not is_unit(k)][0]
        return [(tuple(zero_idx(x) if is_unit(x) else si for x in sd.kids), ci, hy) for si, ci, hy in refine(k, cd, tag)]
    if isinstance(cd, Prod) and not isinstance(sd, Prod) and len([k for k in cd.kids if not is_unit(k)]) == 1:
        k = [k for k in cd.kids if not is_unit(k)][0]
        return [(si, tuple(zero_idx(x) if is_unit(x) else ci for x in cd.kids), hy) for si, ci, hy in refine(sd, k, tag)]
    if isinstance(sd, Atom):
        return [(Flat(to_flat(cd, ix)), ix, hy) for ix, hy in fresh_cases(cd, tag)]
    if isinstance(cd, Atom):
        return [(ix, Flat(to_flat(sd, ix)), hy) for ix, hy in fresh_cases(sd, tag)]
    # structurally different composite dims: index the spec's structure, address the code by flat position
    return [(ix, Flat(to_flat(sd, ix)), hy) for ix, hy in fresh_cases(sd, tag)]


def compare(code, spec, what="result", hyps=()):
    """∀ index: code.elem == spec.elem.  Returns (status, detail, model)
    status in proved / refuted / unknown.  The index ranges over the common refinement of the two
    arrays' structures (spec's cases, converted to code's structure)."""
    if code.ndim != spec.ndim:
        return "refuted", f"{what}: ndim {code.ndim} != {spec.ndim}", None
    for i in range(code.ndim):
        if not ext_eq(code.shape[i], spec.shape[i]):
            st, m = sym.refute_or_prove(zi(code.shape[i]) == zi(spec.shape[i]))
            if st == "refuted":
                return "refuted", f"{what}: extent of axis {i}: code {code.shape[i]} vs spec {spec.shape[i]}", m
            return "unknown", f"{what}: extent of axis {i} undecided", None
    per_axis = [refine(sd, cd, f"i{i}") for i, (sd, cd) in enumerate(zip(spec.dims, code.dims))]
    n = 0
    for combo in itertools.product(*per_axis):
        sidx = [c[0] for c in combo]
        cidx = [c[1] for c in combo]
        hy = [h for c in combo for h in c[2]] + list(hyps)
        with sym.scope(hy):
            if not sym.feasible():
                continue
            tc = code.elem(cidx)
            ts = spec.elem(sidx)
            from .bigsum import SumExpr, sum_equal
            if isinstance(tc, SumExpr) or isinstance(ts, SumExpr):
                st, detail, m = sum_equal(tc, ts)
            else:
                st, m = sym.prove_goal(t_eq(tc, ts))
                detail = f"code={_short(tc)} spec={_short(ts)}"
            n += 1
            if st != "proved":
                return st, f"{what}: element differs at index case {sidx}: {detail}", m
    return "proved", f"{what}: {n} index classes", None


def _short(t, n=300):
    """short printable form of a term for messages.  z3's Python pretty-printer is very slow on large terms (seconds), so
    big terms are printed through the C-level s-expression printer and truncated."""
    from .bigsum import SumExpr
    if is_z3(t):
        try:
            s = t.sexpr() if _term_size(t, 400) >= 400 else str(t)
        except Exception:
            s = str(t)
    elif isinstance(t, SumExpr):
        s = f"SumExpr({_short(t.plain, 80)} + {len(t.terms)} sums" + (": " + _short(t.terms[0].body, 160) if t.terms else "") + ")"
    else:
        s = str(t)
    s = " ".join(s.split())
    return s if len(s) <= n else s[:n] + "..."


def _term_size(t, cap):
    n, todo, seen = 0, [t], set()
    while todo and n < cap:
        x = todo.pop()
        if x.get_id() in seen:
            continue
        seen.add(x.get_id())
        n += 1
        todo.extend(x.children())
    return n
