"""representations of a scalar loss value handed to stopping conditions (C19):
python float (SReal itself, a float subclass), numpy float32 / float64, 0-d jax array."""
import z3
from .sym import SReal, OutOfReach


class Rep:
    kind = "rep"

    def __init__(self, e):
        self.e = e

    def as_real(self):
        return SReal(self.e)

    def __format__(self, spec):
        return f"<{self.kind} {self.e}>"

    # the proxies deliberately support nothing but float(): any other use is OutOfReach
    def _no(self, *a):
        raise OutOfReach(f"arithmetic/comparison on a {self.kind} loss proxy (only float() is modelled)")

    __lt__ = __le__ = __gt__ = __ge__ = __add__ = __sub__ = __mul__ = __radd__ = __rsub__ = __rmul__ = _no
    __truediv__ = __rtruediv__ = __neg__ = __abs__ = _no

    def __bool__(self):
        # truthiness of a numpy scalar / 0-d array: value != 0
        from .sym import SBool
        return bool(SBool(self.e != 0))


class NpFloat32(Rep):
    """numpy.float32: NOT a subclass of float; float() conversion is exact"""
    kind = "numpy.float32"


class NpFloat64(Rep, float):
    """numpy.float64 IS a subclass of python float"""
    kind = "numpy.float64"

    def __new__(cls, e):
        return float.__new__(cls, 0.0)


class Jax0d(Rep):
    """0-d jax array (what ginjax.ml.train passes)"""
    kind = "0-d jax array"
