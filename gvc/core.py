"""gvc.core -- obligations, the parallel runner, known findings, replays, evidence."""
from __future__ import annotations
import os, sys, json, time, re, hashlib, traceback, subprocess, importlib
from concurrent.futures import ProcessPoolExecutor, as_completed

ROOT = os.path.dirname(os.path.dirname(os.path.abspath(__file__)))
PY = os.path.join(ROOT, ".venv", "bin", "python")
OUT = os.environ.get("GVC_OUT", ROOT)     # evidence/ and replays/ go here (the seed matrix redirects them)


class Ob(dict):
    """one obligation result.
    keys: name, kind, status, detail, model, seconds, backend, structure, replay, queries"""

    def __init__(self, name, kind, status, detail="", model=None, structure=None, replay=None, **kw):
        super().__init__(name=name, kind=kind, status=status, detail=detail, model=model,
                         structure=structure or {}, replay=replay, **kw)


KINDS_COUNTED = ("ensures", "safety", "lemma", "invariant", "rejects")   # obligations proper
# 'cover' (pre-condition satisfiable), 'canary' (must be refuted) are vacuity guards,
# 'bounded' are native stand-in results (never counted as proved)


def _worker(job):
    modname, fname, kwargs = job
    t0 = time.time()
    try:
        from . import loader, sym, lib
        loader.load()
        mod = importlib.import_module(modname)
        sym.reset()
        q0, s0 = sym.CTX.nq, sym.CTX.solver_s
        obs = getattr(mod, fname)(**kwargs)
        dt = time.time() - t0
        for o in obs:
            o.setdefault("seconds", round(dt / max(1, len(obs)), 4))
        return {"job": [modname, fname, kwargs], "obs": obs, "seconds": dt,
                "queries": sym.CTX.nq - q0, "solver_s": sym.CTX.solver_s - s0,
                "unknowns": sym.CTX.unknowns, "lib": sorted(lib.USED)}
    except Exception as ex:  # checker crash inside a job: reported as error, never as violation
        return {"job": [modname, fname, kwargs], "obs": [Ob(f"{fname}/{_kw(kwargs)}", "ensures", "error",
                detail="checker exception: " + "".join(traceback.format_exception_only(type(ex), ex)).strip() +
                " @ " + _tb_tail())], "seconds": time.time() - t0, "queries": 0, "solver_s": 0, "unknowns": 0, "lib": []}


def _tb_tail():
    tb = traceback.extract_tb(sys.exc_info()[2])
    return " <- ".join(f"{os.path.basename(f.filename)}:{f.lineno}" for f in tb[-4:])


def _kw(kw):
    return ",".join(f"{k}={v}" for k, v in kw.items())


def guard(name, kind, fn, structure=None, replay=None):
    """run one obligation body, mapping engine exceptions to statuses.
    fn() -> (status, detail, model)"""
    from . import sym
    t = time.time()
    try:
        st, detail, model = fn()
    except sym.OutOfReach as ex:
        st, detail, model = "undecided", f"out of reach: {ex}", None
    except sym.Refuted as ex:
        st, detail, model = "refuted", f"library pre-condition can fail: {ex.what}", ex.model
    if st == "unknown":
        st = "undecided"
    md = sym.model_to_dict(model) if model is not None and not isinstance(model, dict) else model
    return Ob(name, kind, st, detail, md, structure, replay, seconds=round(time.time() - t, 4))


def run_jobs(jobs, workers=None):
    workers = workers or int(os.environ.get("GVC_WORKERS", "16"))
    results = []
    if workers <= 1 or len(jobs) <= 1:
        for j in jobs:
            results.append(_worker(j))
        return results
    import multiprocessing as mp
    ctx = mp.get_context("fork")
    with ProcessPoolExecutor(max_workers=min(workers, len(jobs)), mp_context=ctx) as ex:
        futs = [ex.submit(_worker, j) for j in jobs]
        for f in futs:
            results.append(f.result())
    return results


# ------------------------------------------------------------------------------------------------
def load_known():
    p = os.path.join(ROOT, "known_findings.json")
    if not os.path.exists(p):
        return {"findings": [], "fixed": []}
    return json.load(open(p))


def match_known(pid, ob, known):
    for f in known.get("findings", []):
        if f.get("property") != pid:
            continue
        if re.search(f["obligation"], ob["name"]):
            return f
    return None


def native(pid, mode, payload=None, timeout=int(os.environ.get("GVC_NATIVE_TIMEOUT", "1500"))):
    """run the native (real jax) harness of a property in a subprocess"""
    cmd = [PY, "-m", f"gvc.native.{pid.lower()}", mode]
    env = dict(os.environ)
    env["PYTHONPATH"] = ROOT
    env.setdefault("JAX_PLATFORMS", "cpu")
    try:
        p = subprocess.run(cmd, input=json.dumps(payload or {}), capture_output=True, text=True,
                           timeout=timeout, cwd=ROOT, env=env)
    except subprocess.TimeoutExpired:
        return {"ok": False, "error": "native harness timed out"}
    out = p.stdout.strip().splitlines()
    for line in reversed(out):
        if line.startswith("{"):
            try:
                return json.loads(line)
            except json.JSONDecodeError:
                pass
    return {"ok": False, "error": f"native harness gave no result (exit {p.returncode}): {p.stderr[-2000:]}"}


def _lean_status():
    """the engine's summation / index-arithmetic rules are stated and proved in lean/Rules.lean (Mathlib); ./setup.sh compiles the
    file and records the result; the link between a Lean statement and the Python rule is by inspection"""
    try:
        rec = json.load(open(os.path.join(ROOT, "lean", "compiled.json")))
        sha = hashlib.sha256(open(os.path.join(ROOT, "lean", "Rules.lean"), "rb").read()).hexdigest()[:16]
        if rec.get("sha256") != sha:
            return "engine rules (BigSum linearity / congruence / Fubini / delta / re-indexing / non-negativity, mixed radix): lean/Rules.lean changed since it was last compiled -- trusted"
        return (f"engine rules (BigSum linearity / congruence / Fubini / delta / re-indexing / non-negativity, mixed radix): proved in lean/Rules.lean "
                f"({rec.get('theorems')} theorems, {'compiled without errors' if rec.get('ok') else 'COMPILATION FAILED'} by {rec.get('lean')}, sha {sha}); "
                "correspondence statement <-> Python rule by inspection")
    except Exception:
        return "engine rules (BigSum linearity / congruence / Fubini / delta / re-indexing / non-negativity, mixed radix): lean/Rules.lean not compiled in this sandbox -- trusted"


def _owner(pid, ob):
    m = re.match(r"(C\d\d)/", ob.get("name", ""))
    if m and os.path.exists(os.path.join(ROOT, "gvc", "native", m.group(1).lower() + ".py")):
        return m.group(1)
    return pid


def write_replay(pid, ob, native_result):
    os.makedirs(os.path.join(OUT, "replays"), exist_ok=True)
    h = hashlib.sha1((ob["name"] + json.dumps(ob.get("model"), sort_keys=True, default=str)).encode()).hexdigest()[:10]
    path = os.path.join(OUT, "replays", f"{pid}-{h}.json")
    json.dump({"property": pid, "obligation": ob["name"], "kind": ob["kind"], "detail": ob["detail"],
               "solver_model": ob.get("model"), "structure": ob.get("structure"), "replay_request": ob.get("replay"),
               "native": native_result}, open(path, "w"), indent=1, default=str)
    return path


def run_property(pid, tier, module, seed=0):
    """generic driver.  `module` provides: jobs(tier), TRUSTED, ASSUMPTIONS, FUNCTIONS, LEVEL,
    optional replay_request(ob) and has a native harness gvc.native.<pid>."""
    t0 = time.time()
    from . import loader
    jobs = module.jobs(tier)
    # conformance pass of the assumed library contracts against the real libraries (bounded; runs beside the jobs)
    conf_proc = None
    if os.environ.get("GVC_NO_CONFORM") != "1":
        env = dict(os.environ, PYTHONPATH=ROOT)
        env.setdefault("JAX_PLATFORMS", "cpu")
        conf_proc = subprocess.Popen([PY, "-m", "gvc.native.conform", str(seed)], stdout=subprocess.PIPE, stderr=subprocess.PIPE,
                                     text=True, cwd=ROOT, env=env)
    results = run_jobs(jobs)
    # load-independence: a job that left something undecided is run once more on a quiet machine (<= 4 workers);
    # a 'proved'/'refuted' answer never depends on the budget, only 'undecided' can, so only those are retried
    retry = [i for i, r in enumerate(results) if any(o["status"] == "undecided" for o in r["obs"])]
    retried = 0
    if retry and os.environ.get("GVC_NO_RETRY") != "1":
        again = run_jobs([jobs[i] for i in retry], workers=4)
        for i, r in zip(retry, again):
            n0 = sum(o["status"] == "undecided" for o in results[i]["obs"])
            n1 = sum(o["status"] in ("undecided", "error") for o in r["obs"])
            if n1 < n0:
                r["seconds"] += results[i]["seconds"]
                r["solver_s"] += results[i]["solver_s"]
                r["queries"] += results[i]["queries"]
                results[i] = r
                retried += 1
    obs = [o for r in results for o in r["obs"]]
    known = load_known()
    counted = [o for o in obs if o["kind"] in KINDS_COUNTED]
    covers = [o for o in obs if o["kind"] == "cover"]
    canaries = [o for o in obs if o["kind"] == "canary"]
    lines = []
    violations = []
    known_hits = []
    errors = [o for o in obs if o["status"] == "error"]
    # vacuity guards
    vac_problems = []
    if not counted:
        vac_problems.append("no obligations were generated")
    for c in covers:
        if c["status"] != "proved":
            vac_problems.append(f"cover failed (pre-condition unsatisfiable or undecided): {c['name']}: {c['detail']}")
    for c in canaries:
        if c["status"] != "refuted":
            vac_problems.append(f"canary not refuted (engine would prove a false clause): {c['name']}: {c['status']} {c['detail']}")
    conformance = {"ran": False}
    if conf_proc is not None:
        try:
            so, se = conf_proc.communicate(timeout=900)
            line = next((l for l in reversed(so.strip().splitlines()) if l.startswith("{")), None)
            conformance = dict(json.loads(line), ran=True) if line else {"ran": False, "error": se[-500:]}
        except Exception as ex:
            conf_proc.kill()
            conformance = {"ran": False, "error": repr(ex)}
        if conformance.get("ran") and not conformance.get("ok"):
            vac_problems.append("an assumed library contract model DISAGREES with the real library (machinery problem, not a "
                                f"property violation): {conformance.get('failures')}")
        elif not conformance.get("ran"):
            vac_problems.append(f"library-contract conformance pass could not run: {conformance.get('error')}")
    baseline = {}
    bp = os.path.join(ROOT, "baseline_obligations.json")
    if os.path.exists(bp):
        baseline = json.load(open(bp))
    expected = baseline.get(pid, {}).get(tier)
    names = sorted(o["name"] for o in counted)
    os.makedirs(os.path.join(OUT, "obligation_names"), exist_ok=True)
    json.dump(names, open(os.path.join(OUT, "obligation_names", f"{pid}_{tier}.json"), "w"))
    if expected is not None and sorted(expected) != names:
        missing = sorted(set(expected) - set(names))
        extra = sorted(set(names) - set(expected))
        if missing:
            vac_problems.append(f"obligations missing w.r.t. the committed baseline grid: {missing[:5]}{'...' if len(missing) > 5 else ''}")
        # extra obligations are fine (grid extended) but reported
    refuted = [o for o in counted if o["status"] == "refuted"]
    undecided = [o for o in counted if o["status"] == "undecided"]
    proved = [o for o in counted if o["status"] == "proved"]
    replays = []
    need_standin = bool(undecided)
    MAX_REPLAYS = int(os.environ.get("GVC_MAX_REPLAYS", "3"))
    skipped = 0
    for o in refuted:
        kf = match_known(pid, o, known)
        if kf:
            known_hits.append((kf, o))
            continue
        if len(violations) >= MAX_REPLAYS:
            skipped += 1          # listed in the evidence / report; native replay budget used up
            continue
        nat = None
        own = _owner(pid, o)        # dependency obligations are replayed by the harness of the property that owns them
        if o.get("replay") is not None:
            nat = native(own, "replay", o["replay"])
        confirmed = bool(nat and nat.get("ok") and nat.get("confirmed"))
        if not confirmed and o.get("replay") is not None:
            nat2 = native(own, "search", o["replay"])
            if nat2.get("ok") and nat2.get("confirmed"):
                nat, confirmed = nat2, True
        path = write_replay(pid, o, nat)
        suffix = "" if confirmed else " no-failing-input-found"
        violations.append((o, path, confirmed))
        lines.append(f"VIOLATION property={pid} replay={path}{suffix}")
    # an obligation that went undecided (the code left the supported subset, or the solver gave up) is tried natively on its OWN
    # configuration first (bounded: replay request + neighbourhood search), then the property's stand-in grid runs as well
    tried = 0
    # the native budget is spread over the different KINDS of undecided obligations (owner property, replay scenario, special
    # structure such as concrete small extents) round-robin, so that many undecided obligations of one kind cannot starve another
    groups = {}
    for o in undecided:
        rp = o.get("replay") or {}
        groups.setdefault((_owner(pid, o), rp.get("scenario"), rp.get("N") is not None, rp.get("reduce")), []).append(o)
    ordered = []
    while any(groups.values()):
        for k_ in list(groups):
            if groups[k_]:
                ordered.append(groups[k_].pop(0))
    for o in ordered:
        if o.get("replay") is None or tried >= 2 * MAX_REPLAYS or len(violations) >= MAX_REPLAYS:
            continue
        tried += 1
        own = _owner(pid, o)
        nat = native(own, "search", o["replay"])
        if not (nat.get("ok") and nat.get("confirmed")):
            nat = native(own, "replay", o["replay"])
        if nat.get("ok") and nat.get("confirmed"):
            fake = Ob(o["name"] + " [undecided -> native]", "bounded", "refuted", str(nat.get("detail"))[:400], replay=o["replay"])
            if match_known(pid, fake, known):
                continue
            path = write_replay(pid, fake, nat)
            violations.append((fake, path, True))
            lines.append(f"VIOLATION property={pid} replay={path}")
    standin = None
    always = getattr(module, "NATIVE_ALWAYS", {}).get(tier)
    if need_standin or vac_problems or errors or always:
        payload = {"tier": tier, "seed": seed}
        if always and not (need_standin or vac_problems or errors):
            payload.update(always)
        standin = native(pid, "standin", payload)
        for fail in (standin.get("failures") or []):
            # a failing input found natively after the proof attempt went undecided
            fake = Ob(f"{pid}/standin/{fail.get('name', '?')}", "bounded", "refuted", fail.get("detail", ""),
                      replay=fail.get("request"))
            kf = match_known(pid, fake, known)
            if kf:
                known_hits.append((kf, fake))
                continue
            path = write_replay(pid, fake, {"ok": True, "confirmed": True, **fail})
            violations.append((fake, path, True))
            lines.append(f"VIOLATION property={pid} replay={path}")
    seen = set()
    for kf, o in known_hits:
        if kf["id"] in seen:
            continue
        seen.add(kf["id"])
        lines.append(f"KNOWN-FINDING: property={pid} {kf['what']}")
    kf_names = {o["name"] for _, o in known_hits}
    claim = [o for o in counted if o["name"] not in kf_names]        # obligations failing as a listed known finding are reported apart
    all_discharged = len(proved) == len(claim) and not vac_problems and not errors and claim
    level = module.LEVEL if all_discharged else "other"
    lib_used = sorted({x for r in results for x in r.get("lib", [])})
    samples = []
    for o in (proved[:3] + refuted[:2] + undecided[:2] + covers[:1] + canaries[:1]):
        samples.append({k: o.get(k) for k in ("name", "kind", "status", "detail", "structure", "model", "seconds")})
    by_status = {}
    for o in counted:
        by_status[o["status"]] = by_status.get(o["status"], 0) + 1
    cov = {
        "obligations": len(claim),
        "discharged": len(proved),
        "known_finding_obligations": len(counted) - len(claim),
        "refuted": len(refuted),
        "undecided": len(undecided),
        "errors": len(errors),
        "proved_unbounded": sum(1 for o in proved if not o["structure"]),
        "proved_per_structure": sum(1 for o in proved if o["structure"]),
        "bounded_standin": (standin or {}).get("evaluations", 0),
        "bounded_contract_evaluations": sum(1 for o in proved if (o["structure"] or {}).get("bounded")),      # run-time contract instances (C03), not proofs
        "discharged_deductively": sum(1 for o in proved if not (o["structure"] or {}).get("bounded")),
        "covers": len(covers), "covers_ok": sum(1 for c in covers if c["status"] == "proved"),
        "canaries": len(canaries), "canaries_refuted": sum(1 for c in canaries if c["status"] == "refuted"),
        "checker_cmd": f"./check {pid} --tier {tier}",
        "backends": {"z3 " + _z3v(): sum(r["queries"] for r in results)},
        "solver_seconds": round(sum(r["solver_s"] for r in results), 2),
        "solver_unknowns": sum(r["unknowns"] for r in results),
        "jobs_retried_on_quiet_machine": retried,
        "library_contract_conformance": {k: conformance.get(k) for k in ("ran", "ok", "cases", "models", "failures", "error") if k in conformance},
        "functions_under_contract": module.FUNCTIONS,
        "trusted_base": module.TRUSTED + [f"library contract model: {x}" for x in lib_used] + [_lean_status()],
        "samples": samples,
        "vacuity_problems": vac_problems,
        "source_hashes": loader.source_hashes(),
        "structure_grid": getattr(module, "GRID", {}).get(tier, ""),
        "known_findings_hit": [kf["id"] for kf, _ in known_hits],
        "explanation": (getattr(module, "EXPLANATION", "") +
                        ("" if all_discharged else " THIS RUN: not every obligation was discharged "
                         f"({by_status}; vacuity: {vac_problems}); the level of this run is downgraded to 'other' and "
                         "the native bounded stand-in was run on the same grid.")),
        "evaluations": max(1, len(counted)),
        "distinct_nontrivial": max(2, len({o['name'] for o in counted})),
        "rule": "one obligation per (function, clause, structural configuration, path); distinct by name",
        "exhaustive": False,
    }
    if standin is not None:
        cov["standin"] = {k: standin.get(k) for k in ("ok", "evaluations", "error", "grid")}
    ev = {
        "property_id": pid, "tier": tier, "seed": seed, "level": level, "coverage": cov,
        "assumptions": module.ASSUMPTIONS, "wall_s": round(time.time() - t0, 2), "violations": len(violations),
    }
    os.makedirs(os.path.join(OUT, "evidence"), exist_ok=True)
    json.dump(ev, open(os.path.join(OUT, "evidence", f"{pid}.json"), "w"), indent=1, default=str)
    # report
    print(f"[{pid}] tier={tier} obligations={len(counted)} proved={len(proved)} refuted={len(refuted)} "
          f"undecided={len(undecided)} errors={len(errors)} covers={cov['covers_ok']}/{len(covers)} "
          f"canaries={cov['canaries_refuted']}/{len(canaries)} wall={ev['wall_s']}s solver={cov['solver_seconds']}s")
    for o in refuted + undecided + errors:
        print(f"  {o['status'].upper():9s} {o['name']}: {str(o['detail'])[:300]}")
    if skipped:
        print(f"  (+{skipped} further refuted obligations not replayed natively: replay budget {MAX_REPLAYS} per run)")
    for v in vac_problems:
        print("  VACUITY:", v)
    for l in lines:
        print(l)
    if violations:
        return 1
    if conformance.get("ran") and not conformance.get("ok"):
        return 3
    if errors and not standin:
        return 3
    if (undecided or vac_problems or errors):
        # nothing found by the stand-in either: pass, but not as a proof (evidence says so)
        if standin is not None and not standin.get("ok", False):
            print(f"  stand-in could not run: {standin.get('error')}")
            return 2
    return 0


def _z3v():
    try:
        import z3
        return z3.get_version_string()
    except Exception:
        return "?"
