"""C14 -- no cross-talk between batch entries, channels or tensor types."""
import itertools
import numpy as np
import z3
from .. import sym, arr, lib
from ..sym import SInt, zi, mk
from ..arr import Atom, Prod, Sum, Br, Flat
from ..core import Ob, guard
from ..loader import load
from ..specs.act import act_sym, rotated_flags
from .common import World, cmp_blocks, all_paths, cover, geom, sint
from . import c02

LEVEL = "proof"
MANIFEST = {
    "category": "proof",
    "technique": "contract-based deductive verification: the real per-image MultiImage operations (flatten leading axes -> vmap -> restore) executed with independent symbolic sizes for every leading axis; post-condition MI.op(x)[t][lead.., rest] == single_op(x[t][lead..])[rest] discharged by z3; model-level vmap clause: assumed JAX contract + bounded native stand-in",
    "text": "For times_group_element, norm, average_pool, get_component / batch_get_component (and to_images with enumerated channel counts) the multi-image operation is executed on blocks with 0-3 leading axes of independent symbolic sizes, non-square symbolic extents and several tensor types, and proved element-wise equal to the single-image definition applied to exactly the image at the same leading index: nothing from another batch entry, channel or type can enter. The component-index mapping (type, channel, tensor component) is proved as documented. Tests use equal sizes and one or two leading axes.",
    "note": "the clause 'a model applied through vmap returns per entry what it returns alone' rests on the assumed contract vmap(f)(X)[i] = f(X[i]); its ginjax side (no batch statistics on the equivariant path) is an obligation on the real constructors / __call__ of every equivariant architecture (no layer with cross-sample state in the object graph; a state handed in comes back untouched and is never read) plus the bounded native stand-in (replace / permute the other batch entries); to_images iterates channels in Python (channel counts enumerated); average_pool goes through the convolution contract of C04",
}
FUNCTIONS = ["models.ConvBlock / ResNet / DilResNet / UNet (equivariant): constructors and __call__ (no cross-sample state)", "MultiImage.times_group_element", "MultiImage.norm", "MultiImage.average_pool", "MultiImage.get_component", "MultiImage.batch_get_component",
             "MultiImage.to_images", "functional_geometric_image.norm", "functional_geometric_image.average_pool", "functional_geometric_image.times_group_element"]
TRUSTED = ["CPython for the concrete part", "structured-array engine", "z3", "vmap contract vmap(f)(X)[i] = f(X[i]) (assumed, JAX)",
           "act_spec (C02) as the single-image action"]
ASSUMPTIONS = ["reals not floats", "sqrt uninterpreted with its defining axiom", "signatures enumerated", "model-level vmap clause: assumed + bounded native stand-in, not proved"]
EXPLANATION = "Unbounded in every leading-axis size, channel count and spatial extent; enumerated in D, signature, number of leading axes, group elements."
GRID = {"quick": "D=2; 1-3 leading axes; group elements {rot90, reflection, 3-cycle (D=3)}; signatures [(0,0),(1,0)], [(1,1),(0,1),(2,0)]",
        "thorough": "D in {1,2,3}; 0-3 leading axes; all group elements of B_2, 12 of B_3"}
NATIVE_ALWAYS = {"quick": {"only": "vmap"}, "thorough": {"only": "all"}}


def jobs(tier):
    out = []
    q = tier == "quick"
    for D in ([2, 3] if q else [1, 2, 3]):
        n = len(c02.ops(D))
        gsel = {1: [0, 1], 2: [1, 4, 6] if q else list(range(8)), 3: [9, 24, 33] if q else [1, 5, 9, 12, 17, 24, 26, 31, 33, 40, 44, 47]}[D]
        for nlead in ([1, 2, 3] if q else [0, 1, 2, 3]):
            if D == 3 and q and nlead == 3:
                continue
            out.append(("gvc.props.c14", "ob_action", dict(D=D, nlead=nlead, gs=gsel)))
            if nlead >= 1:
                for sig in ([[(0, 0), (1, 0)], [(1, 1), (0, 1), (2, 0)]] if D > 1 else [[(0, 0), (0, 1)]]):
                    out.append(("gvc.props.c14", "ob_norm", dict(D=D, nlead=nlead, sig=sig)))
        for sig in ([[(0, 0), (1, 0)], [(1, 1), (0, 0), (2, 0)]] if D > 1 else [[(0, 0), (0, 1)]]):
            for batched in [False, True]:
                out.append(("gvc.props.c14", "ob_component", dict(D=D, sig=sig, batched=batched)))
                if sig[0] == (0, 0) and len(sig) == 2:
                    out.append(("gvc.props.c14", "ob_component_slice", dict(D=D, batched=batched)))
        out.append(("gvc.props.c14", "ob_to_images", dict(D=D)))
        if D > 1:
            for nlead in ([1, 2] if q else [0, 1, 2, 3]):
                for sig in [[(1, 0), (0, 0)], [(0, 1), (1, 1), (0, 0)]] + ([] if q else [[(0, 0), (1, 0)]]):
                    if D == 3 and len(sig) == 3 and q:
                        continue
                    out.append(("gvc.props.c14", "ob_average_pool", dict(D=D, nlead=nlead, sig=sig)))
    from . import c07
    seen_arch = set()
    for c in c07.configs(tier):
        key = (c["arch"], c.get("group_norm"), c["D"]) if q else None
        if q and key in seen_arch:
            continue
        seen_arch.add(key)
        out.append(("gvc.props.c14", "ob_model_no_batch_state", dict(cfg=c)))
    return out


def ob_action(D, nlead, gs):
    """MultiImage.times_group_element == the single-image action at every leading index (independent leading sizes)"""
    Gm = geom()
    G = c02.ops(D)
    obs = []
    arr.ENUM_SMALL[0] = 3
    flags = (True, False, False)[:D]
    types = [(1, 1), (0, 0)] if D > 1 else [(0, 1), (0, 0)]
    for gi in gs:
        g = np.asarray(G[gi])

        def body(g=g):
            W = World(D)
            lead = W.lead(nlead, "L")
            blocks = {key: arr.source(f"X{key[0]}{key[1]}", lead + W.spatial + [Atom(D) for _ in range(key[0])]) for key in types}
            spec = {key: act_sym(b, D, key[0], key[1], g, lead=nlead) for key, b in blocks.items()}
            return all_paths(W.pre, lambda: Gm.MultiImage(dict(blocks), D, flags).times_group_element(g),
                             lambda r: cmp_blocks(r, spec, D, rotated_flags(flags, g), list(blocks.keys()), "per-image action"))
        o = guard(f"C14/MultiImage.times_group_element/D={D},lead={nlead},g#{gi}/ensures:per-image", "ensures", body, dict(D=D, nlead=nlead, g=g.tolist()))
        o["replay"] = dict(scenario="action", D=D, nlead=nlead, g=g.tolist(), model=o.get("model"))
        obs.append(o)
    return obs


def ob_norm(D, nlead, sig):
    Gm = geom()
    W = World(D)
    lead = W.lead(nlead - 1, "L")
    chans = {k: Atom(sint(f"c{k[0]}{k[1]}", W.pre), f"c{k[0]}{k[1]}") for k in sig}
    blocks = {k: arr.source(f"X{k[0]}{k[1]}", lead + [chans[k]] + W.spatial + [Atom(D) for _ in range(k[0])]) for k in sig}
    structure = dict(D=D, nlead=nlead, sig=sig)
    cdim = arr.mksum([chans[k] for k in sig])
    nb = nlead - 1

    def elem(idx):
        ci = idx[nb]
        b, c = (0, ci) if len(sig) == 1 else (ci.b, ci.idx)
        k = sig[b]
        s = 0
        for u in itertools.product(range(D), repeat=k[0]):
            v = blocks[k].elem(list(idx[:nb]) + [c] + list(idx[nb + 1:]) + list(u))
            s = arr.t_bin("add", s, arr.t_bin("mul", v, v))
        return lib.SQRT(arr.t_z3(s, True))

    spec = {(0, 0): arr.SArray(lead + [cdim] + W.spatial, elem)}
    o = guard(f"C14/MultiImage.norm/D={D},lead={nlead},sig={sig}/ensures:per-image-norm+channel-order", "ensures",
              lambda: all_paths(W.pre, lambda: Gm.MultiImage(dict(blocks), D, True).norm(), lambda r: cmp_blocks(r, spec, D, True, [(0, 0)], "norm")), structure)
    o["replay"] = dict(scenario="norm", D=D, nlead=nlead, sig=sig, model=o.get("model"))
    return [o]


def ob_component(D, sig, batched):
    """get_component(i): component index i = offset(type) + channel*D^k + tensor component picks exactly that
    channel / component, for every future step"""
    Gm = geom()
    obs = []
    for bsel, key in enumerate(sig):
        W = World(D)
        Fst = Atom(sint("F", W.pre), "F")
        lead = W.lead(1, "batch") if batched else []
        chans = {k: Atom(sint(f"c{k[0]}{k[1]}", W.pre), f"c{k[0]}{k[1]}") for k in sig}
        blocks = {k: arr.source(f"X{k[0]}{k[1]}", lead + [arr.mkprod([chans[k], Fst])] + W.spatial + [Atom(D) for _ in range(k[0])]) for k in sig}
        k = key[0]
        for u in list(itertools.product(range(D), repeat=k))[:: max(1, D ** k - 1)]:
            pre = list(W.pre)
            c = sint("chan", pre, 0)
            pre.append(zi(c) < zi(chans[key].ext))
            off = 0
            for kk in sig[:bsel]:
                off = off + chans[kk].ext * (D ** kk[0])
            flat_u = 0
            for v in u:
                flat_u = flat_u * D + v
            comp = mk(zi(off) + zi(c) * (D ** k) + flat_u)
            structure = dict(D=D, sig=sig, type=list(key), tensor_component=list(u), batched=batched)

            def run(comp=comp):
                mi = Gm.MultiImage(dict(blocks), D, True)
                return mi.batch_get_component(comp, Fst.ext) if batched else mi.get_component(comp, Fst.ext)

            def post(r, key=key, u=u, c=c):
                src = blocks[key]
                nl = len(lead)
                spec = arr.SArray(lead + [Fst] + W.spatial, lambda idx: src.elem(list(idx[:nl]) + [(c.e if isinstance(c, SInt) else c, idx[nl])] + list(idx[nl + 1:]) + list(u)))
                return cmp_blocks(r, {(0, 0): spec}, D, True, [(0, 0)], "component")

            fn = "batch_get_component" if batched else "get_component"
            o = guard(f"C14/MultiImage.{fn}/D={D},sig={sig},type={key},u={list(u)}/ensures:component-mapping", "ensures",
                      lambda run=run, post=post, pre=pre: all_paths(pre, run, post), structure)
            o["replay"] = dict(scenario="component", model=o.get("model"), **structure)
            obs.append(o)
            if bsel == 0 and u == tuple([0] * k):
                obs.append(cover(f"C14/MultiImage.{fn}/D={D},sig={sig},type={key}/cover:pre", pre, structure))
                # canary: tensor-component-major instead of channel-major numbering must be refuted (needs k >= 1)
                if k >= 1:
                    comp_bad = mk(zi(off) + flat_u * zi(chans[key].ext) + zi(c))

                    def run_bad(comp_bad=comp_bad):
                        mi = Gm.MultiImage(dict(blocks), D, True)
                        return mi.batch_get_component(comp_bad, Fst.ext) if batched else mi.get_component(comp_bad, Fst.ext)
                    u1 = tuple([0] * (k - 1) + [1])
                    flat1 = 1
                    comp_bad = mk(zi(off) + flat1 * zi(chans[key].ext) + zi(c))

                    def post_bad(r, key=key, c=c, u1=u1):
                        src = blocks[key]
                        nl = len(lead)
                        spec = arr.SArray(lead + [Fst] + W.spatial, lambda idx: src.elem(list(idx[:nl]) + [(c.e, idx[nl])] + list(idx[nl + 1:]) + list(u1)))
                        return cmp_blocks(r, {(0, 0): spec}, D, True, [(0, 0)], "component (wrong numbering)")
                    obs.append(guard(f"C14/MultiImage.{fn}/D={D},sig={sig},type={key}/canary:component-major-numbering", "canary",
                                     lambda run_bad=run_bad, post_bad=post_bad, pre=pre: all_paths(pre + [zi(chans[key].ext) >= 2], run_bad, post_bad), structure))
    return obs


def ob_component_slice(D, batched):
    """get_component / batch_get_component with a SLICE of components (channel counts concrete so that the slice bounds are,
    everything else symbolic): output channel j*F + f is component start+j at future step f of the SAME batch entry"""
    Gm = geom()
    obs = []
    old_enum = arr.ENUM_SMALL[0]
    arr.ENUM_SMALL[0] = 4          # the selected-component digit is enumerated
    sig = [(0, 0), (1, 0)] if D > 1 else [(0, 0), (0, 1)]
    nch = {sig[0]: 2, sig[1]: 1}
    comps = []           # global component number -> (type, channel, tensor component tuple)
    for k in sig:
        for c in range(nch[k]):
            for u in itertools.product(range(D), repeat=k[0]):
                comps.append((k, c, u))
    for (a, b) in [(1, 3), (2, len(comps)), (0, len(comps)), (1, 2)]:
        W = World(D)
        Fst = Atom(sint("F", W.pre), "F")
        lead = W.lead(1, "batch") if batched else []
        blocks = {k: arr.source(f"X{k[0]}{k[1]}", lead + [arr.mkprod([Atom(nch[k]), Fst])] + W.spatial + [Atom(D) for _ in range(k[0])]) for k in sig}
        structure = dict(D=D, sig=sig, channels=[nch[k] for k in sig], component=f"slice({a},{b})", batched=batched)

        def run(a=a, b=b, blocks=blocks, Fst=Fst):
            mi = Gm.MultiImage(dict(blocks), D, True)
            return mi.batch_get_component(slice(a, b), Fst.ext) if batched else mi.get_component(slice(a, b), Fst.ext)

        def post(r, a=a, b=b, blocks=blocks, Fst=Fst, lead=lead, W=W):
            nl = len(lead)
            sel = comps[a:b]

            def elem(idx):
                j, f = idx[nl]
                if arr.is_z3(j):
                    raise sym.OutOfReach("component digit must be concrete")
                k, c, u = sel[int(j)]
                return blocks[k].elem(list(idx[:nl]) + [(c, f)] + list(idx[nl + 1:]) + list(u))
            spec = arr.SArray(lead + [arr.mkprod([Atom(len(sel)), Fst])] + W.spatial, elem)
            return cmp_blocks(r, {(0, 0): spec}, D, True, [(0, 0)], "component slice")

        fn = "batch_get_component" if batched else "get_component"
        o = guard(f"C14/MultiImage.{fn}/D={D},component=slice({a},{b})/ensures:per-entry-component-selection", "ensures",
                  lambda run=run, post=post, W=W: all_paths(W.pre, run, post), structure)
        o["replay"] = dict(scenario="component_slice", model=o.get("model"), a=a, b=b, **structure)
        obs.append(o)
    arr.ENUM_SMALL[0] = old_enum
    return obs


def ob_to_images(D):
    """to_images on (batch, channel) blocks: image number b*C + c of a type is x[t][b, c] (sizes enumerated: python loop)"""
    Gm = geom()
    obs = []
    for (nb, nc) in [(2, 2), (1, 3)]:
        W = World(D)
        types = [(1, 0), (0, 1)] if D > 1 else [(0, 1), (0, 0)]
        blocks = {k: arr.source(f"X{k[0]}{k[1]}", [Atom(nb), Atom(nc)] + W.spatial + [Atom(D) for _ in range(k[0])]) for k in types}

        def post(imgs):
            exp = [(k, b, c) for k in types for b in range(nb) for c in range(nc)]
            if len(imgs) != len(exp):
                return "refuted", f"{len(imgs)} images, expected {len(exp)}", None
            for gi, (k, b, c) in zip(imgs, exp):
                if (gi.k, gi.parity, gi.D) != (k[0], k[1], D):
                    return "refuted", "image metadata", None
                spec = arr.SArray(W.spatial + [Atom(D) for _ in range(k[0])], lambda idx, k=k, b=b, c=c: blocks[k].elem([b, c] + list(idx)))
                st = arr.compare(gi.data, spec, f"image ({k},{b},{c})")
                if st[0] != "proved":
                    return st
            return "proved", f"{len(imgs)} images", None
        o = guard(f"C14/MultiImage.to_images/D={D},batch={nb},channels={nc}/ensures:per-image", "ensures",
                  lambda post=post, W=W, blocks=blocks: all_paths(W.pre, lambda: Gm.MultiImage(dict(blocks), D, True).to_images(), post), dict(D=D, batch=nb, channels=nc))
        o["bounded_in"] = "batch and channel counts (python loop)"
        obs.append(o)
    return obs


def ob_average_pool(D, nlead, sig):
    """MultiImage.average_pool(2): block t at leading index l is the patch mean of exactly the image x[t][l] -- for every
    insertion order of the types (sig is given unsorted, too), independent symbolic leading sizes, symbolic channel counts and
    spatial extents 2h: out[t][l, i, u] = 2^-D sum_{a in {0,1}^D} x[t][l, 2i + a, u]"""
    Gm = geom()
    W = World(D)
    pre = W.pre
    half = [sint(f"h{d}", pre) for d in range(D)]
    sp = [Atom(mk(zi(h) * 2), f"N{d}") for d, h in enumerate(half)]
    lead = W.lead(nlead - 1, "L") if nlead >= 1 else []
    chans = {k: Atom(sint(f"c{k[0]}{k[1]}", pre), f"c{k[0]}{k[1]}") for k in sig}
    ldims = {k: (lead + [chans[k]] if nlead >= 1 else []) for k in sig}
    blocks = {k: arr.source(f"X{k[0]}{k[1]}", ldims[k] + sp + [Atom(D) for _ in range(k[0])]) for k in sig}
    structure = dict(D=D, nlead=nlead, sig=sig)
    spec = {}
    for k in sig:
        def elem(idx, k=k):
            nl = len(ldims[k])
            tot = 0
            for a in itertools.product([0, 1], repeat=D):
                src = [mk(zi(idx[nl + d]) * 2 + a[d]).e if isinstance(mk(zi(idx[nl + d]) * 2 + a[d]), SInt) else mk(zi(idx[nl + d]) * 2 + a[d]) for d in range(D)]
                tot = arr.t_bin("add", tot, blocks[k].elem(list(idx[:nl]) + src + list(idx[nl + D:])))
            return arr.t_bin("mul", z3.RealVal(1) / (2 ** D), arr.t_z3(tot, True))
        spec[k] = arr.SArray(ldims[k] + [Atom(h, f"H{d}") for d, h in enumerate(half)] + [Atom(D) for _ in range(k[0])], elem)
    o = guard(f"C14/MultiImage.average_pool/D={D},lead={nlead},sig={sig}/ensures:per-image-patch-mean,types-in-order", "ensures",
              lambda: all_paths(pre, lambda: Gm.MultiImage(dict(blocks), D, True).average_pool(2),
                                lambda r: cmp_blocks(r, spec, D, True, list(sig), "average_pool")), structure)
    o["replay"] = dict(scenario="avgpool", D=D, nlead=nlead, model=o.get("model"))
    return [o]


def ob_model_no_batch_state(cfg):
    """ginjax side of the clause 'a model applied through vmap returns per entry what it returns alone' (the vmap contract
    vmap(f)(X)[i] = f(X[i]) itself is assumed): on the equivariant path the real model built by the real constructor is a
    function of its own input only -- its object graph holds no layer with cross-sample state (no BatchNorm / LayerWrapperAux,
    no `axis_name`), and a state object handed in as `batch_stats` comes back as that same object (never read, never replaced),
    for symbolic channel counts, depth and extents."""
    from . import nets
    from .. import lib as _lib
    M = load()
    G, Ml = M["ginjax.geometric"], M["ginjax.ml.layers"]
    D = cfg["D"]
    name = f"C14/model[{cfg['arch']}]/" + ",".join(f"{k_}={cfg[k_]}" for k_ in sorted(cfg) if k_ not in ("arch",)) + "/ensures:no-cross-sample-state"

    def body():
        undo = nets.install()
        S = nets.Session(D, None)
        nets.SESSION[0] = S
        try:
            sym.reset(pre=[], todo=[])
            pre = sym.CTX.path
            model, X, info = nets.build_model(cfg, None, pre)
            seen, stack, bad = set(), [("model", model)], []
            while stack:
                path, x = stack.pop()
                if id(x) in seen:
                    continue
                seen.add(id(x))
                if isinstance(x, _lib._Any) and "BatchNorm" in x._n:
                    bad.append(f"{path}: {x._n}")
                if type(x).__name__ in ("LayerWrapperAux", "BatchNorm"):
                    bad.append(f"{path}: {type(x).__name__}")
                if isinstance(x, _lib.Module):
                    for n_, v in vars(x).items():
                        if n_ == "axis_name" and v is not None:
                            bad.append(f"{path}.{n_} = {v!r}")
                        if n_ == "batch_norm" and v is not None:
                            bad.append(f"{path}.{n_} is set on the equivariant path")
                        stack.append((f"{path}.{n_}", v))
                elif isinstance(x, (list, tuple)):
                    stack += [(f"{path}[{i}]", v) for i, v in enumerate(x)]
                elif isinstance(x, dict):
                    stack += [(f"{path}[{k_!r}]", v) for k_, v in x.items()]
            if bad:
                return "refuted", "layer with cross-sample state on the equivariant path: " + "; ".join(bad[:3]), None
            sentinel = _lib.Poison("batch_stats") if hasattr(_lib, "Poison") else object()
            out = model(G.MultiImage(dict(X), D, info["flags"]), sentinel)
            if not (isinstance(out, tuple) and len(out) == 2):
                return "refuted", f"model(x, state) does not return (y, state): {type(out).__name__}", None
            if out[1] is not sentinel:
                return "refuted", f"the state handed to an equivariant model is not returned unchanged: {out[1]!r}", None
            return "proved", f"{len(seen)} objects scanned; state passed through untouched (any use of it raises)", None
        finally:
            undo()
            nets.SESSION[0] = None
    o = guard(name, "ensures", body, dict(cfg))
    o["replay"] = dict(scenario="vmap")
    return [o]
