"""C01 -- convolution commutes with the symmetry group (rotations, reflections, shifts)."""
import itertools
import numpy as np
import z3
from .. import sym, arr, lib
from ..sym import SInt, zi, mk
from ..arr import Atom
from ..core import Ob, guard
from ..loader import load
from ..specs.act import act_sym, rotated_flags, det_of
from ..specs.conv import conv_sym
from .common import World, all_paths, cover, geom, sint
from . import c02

LEVEL = "proof"
MANIFEST = {
    "category": "proof",
    "technique": "contract-based deductive verification, relational mode on the real code: GeometricImage.convolve_with executed on (A, C) and on (g.A, g.C) (the specified action, flags travelling with their axes) for every g in B_d, symbolic image extents and pixel / filter values; obligation conv(g.A, g.C) == g._{(k+k', p+p')} conv(A, C) element-wise + metadata; padding helpers proved symmetric for all M, dilation; cyclic translations on torus axes; z3",
    "text": "For every g in B_d (exhaustive; d=2: 8, d=3: 48 in thorough / 12 covering all conjugacy classes in quick), every enumerated configuration (tensor orders and parities of image and filter, filter sides odd / even / non-square, filter dilation, image dilation, boundary treatment TORUS / SAME / VALID / symmetric explicit with a SYMBOLIC amount, mixed per-axis torus flags) and ALL image extents and real values, the real convolution of the transformed image with the transformed filter equals the transformed convolution with type (k+k', p+p' mod 2), D and flags carried; get_same_padding / the torus padding are symmetric for all filter sides and dilations (C04); on torus axes the convolution commutes with every cyclic shift (symbolic shift). Tests check square images and a few elements.",
    "note": "reals not floats; relies on the assumed library contracts of C04 (conv_general_dilated, pad wrap); unit stride as in the statement; filter sides <= 3 (even: 2) and dilations <= 2 enumerated; the bilinearity-on-a-basis argument is not needed because pixel and filter values are symbolic (opaque functions)",
}
FUNCTIONS = ["GeometricImage.convolve_with", "functional_geometric_image.convolve", "functional_geometric_image.convolve_ravel",
             "functional_geometric_image.get_torus_expanded", "functional_geometric_image.get_same_padding", "functional_geometric_image.pre_tensor_product_expand",
             "GeometricImage.__init__"]
TRUSTED = ["CPython for the concrete part", "structured-array engine", "z3", "act_spec as the specified action on images and filters",
           "ASSUMED library contracts: lax.conv_general_dilated, jnp.pad(wrap)"]
ASSUMPTIONS = ["reals not floats", "unit stride; symmetric boundary treatment (pre-conditions from the statement)", "image extent >= dilated filter extent"]
EXPLANATION = "Exhaustive in g (quick: class representatives for d=3), unbounded in image extents, padding amount and values; enumerated in types, filter sides, dilations, padding kind, flags."
GRID = {"quick": "d=2: all 8 g x 12 sampled configurations; d=3: 12 g x 4 configurations; translations: d=2, 3 configurations",
        "thorough": "d=2: all g x 40 configurations; d=3: all 48 g x 10 configurations"}


def configs(D, tier):
    q = tier == "quick"
    types = [((0, 0), (0, 0)), ((1, 0), (0, 1)), ((0, 1), (1, 1)), ((1, 1), (1, 0))] + ([] if q else [((2, 0), (1, 1)), ((1, 0), (2, 1))])
    Ms = [(3,) * D, (1, 3, 3)[:D], (2,) * D] + ([] if q else [(3, 1, 3)[:D], (2, 3, 3)[:D]])
    out = []
    for tt, M, rd, ld, pd in itertools.product(types, Ms, [1, 2], [None, 2], ["TORUS", None, "SAME", "VALID", "explicit"]):
        even = any(m % 2 == 0 for m in M)
        if even and pd in ("TORUS", None, "SAME"):
            continue
        if pd in ("TORUS", None) and ld is not None and (q or rd != 1):
            continue      # wrap-then-dilate transposed convolution: two explicit configurations in the quick tier (below), the rd=1 ones in thorough
        out.append(dict(k=tt[0][0], p=tt[0][1], kf=tt[1][0], pf=tt[1][1], M=list(M), rdil=rd, ldil=ld, padding=pd))
    if q and D == 3:
        # the quick tier keeps d=3 to four representative configurations (the heavy combinations of image dilation,
        # filter dilation and symbolic explicit padding are in the thorough tier)
        mk_ = lambda k, p, kf, pf, M, rd, ld, pd: dict(k=k, p=p, kf=kf, pf=pf, M=list(M), rdil=rd, ldil=ld, padding=pd)
        sel = [mk_(0, 0, 0, 0, (3, 3, 3), 1, None, "TORUS"), mk_(1, 1, 1, 0, (1, 3, 3), 1, None, "SAME"),
               mk_(0, 1, 1, 1, (2, 2, 2), 1, None, "explicit"), mk_(1, 0, 0, 1, (3, 3, 3), 2, None, "VALID")]
    else:
        step = (9 if q else (3 if D == 2 else 11))
        sel = [c for i, c in enumerate(out) if i % step == 0]
    flagsets = list(itertools.product([True, False], repeat=D))
    for i, c in enumerate(sel):
        c["flags"] = list(flagsets[(i * 3 + 1) % len(flagsets)])
    if q and D == 2:
        # image dilation on toroidal axes (padding 'TORUS' / None): the wrapped image is dilated, the covariance clause of the
        # statement covers it (the translation clause does not)
        sel.append(dict(k=1, p=0, kf=0, pf=1, M=[3, 3], rdil=1, ldil=2, padding="TORUS", flags=[True, True]))
        sel.append(dict(k=0, p=1, kf=1, pf=0, M=[3, 1], rdil=1, ldil=2, padding=None, flags=[True, False]))
    return sel


def gsel(D, tier):
    n = len(c02.ops(D))
    if D == 2 or tier != "quick":
        return list(range(n))
    return [0, 1, 5, 9, 12, 17, 24, 26, 31, 33, 40, 47]


def jobs(tier):
    out = []
    for D in [2, 3]:
        for c in configs(D, tier):
            gs = gsel(D, tier)
            for i in range(0, len(gs), 4):
                out.append(("gvc.props.c01", "ob_covariant", dict(D=D, cfg=c, gs=gs[i:i + 4])))
    for c in [dict(k=0, kf=0, M=[3, 3], rdil=1), dict(k=1, kf=1, M=[3, 1], rdil=2), dict(k=1, kf=0, M=[3, 3], rdil=1)]:
        out.append(("gvc.props.c01", "ob_translation", dict(D=2, cfg=c)))
    # dependency: the statement's "g." is the library's group action; the obligations above use the SPECIFIED action
    # (act_spec), so the real times_group_element entry points must equal it (owned by C02)
    from .common import dep_jobs
    out += dep_jobs("gvc.props.c02", lambda fn, kw: fn in ("ob_array", "ob_entry") and kw["D"] >= 2)
    # toroidal images NARROWER than the reach of the dilated filter: the covariance / translation obligations above carry the
    # pre-condition extent >= reach (single wrap); below it the statement is covered through the definition -- the real
    # convolution equals the periodic direct sum (owned by C04), of which translation covariance is a re-indexing
    out += dep_jobs("gvc.props.c04", lambda fn, kw: fn == "ob_convolve" and kw.get("tag") == "narrow-torus", tier)
    return out


def _pad(c, D, pre):
    if c["padding"] == "explicit":
        p = sint("pad", pre, 0)
        return ((p, p),) * D
    return c["padding"]


def ob_covariant(D, cfg, gs):
    Gm = geom()
    G = c02.ops(D)
    obs = []
    arr.ENUM_SMALL[0] = 3
    k, p, kf, pf, M, rd = cfg["k"], cfg["p"], cfg["kf"], cfg["pf"], tuple(cfg["M"]), cfg["rdil"]
    ld = None if cfg["ldil"] is None else (cfg["ldil"],) * D
    flags = tuple(cfg["flags"])
    cname = ",".join(f"{a}={cfg[a]}" for a in ["k", "p", "kf", "pf", "M", "rdil", "ldil", "padding", "flags"])
    for gi in gs:
        g = np.asarray(G[gi])
        W = World(D)
        pre = W.pre
        pd = _pad(cfg, D, pre)
        for d in range(D):
            pre.append(zi(W.spatial[d].ext) >= rd * (max(M) - 1) + 1)
        A = arr.source("A", W.spatial + [Atom(D) for _ in range(k)])
        C = arr.source("C", [Atom(m) for m in M] + [Atom(D) for _ in range(kf)])
        structure = dict(cfg, D=D, g=g.tolist())

        def body(g=g, A=A, C=C, pre=pre, pd=pd):
            gA, gC = act_sym(A, D, k, p, g), act_sym(C, D, kf, pf, g)
            gflags = rotated_flags(flags, g)
            # the filter dilation / image dilation / explicit padding are per axis and equal on all axes: unchanged by g

            def run():
                r0 = Gm.GeometricImage(A, p, D, flags).convolve_with(Gm.GeometricImage(C, pf, D, True), 1, pd, ld, rd)
                rg = Gm.GeometricImage(gA, p, D, gflags).convolve_with(Gm.GeometricImage(gC, pf, D, True), 1, pd, ld, rd)
                return r0, rg

            def post(res):
                r0, rg = res
                rule = (k + kf, (p + pf) % 2)
                if (r0.k, r0.parity) != rule or (rg.k, rg.parity) != rule:
                    return "refuted", f"declared (k,parity) {(r0.k, r0.parity)} / {(rg.k, rg.parity)} != (k+k', p+p' mod 2) = {rule}", None
                if r0.D != D or tuple(r0.is_torus) != flags or tuple(rg.is_torus) != gflags:
                    return "refuted", f"D / is_torus not carried: {r0.is_torus} {rg.is_torus}", None
                spec = act_sym(r0.data, D, rule[0], rule[1], g)
                return arr.compare(rg.data, spec, "(g.A)*(g.C) vs g.(A*C)")
            return all_paths(pre, run, post)

        o = guard(f"C01/convolve_with/D={D},{cname},g#{gi}/ensures:covariant", "ensures", body, structure)
        o["replay"] = dict(scenario="covariant", model=o.get("model"), **structure)
        obs.append(o)
    obs.append(cover(f"C01/convolve_with/D={D},{cname}/cover:pre#{gs[0]}", pre, dict(cfg, D=D)))
    # canary: with an ASYMMETRIC explicit padding the covariance must be refuted for a reflection
    flip0 = [i for i in gs if np.array_equal(np.abs(G[i]), np.eye(D, dtype=int)) and G[i][0][0] == -1]
    if cfg["padding"] == "explicit" and D == 2 and flip0:
        gi = flip0[0]                      # a reflection of axis 0: low/high padding are exchanged by it
        g = np.asarray(G[gi])
        W = World(D)
        for d in range(D):
            W.pre.append(zi(W.spatial[d].ext) >= rd * (max(M) - 1) + 2)
        A = arr.source("A", W.spatial + [Atom(D) for _ in range(k)])
        C = arr.source("C", [Atom(m) for m in M] + [Atom(D) for _ in range(kf)])

        def canary(g=g, W=W, A=A, C=C):
            pdbad = ((2, 0),) * D
            r0 = Gm.GeometricImage(A, p, D, flags).convolve_with(Gm.GeometricImage(C, pf, D, True), 1, pdbad, None, rd)
            rg = Gm.GeometricImage(act_sym(A, D, k, p, g), p, D, rotated_flags(flags, g)).convolve_with(Gm.GeometricImage(act_sym(C, D, kf, pf, g), pf, D, True), 1, pdbad, None, rd)
            return arr.compare(rg.data, act_sym(r0.data, D, r0.k, r0.parity, g), "asymmetric padding (must break covariance)")
        obs.append(guard(f"C01/convolve_with/D={D},{cname},g#{gi}/canary:asymmetric-padding", "canary", lambda: all_paths(W.pre, canary, lambda r: r), dict(cfg, D=D)))
    return obs


def ob_translation(D, cfg):
    """on toroidal axes (no image dilation) the convolution commutes with every cyclic translation"""
    Gm = geom()
    arr.ENUM_SMALL[0] = 3
    k, kf, M, rd = cfg["k"], cfg["kf"], tuple(cfg["M"]), cfg["rdil"]
    W = World(D)
    pre = W.pre
    for d in range(D):
        pre.append(zi(W.spatial[d].ext) >= rd * (max(M) - 1) + 1)
    tau = [sint(f"tau{d}", pre, 0) for d in range(D)]
    for d in range(D):
        pre.append(zi(tau[d]) < zi(W.spatial[d].ext))
    A = arr.source("A", W.spatial + [Atom(D) for _ in range(k)])
    C = arr.source("C", [Atom(m) for m in M] + [Atom(D) for _ in range(kf)])

    def shift(X):
        def elem(idx):
            src = []
            for d in range(D):
                q = z3.simplify(zi(idx[d]) - zi(tau[d]))
                n = zi(X.dims[d].ext)
                if sym.valid(q >= 0):
                    s = q
                elif sym.valid(q < 0):
                    s = q + n
                else:
                    s = z3.If(q < 0, q + n, q)
                src.append(z3.simplify(s))
            return X.elem(src + list(idx[D:]))
        return arr.SArray(X.dims, elem)

    def run():
        r0 = Gm.GeometricImage(A, 0, D, True).convolve_with(Gm.GeometricImage(C, 0, D, True), 1, "TORUS", None, rd)
        rt = Gm.GeometricImage(shift(A), 0, D, True).convolve_with(Gm.GeometricImage(C, 0, D, True), 1, "TORUS", None, rd)
        return r0, rt

    o = guard(f"C01/convolve_with/D={D},k={k},kf={kf},M={list(M)},rdil={rd}/ensures:commutes-with-cyclic-translations", "ensures",
              lambda: all_paths(pre, run, lambda res: arr.compare(res[1].data, shift(res[0].data), "conv(T A) vs T conv(A)")), dict(cfg, D=D))
    o["replay"] = dict(scenario="translation", model=o.get("model"), D=D, **cfg)
    return [o]
