"""C08 -- normalisation, nonlinearity and pooling blocks commute with the group action."""
import itertools
import numpy as np
import z3
from .. import sym, arr, lib, bigsum
from ..sym import SInt, SReal, zi, mk
from ..arr import Atom
from ..core import Ob, guard
from ..loader import load
from ..specs.act import act_sym, rotated_flags, perm_of, det_of
from .common import World, cmp_blocks, all_paths, cover, geom, sint
from . import c02

LEVEL = "proof"
MANIFEST = {
    "category": "proof",
    "technique": "contract-based deductive verification, relational mode on the real block code: VectorNeuronNonlinear, GroupNorm / LayerNorm (scalar path through the formula contract of eqx.nn.GroupNorm, vector path: GroupNorm against the contract of _group_norm_K1, and _group_norm_K1's real body (centring, covariance, eps, inverse square root, U S U^T) around the assumed contract of jnp.linalg.eigh), average_pool and unpool executed on x and g.x for every g, learnable parameters as free symbols, eps symbolic and positive; z3 with BigSum re-indexing for group statistics; max pooling by norm (functional max_pool, GeometricImage.max_pool, MaxNormPool layer) under the no-ties pre-condition with jnp.argmax as an uninterpreted function carrying its contract and a complete case analysis over its values; bounded native stand-in for the assumed eigh / argmax contracts on every run",
    "text": "For every g in B_d (d=2 all 8, d=3 class representatives), every accepted type incl. pseudo-scalars / pseudo-vectors, learnable scales, biases and mixing weights as arbitrary reals (not the initial values), symbolic positive eps and ALL spatial extents: block(g.x) == g.block(x) for the vector-neuron nonlinearity (channels 1..2 enumerated), group / layer normalisation (channel counts per group symbolic), average pooling and nearest-neighbour unpooling, max pooling by norm (no norm ties inside a patch; functional, image and layer entry points) and the eigh whitening helper _group_norm_K1 (around the assumed eigh contract, every eigenvector sign choice). Tests use the initial parameters (bias 0, scale 1) and eps = 0.",
    "note": "KNOWN FINDING (see known_findings.json): the scalar path of GroupNorm/LayerNorm adds a per-channel bias to pseudo-scalars (0,1); with bias != 0 the reflections break equivariance. _group_norm_K1 is verified around an ASSUMED contract of jnp.linalg.eigh (eigen-decomposition of g C g^T is (LAM, g U diag(+-1)), every sign vector enumerated; simple spectrum; covariance positive semi-definite) and additionally bounded natively; max_pool / MaxNormPool verified under the no-ties pre-condition around the assumed argmax contract; translations (every shift for normalisation / nonlinearity, multiples of the patch length for pooling) have own obligations with a symbolic shift; reals not floats; sqrt / activation uninterpreted",
}
FUNCTIONS = ["ml.layers.VectorNeuronNonlinear.__call__", "ml.layers.GroupNorm.__init__", "ml.layers.GroupNorm.__call__", "ml.layers.LayerNorm.__init__",
             "functional_geometric_image.norm", "functional_geometric_image.average_pool", "GeometricImage.average_pool", "GeometricImage.unpool",
             "MultiImage.average_pool", "ml.layers._group_norm_K1 (own obligations around the assumed eigh contract; GroupNorm calls it through that contract)",
             "functional_geometric_image.max_pool", "GeometricImage.max_pool", "ml.layers.MaxNormPool.__call__"]
TRUSTED = ["CPython for the concrete part", "structured-array engine, BigSum congruence / re-indexing", "z3 (uninterpreted-multiplication abstraction first, then NRA)",
           "ASSUMED: eqx.nn.GroupNorm formula; jnp.linalg.eigh: decomposition of g C g^T is (LAM, g U diag(+-1)) (simple spectrum; repeated eigenvalues by the same spectral-calculus argument), eigenvalues of the covariance >= 0; C04 library contracts", "act_spec"]
ASSUMPTIONS = ["reals not floats", "eps > 0; group variance + eps > 0", "scalar activation is an arbitrary function (uninterpreted)", "no norm ties inside a patch for max pooling (statement's pre-condition)", "jnp.argmax returns an index attaining the maximum (assumed library contract, instantiated per application)", "the covariance handed to eigh is positive semi-definite (it is a Gram matrix); eigenvalues simple"]
EXPLANATION = "Exhaustive in g (d=3: representatives), unbounded in parameters, extents, channel counts per group (normalisation); enumerated in types, channel counts (nonlinearity), groups."
GRID = {"quick": "d=2 all g: VN types (0,0),(0,1),(1,0),(1,1),(2,0) x channels {1,2}; LayerNorm / GroupNorm(2 groups) on (0,0),(0,1),(1,0),(1,1); average/un-pool and max pool on (0,0),(1,1) + MaxNormPool layer; _group_norm_K1 groups {1,2} x all eigenvector sign vectors; d=3: 3 g (sign vectors sampled except for one g)",
        "thorough": "d=3: 12 g; VN channels up to 3; k=2 pseudo"}


# max pooling (argmax contract) and the eigh whitening (eigh contract) rest on assumed library contracts: additionally
# covered by the bounded native stand-in on every run
NATIVE_ALWAYS = {"quick": {"only": "external"}, "thorough": {"only": "all"}}


def L():
    return load()["ginjax.ml.layers"]


def jobs(tier):
    out = []
    q = tier == "quick"
    for D in [2, 3]:
        gs = list(range(8)) if D == 2 else ([9, 24, 33] if q else [1, 5, 9, 12, 17, 24, 26, 31, 33, 40, 44, 47])
        for gi in gs:
            for (k, p) in [(0, 0), (0, 1), (1, 0), (1, 1)] + ([(2, 0)] if D == 2 else []):
                for c in ([1, 2] if D == 2 else [1]):
                    if k == 2 and c == 2 and q:
                        continue
                    out.append(("gvc.props.c08", "ob_vn", dict(D=D, k=k, p=p, c=c, gi=gi)))
            for groups in [1, 2]:
                # the pseudo-scalar block (known finding under reflections) is checked for one reflection and one rotation
                # per dimension in the quick tier, for every g in the thorough tier (refutations need slow NRA models)
                pseudo = (not q) or gi in ({2: (1, 3), 3: (33, 24)}[D])
                out.append(("gvc.props.c08", "ob_norm", dict(D=D, groups=groups, gi=gi, pseudo=pseudo)))
            for (k, p) in [(0, 0), (1, 1)]:
                out.append(("gvc.props.c08", "ob_pool", dict(D=D, k=k, p=p, gi=gi)))
            # max pooling by norm: scalars and (pseudo-)vectors; the layer entry point for one type per g
            for (k, p) in ([(0, 0), (1, 1)] if (q or D == 3) else [(0, 0), (0, 1), (1, 0), (1, 1), (2, 0)]):
                if D == 3 and k == 1 and q and gi != 33:
                    continue
                out.append(("gvc.props.c08", "ob_maxpool", dict(D=D, k=k, p=p, gi=gi, entry="image")))
            if D == 2 or not q:
                out.append(("gvc.props.c08", "ob_maxpool", dict(D=D, k=(gi % 2), p=(gi // 2) % 2, gi=gi, entry="layer")))
            # the whitening helper itself, against ITS contract (GroupNorm above is verified against the same contract)
            for groups in [1, 2]:
                ts = list(itertools.product([1, -1], repeat=D))
                if q and D == 3 and not (groups == 1 and gi == 9):
                    ts = [ts[0], ts[2]]
                for i in range(0, len(ts), 2):
                    out.append(("gvc.props.c08", "ob_whiten", dict(D=D, groups=groups, gi=gi, ts=[list(t) for t in ts[i:i + 2]])))
    # cyclic translations (multiples of the patch length for the pooling blocks)
    for D in ([2] if q else [2, 3]):
        for which in ["average_pool", "max_pool", "unpool", "VN", "LayerNorm", "GroupNorm", "_group_norm_K1"]:
            for (k, p) in ([(1, 0)] if which == "_group_norm_K1" else [(0, 0), (1, 0)]):
                if D == 3 and which == "max_pool":
                    continue          # 8 x 8 argmax cases with three shifted axes: beyond the budget (bounded natively)
                out.append(("gvc.props.c08", "ob_translation", dict(D=D, which=which, k=k, p=p)))
    # dependency: "g.x" in the statement is the library's action; the obligations use act_spec (owned by C02)
    from .common import dep_jobs
    out += dep_jobs("gvc.props.c02", lambda fn, kw: fn == "ob_entry" and kw["D"] >= 2)
    return out


def ob_vn(D, k, p, c, gi):
    Gm, Lm = geom(), L()
    arr.ENUM_SMALL[0] = 3
    g = np.asarray(c02.ops(D)[gi])
    W = World(D)
    eps = SReal(z3.Real("eps"))
    pre = W.pre + [eps.e > 0]
    cA = Atom(c)
    X = arr.source("X", [cA] + W.spatial + [Atom(D) for _ in range(k)])
    sig = Gm.Signature((((k, p), c),))
    structure = dict(D=D, k=k, parity=p, channels=c, g=g.tolist())

    def run():
        layer = Lm.VectorNeuronNonlinear(sig, D, lib.ACT("relu"), eps, key=("key", 0))
        y0 = layer(Gm.MultiImage({(k, p): X}, D, True))
        yg = layer(Gm.MultiImage({(k, p): act_sym(X, D, k, p, g, lead=1)}, D, True))
        return y0, yg

    def post(res):
        y0, yg = res
        return cmp_blocks(yg, {(k, p): act_sym(y0[(k, p)], D, k, p, g, lead=1)}, D, True, [(k, p)], "VN(g.x) vs g.VN(x)")

    o = guard(f"C08/VectorNeuronNonlinear/D={D},k={k},p={p},channels={c},g#{gi}/ensures:equivariant", "ensures", lambda: all_paths(pre, run, post), structure)
    o["replay"] = dict(scenario="vn", D=D, k=k, p=p, c=c, g=g.tolist())
    obs = [o]
    if k == 1 and c == 1:
        obs.append(cover(f"C08/VectorNeuronNonlinear/D={D},k={k},p={p},g#{gi}/cover:pre", pre, structure))
        if det_of(g) == -1:
            # canary: the output declared with the opposite parity must be refuted for a reflection
            def post_bad(res):
                y0, yg = res
                return cmp_blocks(yg, {(k, p): act_sym(y0[(k, p)], D, k, 1 - p, g, lead=1)}, D, True, [(k, p)], "wrong parity")
            obs.append(guard(f"C08/VectorNeuronNonlinear/D={D},k={k},p={p},g#{gi}/canary:opposite-parity", "canary", lambda: all_paths(pre, run, post_bad), structure))
    return obs


def ob_norm(D, groups, gi, pseudo=True):
    """GroupNorm(groups) / LayerNorm(groups=1) on a multi-image holding scalars, pseudo-scalars, vectors, pseudo-vectors"""
    Gm, Lm = geom(), L()
    arr.ENUM_SMALL[0] = 3
    g = np.asarray(c02.ops(D)[gi])
    obs = []
    for key in [(0, 0), (0, 1), (1, 0), (1, 1)]:
        if key == (0, 1) and not pseudo:
            continue
        W = World(D)
        eps = SReal(z3.Real("eps"))
        pre = W.pre + [eps.e > 0]
        m = sint("cpg", pre)
        cA = Atom(mk(zi(m) * groups), "C")
        X = arr.source("X", [cA] + W.spatial + [Atom(D) for _ in range(key[0])])
        sig = Gm.Signature(((key, cA.ext),))
        structure = dict(D=D, type=list(key), groups=groups, g=g.tolist())
        calls = []

        def whiten_stub(Dd, image_block, grp, method="eigh", eps=1e-5):
            # assumed relational contract of the eigh whitening: an opaque block that transforms like its input
            if not calls:
                out = arr.source("WH", list(image_block.dims))
                calls.append(out)
                return out
            return act_sym(calls[0], D, 1, key[1], g, lead=1)

        def run(key=key, X=X, sig=sig, eps=eps):
            lib.STATS.clear()
            calls.clear()
            bigsum.REINDEX[:] = [perm_of(g)]
            orig = Lm.__dict__["_group_norm_K1"]
            Lm.__dict__["_group_norm_K1"] = whiten_stub
            try:
                layer = Lm.GroupNorm(sig, D, groups, eps) if groups > 1 else Lm.LayerNorm(sig, D, eps)
                if key[0] == 1:
                    # learnable parameters away from their initial values: arbitrary reals
                    # (with the shapes the real constructor gave them: a per-component scale would show up here)
                    layer.scale[key] = arr.source("SC", list(arr.lift(layer.scale[key]).dims))
                    layer.bias[key] = arr.source("BI", list(arr.lift(layer.bias[key]).dims))
                y0 = layer(Gm.MultiImage({key: X}, D, True))
                yg = layer(Gm.MultiImage({key: act_sym(X, D, key[0], key[1], g, lead=1)}, D, True))
            finally:
                Lm.__dict__["_group_norm_K1"] = orig
            return y0, yg

        def post(res, key=key):
            y0, yg = res
            r = cmp_blocks(yg, {key: act_sym(y0[key], D, key[0], key[1], g, lead=1)}, D, True, [key], "norm(g.x) vs g.norm(x)")
            bigsum.REINDEX[:] = []
            return r

        nm = "LayerNorm" if groups == 1 else f"GroupNorm(groups={groups})"
        o = guard(f"C08/{nm}/D={D},type={key},g#{gi}/ensures:equivariant", "ensures", lambda pre=pre, run=run, post=post: all_paths(pre, run, post), structure)
        o["replay"] = dict(scenario="norm", D=D, key=list(key), groups=groups, g=g.tolist())
        obs.append(o)
    return obs


def ob_whiten(D, groups, gi, ts):
    """ml.layers._group_norm_K1 (mean-centring, covariance, eigh whitening) executed on x and on g.x:
    _group_norm_K1(g.x) == g._group_norm_K1(x), around the ASSUMED contract of jnp.linalg.eigh (lib.eigh_model): the
    decomposition of g C g^T is (LAM, g U diag(t)) for a sign vector t -- one obligation per t.  Everything else (grouping
    reshape, group means, centring, covariance einsum, eps, inverse square root, U S U^T einsum, final reshape) is the real
    code; means and covariance entries are sums over symbolic ranges registered as statistics (BigSum re-indexing by g)."""
    Lm = L()
    arr.ENUM_SMALL[0] = 3
    g = np.asarray(c02.ops(D)[gi])
    col, sgn = perm_of(g)
    obs = []
    for t in ts:
        W = World(D)
        eps = SReal(z3.Real("eps"))
        pre = W.pre + [eps.e > 0]
        m = sint("cpg", pre)
        cA = Atom(mk(zi(m) * groups), "C")
        X = arr.source("X", [cA] + W.spatial + [Atom(D)])
        structure = dict(D=D, groups=groups, g=g.tolist(), eigenvector_signs=list(t))
        info = {}

        def run(X=X, eps=eps, t=t, info=info):
            lib.STATS.clear()
            bigsum.REINDEX[:] = [perm_of(g)]
            lib.STAT_MODE[0] = True
            lib.EIGH_CTX[0] = dict(col=col, sgn=sgn, t=list(t), calls={}, psd=True)
            try:
                y0 = Lm._group_norm_K1(D, X, groups, eps=eps)
                yg = Lm._group_norm_K1(D, act_sym(X, D, 1, 0, g, lead=1), groups, eps=eps)
                info["related"] = lib.EIGH_CTX[0].get("related", 0)
                return arr.lift(y0), arr.lift(yg)
            except BaseException:
                lib.STAT_MODE[0] = False
                lib.EIGH_CTX[0] = None
                bigsum.REINDEX[:] = []
                raise

        def fin():
            lib.STAT_MODE[0] = False
            lib.EIGH_CTX[0] = None
            bigsum.REINDEX[:] = []

        def post(res, info=info):
            y0, yg = res
            try:
                r = arr.compare(yg, act_sym(y0, D, 1, 0, g, lead=1), "_group_norm_K1(g.x) vs g._group_norm_K1(x)")
                if r[0] != "proved" and info.get("related", 0) < groups:
                    return r[0], "the covariance of g.x is not g C g^T (the eigh contract does not apply); " + str(r[1]), r[2]
                return r
            finally:
                fin()

        def post_bad(res):
            y0, yg = res
            try:
                return arr.compare(yg, act_sym(y0, D, 1, 1, g, lead=1), "whitened block declared a pseudo-vector")
            finally:
                fin()

        tn = "".join("+" if v > 0 else "-" for v in t)
        o = guard(f"C08/_group_norm_K1/D={D},groups={groups},g#{gi},t={tn}/ensures:equivariant", "ensures",
                  lambda pre=pre, run=run, post=post: all_paths(pre, run, post), structure)
        fin()
        o["replay"] = dict(scenario="whiten", D=D, groups=groups, g=g.tolist())
        obs.append(o)
        if t == ts[0] and groups == 1 and det_of(g) == -1:
            obs.append(cover(f"C08/_group_norm_K1/D={D},g#{gi}/cover:pre", pre, structure))
            obs.append(guard(f"C08/_group_norm_K1/D={D},g#{gi},t={tn}/canary:opposite-parity", "canary",
                             lambda pre=pre, run=run, post_bad=post_bad: all_paths(pre, run, post_bad), structure))
            fin()
    return obs


def ob_maxpool(D, k, p, gi, entry="image"):
    """max pooling by norm (functional max_pool through GeometricImage.max_pool, or the MaxNormPool layer which vmaps it
    over channels) commutes with g.  Pre-condition from the statement: no norm ties inside a patch.  jnp.argmax is an
    uninterpreted function with its contract (an index attaining the maximum) instantiated per application; the proof is a
    complete case analysis over the argmax values of the two runs."""
    Gm, Lm = geom(), L()
    arr.ENUM_SMALL[0] = 3
    g = np.asarray(c02.ops(D)[gi])
    pre = []
    half = [sint(f"h{d}", pre) for d in range(D)]
    sp = [Atom(mk(zi(h) * 2), f"N{d}") for d, h in enumerate(half)]
    lead = [Atom(sint("C", pre), "C")] if entry == "layer" else []
    X = arr.source("X", lead + sp + [Atom(D) for _ in range(k)])
    structure = dict(D=D, k=k, parity=p, entry=entry, g=g.tolist(), patch_len=2)

    def run():
        lib.ARGMAX_NO_TIES[0] = True
        try:
            if entry == "layer":
                layer = Lm.MaxNormPool(2)
                y0 = layer(Gm.MultiImage({(k, p): X}, D, True))
                yg = layer(Gm.MultiImage({(k, p): act_sym(X, D, k, p, g, lead=1)}, D, True))
                return y0[(k, p)], yg[(k, p)], (list(y0.keys()), list(yg.keys()))
            a0 = Gm.GeometricImage(X, p, D, True)
            ag = Gm.GeometricImage(act_sym(X, D, k, p, g), p, D, True)
            r0, rg = a0.max_pool(2), ag.max_pool(2)
            return r0.data, rg.data, ((r0.k, r0.parity), (rg.k, rg.parity))
        finally:
            lib.ARGMAX_NO_TIES[0] = False

    def post(res, par=p):
        r0, rg, meta = res
        if entry == "layer" and meta != ([(k, p)], [(k, p)]):
            return "refuted", f"key sets changed: {meta}", None
        if entry == "image" and meta != ((k, p), (k, p)):
            return "refuted", f"declared type changed: {meta}", None
        return arr.compare(arr.lift(rg), act_sym(arr.lift(r0), D, k, par, g, lead=len(lead)), "max_pool(g.x) vs g.max_pool(x)")

    nm = "GeometricImage.max_pool" if entry == "image" else "MaxNormPool"
    o = guard(f"C08/{nm}/D={D},k={k},p={p},g#{gi}/ensures:equivariant", "ensures", lambda: all_paths(pre, run, post), structure)
    o["replay"] = dict(scenario="pool", D=D, k=k, p=p, op="max_pool", g=g.tolist()) if entry == "image" else dict(scenario="maxnormpool", D=D, g=g.tolist())
    obs = [o]
    if entry == "image" and det_of(g) == -1 and k <= 1 and D == 2:
        obs.append(cover(f"C08/{nm}/D={D},k={k},p={p},g#{gi}/cover:pre", pre, structure))
        obs.append(guard(f"C08/{nm}/D={D},k={k},p={p},g#{gi}/canary:opposite-parity", "canary",
                         lambda: all_paths(pre, run, lambda res: post(res, 1 - p)), structure))
    return obs


def ob_translation(D, which, k=1, p=0):
    """cyclic translations on toroidal images: pooling blocks commute with translations by multiples of the patch length
    (pool(T_{2t} x) == T_t pool(x), unpool(T_t x) == T_{2t} unpool(x)); normalisation and the vector-neuron nonlinearity
    commute with every translation (group statistics re-indexed by the shift)."""
    from ..specs.act import shift_sym
    Gm, Lm = geom(), L()
    arr.ENUM_SMALL[0] = 3
    pre = []
    half = [sint(f"h{d}", pre) for d in range(D)]
    t = [sint(f"t{d}", pre, 0) for d in range(D)]
    for d in range(D):
        pre.append(zi(t[d]) < zi(half[d]))
    fine = [Atom(mk(zi(h) * 2), f"N{d}") for d, h in enumerate(half)]
    coarse = [Atom(h, f"n{d}") for d, h in enumerate(half)]
    t2 = [mk(zi(v) * 2) for v in t]
    structure = dict(D=D, block=which, k=k, parity=p)
    tens = [Atom(D) for _ in range(k)]
    if which in ("average_pool", "max_pool", "unpool"):
        src_sp, tin, tout = (coarse, t, t2) if which == "unpool" else (fine, t2, t)
        X = arr.source("X", src_sp + tens)

        def run():
            lib.ARGMAX_NO_TIES[0] = True
            try:
                f = {"average_pool": lambda a: a.average_pool(2), "max_pool": lambda a: a.max_pool(2), "unpool": lambda a: a.unpool(2)}[which]
                return f(Gm.GeometricImage(X, p, D, True)).data, f(Gm.GeometricImage(shift_sym(X, tin, D), p, D, True)).data
            finally:
                lib.ARGMAX_NO_TIES[0] = False

        def post(res):
            return arr.compare(arr.lift(res[1]), shift_sym(arr.lift(res[0]), tout, D), f"{which}(T x) vs T {which}(x)")
    else:
        eps = SReal(z3.Real("eps"))
        pre.append(eps.e > 0)
        groups = 2 if which == "GroupNorm" else 1
        cA = Atom(mk(zi(sint("cpg", pre)) * groups), "C") if which != "VN" else Atom(2)
        X = arr.source("X", [cA] + fine + tens)
        sig = Gm.Signature((((k, p), cA.ext),))
        calls = []

        def whiten_stub(Dd, image_block, grp, method="eigh", eps=1e-5):
            # contract of _group_norm_K1 w.r.t. translations (a pixel permutation): the whitened block moves with its input
            if not calls:
                calls.append(arr.source("WH", list(image_block.dims)))
                return calls[0]
            return shift_sym(calls[0], t2, D, lead=1)

        def run():
            lib.STATS.clear()
            calls.clear()
            bigsum.SHIFTS[:] = [(fine[d].ext, t2[d]) for d in range(D)]
            orig = Lm.__dict__["_group_norm_K1"]
            Lm.__dict__["_group_norm_K1"] = whiten_stub
            try:
                if which == "VN":
                    layer = Lm.VectorNeuronNonlinear(sig, D, lib.ACT("relu"), eps, key=("key", 0))
                else:
                    layer = Lm.GroupNorm(sig, D, groups, eps) if groups > 1 else Lm.LayerNorm(sig, D, eps)
                    if k == 1:
                        layer.scale[(k, p)] = arr.source("SC", list(arr.lift(layer.scale[(k, p)]).dims))
                        layer.bias[(k, p)] = arr.source("BI", list(arr.lift(layer.bias[(k, p)]).dims))
                y0 = layer(Gm.MultiImage({(k, p): X}, D, True))
                yt = layer(Gm.MultiImage({(k, p): shift_sym(X, t2, D, lead=1)}, D, True))
                return y0[(k, p)], yt[(k, p)]
            finally:
                Lm.__dict__["_group_norm_K1"] = orig

        def post(res):
            try:
                return arr.compare(arr.lift(res[1]), shift_sym(arr.lift(res[0]), t2, D, lead=1), f"{which}(T x) vs T {which}(x)")
            finally:
                bigsum.SHIFTS[:] = []

    if which == "_group_norm_K1":
        # the real whitening helper: statistics are invariant under the pixel permutation, so eigh sees the same matrix
        def run():   # noqa: F811
            lib.STATS.clear()
            bigsum.SHIFTS[:] = [(fine[d].ext, t2[d]) for d in range(D)]
            lib.STAT_MODE[0] = True
            lib.EIGH_CTX[0] = dict(col=list(range(D)), sgn=[1] * D, t=[1] * D, calls={}, psd=True)
            try:
                y0 = Lm._group_norm_K1(D, X, 1, eps=eps)
                yt = Lm._group_norm_K1(D, shift_sym(X, t2, D, lead=1), 1, eps=eps)
                return y0, yt
            finally:
                lib.STAT_MODE[0] = False
                lib.EIGH_CTX[0] = None

    o = guard(f"C08/{which}/D={D},k={k},p={p}/ensures:commutes-with-cyclic-translations", "ensures", lambda: all_paths(pre, run, post), structure)
    o["replay"] = dict(scenario="translation", D=D, block=which, k=k, p=p)
    bigsum.SHIFTS[:] = []
    obs = [o]
    if which == "average_pool":
        # canary: a translation by an ODD number of pixels does not commute with pooling
        todd = [mk(zi(v) * 2 + 1) for v in t]

        def run_bad():
            f = lambda a: a.average_pool(2)
            return f(Gm.GeometricImage(X, p, D, True)).data, f(Gm.GeometricImage(shift_sym(X, todd, D), p, D, True)).data
        obs.append(guard(f"C08/{which}/D={D},k={k},p={p}/canary:odd-translation", "canary", lambda: all_paths(pre, run_bad, post), structure))
    return obs


def ob_pool(D, k, p, gi):
    """average_pool(2) and unpool(2) of a single image commute with g (extents divisible by the patch length)"""
    Gm = geom()
    arr.ENUM_SMALL[0] = 3
    g = np.asarray(c02.ops(D)[gi])
    obs = []
    for which in ["average_pool", "unpool"]:
        W = World(D)
        pre = []
        half = [sint(f"h{d}", pre) for d in range(D)]
        sp = [Atom(mk(zi(h) * 2), f"N{d}") for d, h in enumerate(half)] if which == "average_pool" else [Atom(h, f"N{d}") for d, h in enumerate(half)]
        X = arr.source("X", sp + [Atom(D) for _ in range(k)])
        structure = dict(D=D, k=k, parity=p, op=which, g=g.tolist())

        def run(which=which, X=X):
            a0 = Gm.GeometricImage(X, p, D, True)
            ag = Gm.GeometricImage(act_sym(X, D, k, p, g), p, D, True)
            f = (lambda a: a.average_pool(2)) if which == "average_pool" else (lambda a: a.unpool(2))
            return f(a0), f(ag)

        def post(res):
            r0, rg = res
            if (r0.k, r0.parity, rg.k, rg.parity) != (k, p, k, p):
                return "refuted", f"declared type changed: {(r0.k, r0.parity)} / {(rg.k, rg.parity)}", None
            return arr.compare(rg.data, act_sym(r0.data, D, k, p, g), f"{which}(g.x) vs g.{which}(x)")

        o = guard(f"C08/GeometricImage.{which}/D={D},k={k},p={p},g#{gi}/ensures:equivariant", "ensures", lambda pre=pre, run=run, post=post: all_paths(pre, run, post), structure)
        o["replay"] = dict(scenario="pool", D=D, k=k, p=p, op=which, g=g.tolist())
        obs.append(o)
    return obs
