"""C06 -- the equivariant linear layer is equivariant for every parameter value."""
import itertools
import numpy as np
import z3
from .. import sym, arr, lib, bigsum
from ..sym import SInt, SReal, zi, mk
from ..arr import Atom
from ..core import Ob, guard
from ..loader import load
from ..specs.act import act_sym, rotated_flags, perm_of, det_of
from ..specs.invfilter import invariant_bank_sym
from .common import World, cmp_blocks, all_paths, cover, geom, sint
from . import c02

LEVEL = "proof"
MANIFEST = {
    "category": "proof",
    "technique": "contract-based deductive verification, relational mode on the real layer: ConvContract executed on x and on g.x for every g in B_d with opaque weights and biases (every parameter value), symbolic channel counts / extents / numbers of filters, and the GENERAL G-invariant filter bank (one free parameter per sign-compatible orbit of filter entries); obligation layer(g.x) == g._{declared types} layer(x); the bias step is verified modularly against the callee contract of the convolution with the BigSum re-indexing rule for the spatial mean; z3",
    "text": "Weights, biases, inputs, channel counts, image extents and the number of filters per type are symbolic; the filter bank is the most general bank invariant under B_d (constructed from the definition of invariance, cross-checked against the real generator's counts), so the VC covers every bank the library can be given. For every g (d=2 all 8; d=3 twelve class representatives quick / all 48 thorough), enumerated signatures incl. pseudo-types and unequal channels, bias modes, padding kinds, filter and image dilations, mixed torus flags: each output block of layer(g.x) equals g acting with the block's declared (k,parity) on layer(x). Tests check one random parameter draw.",
    "note": "relies on C04's assumed library contracts; reals not floats; signatures enumerated; cyclic translations of the layer: own obligations (symbolic shift, arbitrary bank; sums re-indexed by the shift); additionally the bounded native stand-in when something is undecided; fast_convolve is dead code",
}
FUNCTIONS = ["ml.layers.ConvContract.__init__", "ml.layers.ConvContract.individual_convolve", "ml.layers.ConvContract.__call__",
             "functional_geometric_image.convolve_contract", "functional_geometric_image.convolve"]
TRUSTED = ["CPython for the concrete part", "structured-array engine, BigSum congruence and re-indexing (Equiv.sum_comp)", "z3", "act_spec", "general invariant filter (gvc/specs/invfilter.py)",
           "ASSUMED library contracts of C04"]
ASSUMPTIONS = ["reals not floats", "filters of the bank are invariant under the group (pre-condition of the statement), modelled by the general invariant filter", "unit stride, symmetric padding (statement)"]
EXPLANATION = "Exhaustive in g (class representatives for d=3 in quick), unbounded in parameters, channels, filter counts, extents; enumerated in signatures and options."
GRID = {"quick": "d=2: all 8 g x 4 (signature, option) combinations; d=3: 6 g x 1; bias: 5 modes x 2 signatures x 4 g; translations: d=2, 3 (dilation, bias mode) combinations",
        "thorough": "d=2: all g x 8 combinations; d=3: all 48 g x 3; translations: d=2 all bias modes, d=3 two"}


def L():
    return load()["ginjax.ml.layers"]


def _fmt(v):
    return "[" + " ".join(f"{a}{b}" for a, b in v) + "]"


def jobs(tier):
    out = []
    q = tier == "quick"
    combos2 = [([(0, 0), (1, 0)], [(1, 0), (0, 0)], dict(padding=None, rdil=1, ldil=None, flags=[True, True])),
               ([(1, 0), (0, 1)], [(0, 1), (1, 1)], dict(padding="SAME", rdil=2, ldil=None, flags=[True, False])),
               ([(1, 1)], [(1, 0), (0, 0)], dict(padding="explicit", rdil=1, ldil=2, flags=[False, False])),
               ([(0, 0)], [(2, 0), (1, 1)], dict(padding="TORUS", rdil=1, ldil=None, flags=[False, True])),
               # image dilation together with the implicit paddings ('SAME' by name, and None on a non-toroidal image)
               ([(0, 0), (1, 0)], [(0, 0), (1, 1)], dict(padding="SAME", rdil=1, ldil=2, flags=[False, False])),
               ([(0, 1)], [(1, 0), (0, 1)], dict(padding=None, rdil=2, ldil=2, flags=[False, False]))]
    if not q:
        combos2 += [([(2, 0)], [(0, 0), (1, 0)], dict(padding=None, rdil=1, ldil=None, flags=[True, True])),
                    ([(0, 1), (1, 0)], [(1, 1), (0, 0)], dict(padding="VALID", rdil=2, ldil=None, flags=[True, True]))]
    for (si, so, o) in combos2:
        for i in range(0, 8):
            out.append(("gvc.props.c06", "ob_layer", dict(D=2, sin=si, sout=so, opt=o, gs=[i])))
    # a layer that has been through a pytree round trip, equal channel counts, targets listed in non-sorted order
    for i in ([1, 4] if q else range(8)):
        out.append(("gvc.props.c06", "ob_layer", dict(D=2, sin=combos2[0][0], sout=combos2[0][1], opt=combos2[0][2], gs=[i], history="pytree", eqc=True)))
    g3 = [9, 24, 33] if q else list(range(48))
    combos3 = [([(0, 0), (1, 0)], [(1, 0), (0, 0)], dict(padding=None, rdil=1, ldil=None, flags=[True, False, True]))]
    if not q:
        combos3.append(([(1, 1)], [(0, 1), (1, 0)], dict(padding="SAME", rdil=1, ldil=None, flags=[False, False, False])))
    for (si, so, o) in combos3:
        for i in range(0, len(g3)):
            out.append(("gvc.props.c06", "ob_layer", dict(D=3, sin=si, sout=so, opt=o, gs=g3[i:i + 1])))
    for ub in ["auto", "mean", "scalar", True, False]:
        for so in [[(1, 0), (0, 1), (0, 0)], [(1, 1), (2, 0)]]:
            out.append(("gvc.props.c06", "ob_bias", dict(D=2, sout=so, use_bias=ub, gs=[1, 4, 5, 6] if q else list(range(8)))))
    # cyclic translations on fully toroidal images (symbolic shift, arbitrary bank)
    tr = [(2, 1, False), (2, 2, "scalar"), (2, 1, "mean")] + ([] if q else [(3, 1, False), (2, 1, "auto"), (2, 1, True), (3, 1, "mean")])
    for (D_, rd_, ub_) in tr:
        out.append(("gvc.props.c06", "ob_translation", dict(D=D_, sin=[(0, 0), (1, 0)], sout=[(1, 0), (0, 0)], rd=rd_, use_bias=ub_)))
    for D_ in ([2] if q else [2, 3]):
        out.append(("gvc.props.c06", "ob_translation", dict(D=D_, sin=[(0, 0), (1, 0)], sout=[(1, 0), (0, 0)], rd=1, use_bias="auto", upsample=True)))
    # dependency: "g.x" in the statement is the library's action; the obligations use act_spec (owned by C02)
    from .common import dep_jobs
    out += dep_jobs("gvc.props.c02", lambda fn, kw: fn == "ob_entry" and kw["D"] >= 2)
    return out


def _bank(G, D, W, types, ops, M=3):
    blocks, nfree = {}, {}
    for (k, p) in types:
        n = Atom(sint(f"nf{k}{p}", W.pre), f"nf{k}{p}")
        b, nf = invariant_bank_sym(D, M, k, p, ops, n, f"R{k}{p}")
        if nf > 0:                     # types without invariant filters are absent from a real bank
            blocks[(k, p)] = b
            nfree[(k, p)] = nf
    return G.MultiImage(blocks, D, True), blocks


def ob_layer(D, sin, sout, opt, gs, history="fresh", eqc=False):
    """history='pytree': the layer has been through a pytree flatten / unflatten (jit, an optimiser step, load) before it is
    called -- dict-valued fields in sorted key order; eqc: one channel count shared by all input types and one by all targets"""
    Gm, Lm = geom(), L()
    ops = [np.asarray(g) for g in c02.ops(D)]
    arr.ENUM_SMALL[0] = 3
    sin, sout = [tuple(k) for k in sin], [tuple(k) for k in sout]
    obs = []
    for gi in gs:
        g = ops[gi]
        W = World(D)
        ftypes = sorted({(a[0] + b[0], (a[1] + b[1]) % 2) for a in sin for b in sout})
        bank, fblocks = _bank(Gm, D, W, ftypes, ops)
        if eqc:
            ci_, co_ = Atom(sint("ci", W.pre), "ci"), Atom(sint("co", W.pre), "co")
            ich, och = {k: ci_ for k in sin}, {k: co_ for k in sout}
        else:
            ich = {k: Atom(sint(f"ci{k[0]}{k[1]}", W.pre), f"ci{k[0]}{k[1]}") for k in sin}
            och = {k: Atom(sint(f"co{k[0]}{k[1]}", W.pre), f"co{k[0]}{k[1]}") for k in sout}
        isig = Gm.Signature(tuple((k, ich[k].ext) for k in sin))
        osig = Gm.Signature(tuple((k, och[k].ext) for k in sout))
        rd = opt["rdil"]
        for d in range(D):
            W.pre.append(zi(W.spatial[d].ext) >= 2 * rd + 1)
        flags = tuple(opt["flags"])
        pd = opt["padding"]
        if pd == "explicit":
            p_ = sint("pad", W.pre, 0)
            pd = ((p_, p_),) * D
        ld = None if opt["ldil"] is None else (opt["ldil"],) * D
        X = {k: arr.source(f"X{k[0]}{k[1]}", [ich[k]] + W.spatial + [Atom(D) for _ in range(k[0])]) for k in sin}
        gX = {k: act_sym(X[k], D, k[0], k[1], g, lead=1) for k in sin}
        structure = dict(D=D, input=sin, target=sout, g=g.tolist(), **{k: str(v) for k, v in opt.items()})

        def run(X=X, gX=gX, g=g):
            layer = Lm.ConvContract(isig, osig, bank, False, 1, pd, ld, rd, key=("key", 0))
            if history == "pytree":
                leaves, rebuild = lib.tree_flatten_obj(layer)
                layer = rebuild(leaves)
            y0 = layer(Gm.MultiImage(dict(X), D, flags))
            yg = layer(Gm.MultiImage(dict(gX), D, rotated_flags(flags, g)))
            return y0, yg

        def post(res, g=g):
            y0, yg = res
            if list(y0.keys()) != list(yg.keys()):
                return "refuted", f"key lists differ: {list(y0.keys())} vs {list(yg.keys())}", None
            spec = {t: act_sym(y0[t], D, t[0], t[1], g, lead=1) for t in y0.keys()}
            return cmp_blocks(yg, spec, D, rotated_flags(flags, g), list(y0.keys()), "layer(g.x) vs g.layer(x)")

        name = f"C06/ConvContract/D={D},in={_fmt(sin)},out={_fmt(sout)},pad={opt['padding']},rdil={rd},ldil={opt['ldil']},flags={opt['flags']},g#{gi}"
        if history != "fresh" or eqc:
            name += f",history={history},equal_channels={eqc}"
            structure.update(history=history, equal_channels=eqc)
        o = guard(name + "/ensures:equivariant", "ensures", lambda W=W, run=run, post=post: all_paths(W.pre, run, post), structure)
        o["replay"] = dict(scenario="layer", model=o.get("model"), D=D, sin=sin, sout=sout, opt=opt, g=g.tolist(), use_bias=False, history=history, equal_channels=eqc)
        obs.append(o)
    obs.append(cover(f"C06/ConvContract/D={D},in={_fmt(sin)},out={_fmt(sout)}/cover:pre#{gs[0]}", W.pre, dict(D=D)))
    # canary: a NON-invariant (arbitrary opaque) filter bank must break equivariance for a rotation
    if D == 2 and 1 in gs:
        g = ops[1] if not np.array_equal(ops[1], np.eye(2, dtype=int)) else ops[2]
        W = World(D)
        for d in range(D):
            W.pre.append(zi(W.spatial[d].ext) >= 3)
        n = Atom(sint("nf", W.pre), "nf")
        s0, t0 = sin[0], sout[0]
        fk = (s0[0] + t0[0], (s0[1] + t0[1]) % 2)
        Fb = arr.source("Fany", [n] + [Atom(3)] * D + [Atom(D) for _ in range(fk[0])])
        bank = Gm.MultiImage({fk: Fb}, D, True)
        ci, co = Atom(sint("ci", W.pre), "ci"), Atom(sint("co", W.pre), "co")
        Xs = arr.source("X", [ci] + W.spatial + [Atom(D) for _ in range(s0[0])])

        def canary():
            layer = Lm.ConvContract(Gm.Signature(((s0, ci.ext),)), Gm.Signature(((t0, co.ext),)), bank, False, key=("key", 0))
            y0 = layer(Gm.MultiImage({s0: Xs}, D, True))
            yg = layer(Gm.MultiImage({s0: act_sym(Xs, D, s0[0], s0[1], g, lead=1)}, D, True))
            return arr.compare(yg[t0], act_sym(y0[t0], D, t0[0], t0[1], g, lead=1), "non-invariant bank (must break)")
        obs.append(guard(f"C06/ConvContract/D={D},in={_fmt(sin)},out={_fmt(sout)}/canary:arbitrary-filter-bank", "canary", lambda: all_paths(W.pre, canary, lambda r: r), dict(D=D)))
    return obs


def ob_translation(D, sin, sout, rd, use_bias, upsample=False):
    """on fully toroidal images (no image dilation) the layer commutes with every cyclic translation (symbolic shift), for an
    ARBITRARY filter bank (no invariance needed) and every weight / bias value"""
    from ..specs.act import shift_sym
    Gm, Lm = geom(), L()
    arr.ENUM_SMALL[0] = 3
    sin, sout = [tuple(k) for k in sin], [tuple(k) for k in sout]
    W = World(D)
    for d in range(D):
        W.pre.append(zi(W.spatial[d].ext) >= 2 * rd + 1)
    tau = [sint(f"tau{d}", W.pre, 0) for d in range(D)]
    for d in range(D):
        W.pre.append(zi(tau[d]) < zi(W.spatial[d].ext))
    ftypes = sorted({(a[0] + b[0], (a[1] + b[1]) % 2) for a in sin for b in sout})
    blocks = {}
    for (k, p) in ftypes:
        n = Atom(sint(f"nf{k}{p}", W.pre), f"nf{k}{p}")
        blocks[(k, p)] = arr.source(f"F{k}{p}", [n] + [Atom(2 if upsample else 3)] * D + [Atom(D) for _ in range(k)])
    bank = Gm.MultiImage(blocks, D, True)
    ich = {k: Atom(sint(f"ci{k[0]}{k[1]}", W.pre), f"ci{k[0]}{k[1]}") for k in sin}
    och = {k: Atom(sint(f"co{k[0]}{k[1]}", W.pre), f"co{k[0]}{k[1]}") for k in sout}
    isig = Gm.Signature(tuple((k, ich[k].ext) for k in sin))
    osig = Gm.Signature(tuple((k, och[k].ext) for k in sout))
    X = {k: arr.source(f"X{k[0]}{k[1]}", [ich[k]] + W.spatial + [Atom(D) for _ in range(k[0])]) for k in sin}
    TX = {k: shift_sym(X[k], tau, D, lead=1) for k in sin}

    def run():
        bigsum.SHIFTS[:] = [(W.spatial[d].ext, tau[d]) for d in range(D)]
        if upsample:
            bigsum.SHIFTS[:] += [(mk(zi(W.spatial[d].ext) * 2), mk(zi(tau[d]) * 2)) for d in range(D)]
        if upsample:
            # the U-Net's transposed convolution: 2 x 2 bank, image dilation 2, padding ((1,1),)*D: T_t on the coarse grid
            # becomes T_{2t} on the fine grid
            layer = Lm.ConvContract(isig, osig, bank, use_bias, 1, ((1, 1),) * D, (2,) * D, 1, key=("key", 0))
        else:
            layer = Lm.ConvContract(isig, osig, bank, use_bias, 1, None, None, rd, key=("key", 0))
        for t_ in list(layer.bias.keys()) if isinstance(layer.bias, dict) else []:
            layer.bias[t_] = arr.source(f"BIAS{t_[0]}{t_[1]}", list(arr.lift(layer.bias[t_]).dims))
        return layer(Gm.MultiImage(dict(X), D, True)), layer(Gm.MultiImage(dict(TX), D, True))

    def post(res):
        y0, yt = res
        if list(y0.keys()) != list(yt.keys()):
            return "refuted", f"key lists differ: {list(y0.keys())} vs {list(yt.keys())}", None
        tout = [mk(zi(v) * 2) for v in tau] if upsample else tau
        try:
            return cmp_blocks(yt, {t: shift_sym(arr.lift(y0[t]), tout, D, lead=1) for t in y0.keys()}, D, True, list(y0.keys()), "layer(T x) vs T layer(x)")
        finally:
            bigsum.SHIFTS[:] = []

    name = f"C06/ConvContract/D={D},in={_fmt(sin)},out={_fmt(sout)},rdil={rd},use_bias={use_bias}{',transposed(2x2,ldil=2)' if upsample else ''}/ensures:commutes-with-cyclic-translations"
    o = guard(name, "ensures", lambda: all_paths(W.pre, run, post), dict(D=D, input=sin, target=sout, rdil=rd, use_bias=str(use_bias)))
    o["replay"] = dict(scenario="layer", model=o.get("model"), D=D, sin=sin, sout=sout, opt=dict(padding=None, rdil=rd, ldil=None, flags=[True] * D),
                       g=np.eye(D, dtype=int).tolist(), use_bias=use_bias, shift=True)
    return [o]


def ob_bias(D, sout, use_bias, gs):
    """the bias step of __call__ commutes with g: convolution result Z replaced by the callee contract (Z resp. g.Z)"""
    Gm, Lm = geom(), L()
    ops = [np.asarray(g) for g in c02.ops(D)]
    arr.ENUM_SMALL[0] = 3
    sout = [tuple(k) for k in sout]
    sin = [(0, 0), (1, 0), (0, 1)]
    obs = []
    for gi in gs:
        g = ops[gi]
        W = World(D)
        ftypes = sorted({(a[0] + b[0], (a[1] + b[1]) % 2) for a in sin for b in sout})
        bank, fblocks = _bank(Gm, D, W, ftypes, ops)
        ich = {k: Atom(sint(f"ci{k[0]}{k[1]}", W.pre), f"ci{k[0]}{k[1]}") for k in sin}
        och = {k: Atom(sint(f"co{k[0]}{k[1]}", W.pre), f"co{k[0]}{k[1]}") for k in sout}
        isig = Gm.Signature(tuple((k, ich[k].ext) for k in sin))
        osig = Gm.Signature(tuple((k, och[k].ext) for k in sout))
        Z = {t: arr.source(f"Z{t[0]}{t[1]}", [och[t]] + W.spatial + [Atom(D) for _ in range(t[0])]) for t in sout}
        gZ = {t: act_sym(Z[t], D, t[0], t[1], g, lead=1) for t in sout}
        which = {"n": 0}

        def stub(self, x, weights):
            out = x.empty()
            src = Z if which["n"] == 0 else gZ
            which["n"] += 1
            for t in sout:
                out.append(t[0], t[1], src[t])
            return out

        Xd = {k: arr.source(f"X{k[0]}{k[1]}", [ich[k]] + W.spatial + [Atom(D) for _ in range(k[0])]) for k in sin}

        def run(g=g):
            which["n"] = 0
            bigsum.REINDEX[:] = [perm_of(g)]
            layer = Lm.ConvContract(isig, osig, bank, use_bias, key=("key", 0))
            orig = Lm.ConvContract.individual_convolve
            Lm.ConvContract.individual_convolve = stub
            try:
                y0 = layer(Gm.MultiImage(dict(Xd), D, True))
                yg = layer(Gm.MultiImage({k: act_sym(Xd[k], D, k[0], k[1], g, lead=1) for k in sin}, D, True))
            finally:
                Lm.ConvContract.individual_convolve = orig
            return y0, yg

        def post(res, g=g):
            y0, yg = res
            spec = {t: act_sym(y0[t], D, t[0], t[1], g, lead=1) for t in y0.keys()}
            r = cmp_blocks(yg, spec, D, True, list(y0.keys()), "bias step")
            bigsum.REINDEX[:] = []
            return r

        name = f"C06/ConvContract.__call__(bias)/D={D},out={_fmt(sout)},use_bias={use_bias},g#{gi}"
        o = guard(name + "/ensures:bias-step-equivariant", "ensures", lambda W=W, run=run, post=post: all_paths(W.pre, run, post),
                  dict(D=D, target=sout, use_bias=str(use_bias), g=g.tolist()))
        o["replay"] = dict(scenario="layer", D=D, sin=sin, sout=sout, opt=dict(padding=None, rdil=1, ldil=None, flags=[True] * D), g=g.tolist(), use_bias=use_bias)
        obs.append(o)
    return obs
