"""C07 -- equivariant networks are equivariant end to end."""
import itertools
import numpy as np
import z3
from .. import sym, arr, lib
from ..sym import zi
from ..core import Ob, guard
from ..specs.act import act_sym, rotated_flags, det_of
from .common import cmp_blocks, cover
from . import c02, nets

LEVEL = "proof"
MANIFEST = {
    "category": "proof",
    "technique": "contract-based deductive verification by composition of relational contracts: the real model constructors and __call__ methods (ConvBlock, ResNet, DilResNet, UNet) are executed on x and g.x with every layer replaced by its contract (C06: ConvContract, C08: normalisation / nonlinearity / pooling); at every call site z3 proves that the layer receives the transformed input and that the contract's pre-conditions hold; the outputs are compared element-wise",
    "text": "For each enumerated architecture configuration (class, blocks, convolutions per block, downsamples, activation, normalisation, pre-activation order, bias mode, signatures incl. pseudo-types, torus flags) with SYMBOLIC depth, channel counts, spatial extents (compatible with the pooling) and filter counts, and for group elements g: the real wiring code (residual sums, skip concatenations, pooling / transposed-convolution options, channel arithmetic) feeds every layer with exactly the transformed input of the un-transformed run, all relational pre-conditions hold (unit stride, symmetric padding incl. the transposed convolution ((1,1),)*D with image dilation 2, accepted types), so model(g.x) == g.model(x) with the requested output types. Layer contracts are proved in C06 / C08 (or assumed there: max pooling, eigh).",
    "note": "modular: relies on the layer contracts of C06, C08 (incl. their assumed parts) and inherits KNOWN FINDING KF-C08 (pseudo-scalars through normalisation); architectures enumerated (num_blocks, num_conv, num_downsamples <= 2); translations: own obligations by the same composition argument with a symbolic cyclic shift (multiples of the pooling factor for the U-Net)",
}
FUNCTIONS = ["models.handle_activation", "models.make_conv", "models.ConvBlock.__init__/__call__", "models.UNet.__init__/__call__", "models.ResNet.__init__/__call__",
             "models.DilResNet.__init__/__call__", "geometric.signature_union", "MultiImage.concat", "MultiImage.__add__", "MultiImage.copy",
             "ml.layers.ConvContract.__init__", "ml.layers.GroupNorm.__init__", "ml.layers.VectorNeuronNonlinear.__init__ (real constructors; __call__ replaced by contract)"]
TRUSTED = ["CPython for the concrete part", "structured-array engine", "z3", "composition of relational contracts (meta-argument)", "layer contracts: C06, C08, C11"]
ASSUMPTIONS = ["layer contracts of C06 / C08 (ConvContract, GroupNorm/LayerNorm except pseudo-scalars, VectorNeuronNonlinear, MaxNormPool[C08, no norm ties])",
               "architectures enumerated", "the filter banks are invariant under the group"]
EXPLANATION = "Unbounded in depth, channels, extents, filter counts, parameters; enumerated in architecture configurations and group elements."
GRID = {"quick": "D=2; 14 architecture configurations x {rotation by 90, reflection}",
        "thorough": "D in {2,3}; 30 configurations x all 8 (d=2) / 6 (d=3) elements"}


def configs(tier):
    q = tier == "quick"
    A, B = [[0, 0], [1, 0]], [[1, 0], [0, 0]]
    out = []
    for pre_, gn, act in itertools.product([False, True], [False, True], ["relu", None]):
        if q and act is None and gn:
            continue
        # pre-activation order applies norm / nonlinearity (built for the output signature) to the input: the block is
        # only defined for equal input and output signatures (as in the ResNets)
        out.append(dict(arch="ConvBlock", sin=A, sout=A if pre_ else B, same_io=pre_, preact=pre_, group_norm=gn, activation=act))
    for nc, gn, pre_ in [(1, True, True), (2, False, True), (2, True, False)]:
        out.append(dict(arch="ResNet", sin=A, sout=B, num_blocks=1, num_conv=nc, group_norm=gn, preact=pre_))
    out.append(dict(arch="DilResNet", sin=A, sout=B, num_blocks=1, group_norm=False))
    out.append(dict(arch="DilResNet", sin=A, sout=[[0, 0]], num_blocks=1, group_norm=True, flags=[True, False]))
    for nd, gn in [(1, False), (2, True)]:
        out.append(dict(arch="UNet", sin=A, sout=B, num_downsamples=nd, num_conv=1, group_norm=gn))
    # pseudo-types
    out.append(dict(arch="ResNet", sin=[[0, 1], [1, 1]], sout=[[1, 1]], num_blocks=1, num_conv=1, group_norm=False, preact=True))
    out.append(dict(arch="ResNet", sin=[[0, 1], [1, 0]], sout=[[0, 1]], num_blocks=1, num_conv=1, group_norm=True, preact=True))     # -> KF-C08
    # signatures whose types all have tensor order 0 but include a pseudo-scalar (e.g. 2-d vorticity -> vorticity)
    out.append(dict(arch="UNet", sin=[[0, 1], [0, 0]], sout=[[0, 1]], num_downsamples=1, num_conv=1, group_norm=False))
    if not q:
        out.append(dict(arch="UNet", sin=A, sout=B, num_downsamples=2, num_conv=2, group_norm=False, use_bias="mean"))
        out.append(dict(arch="ResNet", sin=A, sout=B, num_blocks=2, num_conv=2, group_norm=True, preact=True, use_bias=False))
        out.append(dict(arch="DilResNet", sin=[[1, 1], [0, 0]], sout=B, num_blocks=2, group_norm=False, use_bias="scalar"))
    for c in out:
        c.setdefault("D", 2)
    if not q:
        for c in list(out)[:12:3]:
            c3 = dict(c, D=3)
            out.append(c3)
    return out


def name_of(c):
    keys = ["arch", "D", "sin", "sout", "num_blocks", "num_conv", "num_downsamples", "group_norm", "preact", "activation", "use_bias", "flags"]
    f = lambda v: "[" + " ".join(f"{a}{b}" for a, b in v) + "]" if isinstance(v, list) and v and isinstance(v[0], list) else str(v)
    return ",".join(f"{k}={f(c[k])}" for k in keys if k in c)


def jobs(tier):
    out = [("gvc.props.c07", "ob_canary", {}), ("gvc.props.c07", "ob_translation_canary", {})]
    for c in configs(tier):
        D = c["D"]
        if D == 2:
            gs = [3, 1] if tier == "quick" else list(range(8))
        else:
            gs = [9, 24, 33] if tier == "quick" else [1, 9, 17, 24, 33, 40]
        for gi in gs:
            out.append(("gvc.props.c07", "ob_model", dict(cfg=c, gi=gi)))
    # translations: every configuration on a fully toroidal image
    for c in configs(tier):
        if all(c.get("flags", [True] * c["D"])):
            out.append(("gvc.props.c07", "ob_translation", dict(cfg=c)))
    out += leaf_contract_jobs()
    return out


def leaf_contract_jobs():
    """the composition argument replaces every layer by its relational contract; those contracts are owned by C06
    (ConvContract) and C08 (normalisation, nonlinearity, pooling) and, for the action itself, by C02.  A reduced grid of
    them (d=2, one rotation and one reflection; every bias mode) is re-run here so that this check is self-contained:
    a defect inside a layer fails `./check C07` too (under the obligation name of the owning property)."""
    from .common import dep_jobs
    out = dep_jobs("gvc.props.c06", lambda fn, kw: fn == "ob_bias" or (fn == "ob_layer" and kw["D"] == 2 and kw["gs"][0] in (1, 3)
                                                                      and kw["opt"]["padding"] in (None, "SAME")))
    out += dep_jobs("gvc.props.c08", lambda fn, kw: fn.startswith("ob_") and kw.get("D") == 2 and kw.get("gi") in (1, 3)
                    and not (fn == "ob_vn" and kw["k"] == 2))
    out += dep_jobs("gvc.props.c02", lambda fn, kw: fn == "ob_entry" and kw["D"] == 2)
    # translation contracts of the leaves
    out += dep_jobs("gvc.props.c06", lambda fn, kw: fn == "ob_translation" and kw["D"] == 2 and (kw.get("upsample") or kw["use_bias"] is False))
    out += dep_jobs("gvc.props.c08", lambda fn, kw: fn == "ob_translation" and kw["D"] == 2)
    return out


def ob_translation(cfg):
    """on toroidal inputs the network commutes with cyclic translations by (symbolic) multiples of its total pooling factor
    (1 for the ResNets): the same composition argument with T instead of g; the leaf translation contracts are owned by
    C06 (ConvContract incl. the transposed form) and C08 (normalisation, nonlinearity, pooling)"""
    D = cfg["D"]
    arr.ENUM_SMALL[0] = 3
    nm = f"C07/{name_of(cfg)}"

    def body():
        S, y0, yt, info = nets.run_model(cfg, None, shift=True)
        bad = [p for p in S.problems if p[0] in ("pre", "pre-rel", "rel")]
        if bad:
            return "refuted", f"{bad[0][0]}: {bad[0][1]}", None
        und = [p for p in S.problems if p[0] == "undecided"]
        if und:
            return "undecided", und[0][1], None
        if list(y0.keys()) != list(yt.keys()):
            return "refuted", f"output key lists differ: {list(y0.keys())} vs {list(yt.keys())}", None
        return cmp_blocks(yt, {t: info["T"](y0[t], t) for t in y0.keys()}, D, info["flags"], list(y0.keys()), "model(T x) vs T model(x)")

    o = guard(nm + "/ensures:commutes-with-cyclic-translations-by-composition", "ensures", body, dict(cfg))
    o["replay"] = dict(scenario="model", cfg=cfg, g=np.eye(D, dtype=int).tolist(), shift=True)
    return [o]


def ob_translation_canary():
    """a network on an image with a non-toroidal axis has no translation contract: the obligation must fail"""
    cfg = dict(arch="ConvBlock", D=2, sin=[[0, 0], [1, 0]], sout=[[1, 0], [0, 0]], preact=False, group_norm=False, activation="relu", flags=[True, False])
    o = ob_translation(cfg)[0]
    o["kind"] = "canary"
    o["name"] = "C07/ConvBlock,flags=[True, False]/canary:translation-on-a-non-toroidal-axis"
    return [o]


def ob_canary():
    """a ConvBlock whose convolution pads asymmetrically must violate a relational pre-condition"""
    cfg = dict(arch="ConvBlock", D=2, sin=[[0, 0], [1, 0]], sout=[[1, 0], [0, 0]], preact=False, group_norm=False, activation="relu")
    g = np.asarray(c02.ops(2)[1])
    arr.ENUM_SMALL[0] = 3

    def body():
        M = nets.load()
        Md = M["ginjax.models"]
        orig = Md.ConvBlock.__init__

        def init(self, *a, **k):
            k["padding"] = ((1, 0), (1, 0))
            orig(self, *a, **k)
        Md.ConvBlock.__init__ = init
        try:
            S, y0, yg, info = nets.run_model(cfg, g)
        finally:
            Md.ConvBlock.__init__ = orig
        bad = [p for p in S.problems if p[0] in ("pre", "pre-rel", "rel")]
        return ("refuted", bad[0][1], None) if bad else ("proved", "no pre-condition violated", None)
    return [guard("C07/canary:asymmetric-padding-in-a-block", "canary", body)]


def ob_model(cfg, gi):
    D = cfg["D"]
    g = np.asarray(c02.ops(D)[gi])
    arr.ENUM_SMALL[0] = 3
    nm = f"C07/{name_of(cfg)},g#{gi}"
    structure = dict(cfg, g=g.tolist())

    def body():
        S, y0, yg, info = nets.run_model(cfg, g)
        bad = [p for p in S.problems if p[0] in ("pre", "pre-rel", "rel")]
        if S.kf and det_of(g) == -1:
            return "refuted", "DEPENDENT-KF-C08: " + "; ".join(sorted(set(S.kf))), None
        if bad:
            return "refuted", f"{bad[0][0]}: {bad[0][1]}", None
        und = [p for p in S.problems if p[0] == "undecided"]
        if und:
            return "undecided", und[0][1], None
        if list(y0.keys()) != list(yg.keys()):
            return "refuted", f"output key lists differ: {list(y0.keys())} vs {list(yg.keys())}", None
        spec = {t: act_sym(y0[t], D, t[0], t[1], g, lead=1) for t in y0.keys()}
        return cmp_blocks(yg, spec, D, rotated_flags(info["flags"], g), list(y0.keys()), "model(g.x) vs g.model(x)")

    o = guard(nm + "/ensures:equivariant-by-composition", "ensures", body, structure)
    o["replay"] = dict(scenario="model", cfg=cfg, g=g.tolist())
    if "DEPENDENT-KF-C08" in str(o["detail"]):
        o["name"] = nm + "/ensures:equivariant-by-composition[pseudo-scalar-through-normalisation]"
    obs = [o]
    if gi in (1, 9):
        # cover: the pre-conditions (extents compatible with pooling, ...) are satisfiable
        def cov():
            S, y0, yg, info = nets.run_model(cfg, None)
            r, m = sym.check_sat(list(info["pre"]))
            return ("proved" if r == "sat" else "refuted"), "pre-condition satisfiable", m
        obs.append(guard(nm + "/cover:pre", "cover", cov, structure))
    return obs
