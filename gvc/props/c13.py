"""C13 -- re-layouts and serialisations are lossless round trips."""
import itertools
import z3
from .. import sym, arr, lib
from ..sym import SInt, zi, mk
from ..arr import Atom, Prod, Sum, Br
from ..core import Ob, guard
from .common import World, build_mi, cmp_blocks, all_paths, cover, geom, sint

LEVEL = "proof"
MANIFEST = {
    "category": "proof",
    "technique": "contract-based deductive verification: the real re-layout functions executed on structured symbolic arrays; element-wise round-trip and layout post-conditions discharged by z3 for all extents and values; signatures / axes enumerated; save/load: the real ml.save / ml.load verified modularly against an assumed contract of eqx.tree_(de)serialise_leaves and a ghost file system, plus a bounded native stand-in",
    "text": "Each inverse pair (vectorise, components<->scalar channels, concat/split, expand/combine/merge, device split/merge, images<->multi-image, copy, pytree flatten/unflatten of both classes) is executed on the real code with symbolic channel counts, leading-axis sizes, spatial extents and opaque pixel values; the post-condition 'same keys, every block identical element-wise and in shape, D and flags preserved' (plus the explicit channel layout of to_scalar_multi_image) is proved for all shapes at once per enumerated signature/axis. Tests fix shapes and one signature.",
    "note": "save/load: Equinox's (de)serialisation is external (assumed contract: a record of the model's leaves is written / read back into the like-model); what is proved is ginjax's side (whole model, same file, binary write/read modes, truncation on re-save, result returned); the bit-for-bit clause additionally rests on the bounded native stand-in; to_images iterates channels in Python, so channel counts there are enumerated (1..3); signatures of <= 3 types with k <= 2 (k <= 3 thorough); D in {1,2,3}; 0-3 leading axes",
}
FUNCTIONS = ["MultiImage.to_vector", "MultiImage.from_vector", "MultiImage.to_scalar_multi_image", "MultiImage.from_scalar_multi_image",
             "MultiImage.concat", "MultiImage.concat_inverse", "MultiImage.append", "MultiImage.expand", "MultiImage.combine_axes",
             "MultiImage.merge_axes", "MultiImage.reshape_pmap", "MultiImage.get_L", "MultiImage.from_images", "MultiImage.to_images",
             "MultiImage.copy", "GeometricImage.__init__", "GeometricImage.copy", "MultiImage.tree_flatten/tree_unflatten",
             "GeometricImage.tree_flatten/tree_unflatten", "ml.training.save", "ml.training.load", "MultiImage.get_signature", "MultiImage.get_signature_dict",
             "MultiImage.get_spatial_dims", "MultiImage.get_n_leading", "parse_shape (inlined)"]
TRUSTED = ["CPython for the concrete part", "structured-array engine gvc/arr.py", "z3",
           "JAX pytree contract: dict children are flattened in sorted key order, aux data passed back unchanged (assumed)"]
ASSUMPTIONS = ["pure data movement: identities are exact in floating point as well", "signatures enumerated (<= 3 types)", "D in {1,2,3}, 0..3 leading axes",
               "save/load: Equinox leaf (de)serialisation assumed lossless (contract in ob_save_load); open() modelled by a ghost file system ('wb' truncates, 'ab' appends, 'rb' reads from the start); the real round trip through the file system is the bounded native stand-in"]
EXPLANATION = "Per-structure proofs, unbounded in every extent and value; to_images and save/load clauses are bounded (stated)."
GRID = {"quick": "D=2 (and D=1,3 for the scalar/vector pairs); signatures [(0,0)], [(1,0),(0,1)], [(2,1),(1,0),(0,0)]; leading axes 1,2",
        "thorough": "D in {1,2,3}; 6 signatures incl. k=3 and non-sorted orders; leading axes 0..3; every split axis"}

# the save/load clause is external numerics: always covered by the bounded native stand-in (labelled bounded)
NATIVE_ALWAYS = {"quick": {"only": "saveload"}, "thorough": {"only": "all"}}
SIGS_Q = [[(0, 0)], [(1, 0), (0, 1)], [(2, 1), (1, 0), (0, 0)]]
SIGS_T = SIGS_Q + [[(1, 1), (0, 0), (0, 1)], [(3, 0), (1, 0)], [(0, 1), (2, 0)]]


def jobs(tier):
    out = []
    J = lambda fn, **kw: out.append(("gvc.props.c13", fn, kw))
    q = tier == "quick"
    for D in ([2, 3] if q else [1, 2, 3]):
        for sig in (SIGS_Q if q else SIGS_T):
            if D == 1:
                sig = [k for k in sig if k[0] == 0]
                if not sig:
                    continue
            if D == 3 and any(k[0] > 2 for k in sig):
                continue
            for nlead in ([0, 1, 2] if q else [0, 1, 2, 3]):
                J("ob_vector", D=D, nlead=nlead, sig=sig)
                if nlead >= 1:
                    J("ob_scalar", D=D, nlead=nlead, sig=sig)
                    J("ob_scalar_layout", D=D, nlead=nlead, sig=sig)
                J("ob_copy_pytree", D=D, nlead=nlead, sig=sig)
                for axis in range(nlead):
                    if q and axis != nlead - 1 and D == 3:
                        continue
                    J("ob_concat", D=D, nlead=nlead, sig=sig, axis=axis, form="tuple" if axis == nlead - 1 else "dict")
                    if D == 2 and len(sig) > 1 and axis == nlead - 1:
                        J("ob_concat", D=D, nlead=nlead, sig=sig, axis=axis, form="dict+zero")
                    J("ob_expand", D=D, nlead=nlead, sig=sig, axis=axis)
                if nlead >= 1:
                    for ndev in ([2] if q else [1, 2, 4]):
                        J("ob_pmap", D=D, nlead=nlead, sig=sig, ndev=ndev)
        J("ob_images", D=D, chans=[1, 2] if q else [1, 2, 3])
        if D == 2:
            J("ob_save_load")
        J("ob_gi_copy_pytree", D=D)
    return out


def _nm(fn, **kw):
    def f(v):
        return "[" + " ".join(f"{a}{b}" for a, b in v) + "]" if isinstance(v, list) and v and isinstance(v[0], tuple) else str(v)
    return f"C13/{fn}/" + ",".join(f"{k}={f(v)}" for k, v in kw.items())


def _rt(fn, structure, make, run, expect_order=True):
    """generic round trip obligation: run(x) must give back x's blocks"""
    W, x, blocks = make()
    order = list(blocks.keys()) if expect_order else None

    def body():
        return all_paths(W.pre, lambda: run(x), lambda y: cmp_blocks(y, blocks, W.D, x.is_torus, order, "round trip"))

    o = guard(_nm(fn, **structure) + "/ensures:roundtrip", "ensures", body, structure, dict(scenario=fn, **structure))
    o["replay"] = dict(scenario=fn, model=o.get("model"), **structure)
    return o


def _mk(D, nlead, sig, is_torus=None, via="ctor"):
    """nlead = total number of leading axes (0: no channel axis at all)"""
    def make():
        W = World(D)
        t = is_torus if is_torus is not None else tuple(i % 2 == 0 for i in range(D))
        if nlead == 0:
            x, blocks = W.mi("x", sig, 0, is_torus=t, via=via, with_chan=False)
        else:
            x, blocks = W.mi("x", sig, nlead - 1, is_torus=t, via=via)
        return W, x, blocks
    return make


def ob_vector(D, nlead, sig):
    G = geom()
    s = dict(D=D, nlead=nlead, sig=sig)
    obs = [_rt("to_vector->from_vector", s, _mk(D, nlead, sig), lambda x: G.MultiImage.from_vector(x.to_vector(), x))]
    # non-sorted and jit-reordered operands
    rs = list(reversed(sig))
    if rs != sig:
        obs.append(_rt("to_vector->from_vector", dict(D=D, nlead=nlead, sig=rs), _mk(D, nlead, rs), lambda x: G.MultiImage.from_vector(x.to_vector(), x)))
    return obs


def ob_scalar(D, nlead, sig):
    s = dict(D=D, nlead=nlead, sig=sig)
    obs = [_rt("to_scalar->from_scalar", s, _mk(D, nlead, sig), lambda x: x.to_scalar_multi_image().from_scalar_multi_image(x.get_signature()))]
    rs = list(reversed(sig))
    if rs != sig:
        obs.append(_rt("to_scalar->from_scalar", dict(D=D, nlead=nlead, sig=rs), _mk(D, nlead, rs),
                       lambda x: x.to_scalar_multi_image().from_scalar_multi_image(x.get_signature())))
    return obs


def ob_scalar_layout(D, nlead, sig):
    """to_scalar_multi_image: channel (type t, channel c, component u) of the scalar image, in this order
    (types in key order, then channel-major, component fastest), holds x[t][..., c, pixel, u]"""
    W = World(D)
    x, blocks = W.mi("x", sig, nlead - 1, is_torus=True)
    lead = W.lead(nlead - 1)
    chans = [W.chan(k) for k in sig]
    cdim = arr.mksum([arr.mkprod([chans[i]] + [Atom(D) for _ in range(k[0])]) for i, k in enumerate(sig)])
    nb = nlead - 1

    def elem(idx):
        ci = idx[nb]
        if len(sig) == 1:
            b, inner = 0, ci
        else:
            b, inner = ci.b, ci.idx
        k = sig[b][0]
        parts = list(inner) if k > 0 else [inner]
        c, comps = parts[0], parts[1:]
        src = list(idx[:nb]) + [c] + list(idx[nb + 1:]) + comps
        return blocks[sig[b]].elem(src)

    spec = {(0, 0): arr.SArray(list(lead) + [cdim] + W.spatial, elem)}
    structure = dict(D=D, nlead=nlead, sig=sig)

    def body():
        return all_paths(W.pre, lambda: x.to_scalar_multi_image(), lambda y: cmp_blocks(y, spec, D, True, [(0, 0)], "scalar layout"))

    o = guard(_nm("to_scalar_multi_image", **structure) + "/ensures:layout", "ensures", body, structure)
    o["replay"] = dict(scenario="to_scalar_layout", model=o.get("model"), **structure)
    obs = [o, cover(_nm("to_scalar_multi_image", **structure) + "/cover:pre", W.pre, structure)]
    if any(k[0] >= 1 for k in sig):
        # canary: component-major instead of channel-major order must be refuted
        cdim2 = arr.mksum([arr.mkprod([Atom(D) for _ in range(k[0])] + [chans[i]]) for i, k in enumerate(sig)])

        def elem2(idx):
            ci = idx[nb]
            b, inner = (0, ci) if len(sig) == 1 else (ci.b, ci.idx)
            k = sig[b][0]
            parts = list(inner) if k > 0 else [inner]
            c, comps = parts[-1], parts[:-1]
            return blocks[sig[b]].elem(list(idx[:nb]) + [c] + list(idx[nb + 1:]) + comps)

        spec2 = {(0, 0): arr.SArray(list(lead) + [cdim2] + W.spatial, elem2)}
        obs.append(guard(_nm("to_scalar_multi_image", **structure) + "/canary:component-major", "canary",
                         lambda: all_paths(W.pre, lambda: x.to_scalar_multi_image(), lambda y: cmp_blocks(y, spec2, D, True, [(0, 0)], "wrong layout")), structure))
    return obs


def ob_copy_pytree(D, nlead, sig):
    s = dict(D=D, nlead=nlead, sig=sig)
    rs = list(reversed(sig))

    def pytree(x):
        leaves, rebuild = lib.tree_flatten_obj(x)
        return rebuild(leaves)

    obs = [_rt("copy", s, _mk(D, nlead, sig), lambda x: x.copy()),
           _rt("tree_flatten->tree_unflatten", dict(D=D, nlead=nlead, sig=rs), _mk(D, nlead, rs), pytree, expect_order=False)]
    return obs


def ob_concat(D, nlead, sig, axis, form):
    """a.concat(b, axis).concat_inverse(signature of b, axis) == (a, b): b holds a subset of a's types plus one own"""
    G = geom()
    W = World(D)
    lead = W.lead(nlead)
    # a: all of sig; b: last type of sig (shared) + a type not in a
    extra = next((k for k in [(0, 1), (1, 1), (0, 0), (1, 0)] if k not in sig and (D > 1 or k[0] == 0)), None)
    kb = [sig[-1]] + ([extra] if extra is not None else [])
    t = tuple(i % 2 == 1 for i in range(D))

    def blk(name, k, tag):
        dims = list(lead)
        dims[axis] = Atom(sint(f"{tag}{k[0]}{k[1]}", W.pre), f"{tag}{k[0]}{k[1]}")
        return arr.source(f"{name}_{k[0]}{k[1]}", dims + W.spatial + [Atom(D) for _ in range(k[0])])

    A = {k: blk("a", k, "P") for k in sig}
    B = {k: blk("b", k, "Q") for k in kb}
    structure = dict(D=D, nlead=nlead, sig=sig, axis=axis, form=form)

    def run():
        a = G.MultiImage(dict(A), D, t)
        b = G.MultiImage(dict(B), D, t)
        c = a.concat(b, axis=axis)
        if form == "tuple":
            sg = b.get_signature()
        else:
            sg = {k: v.shape[axis] for k, v in b.items()}
            if form == "dict+zero":          # an explicit "nothing of this type" entry for every type that only a holds
                sg.update({k: 0 for k in A if k not in B})
        return c.concat_inverse(sg, axis)

    def post(res):
        a2, b2 = res
        # types only in b come back in b; shared: split; only in a: a.  a2 has exactly a's types, b2 b's
        st = cmp_blocks(a2, A, D, t, None, "first part")
        if st[0] != "proved":
            return st
        return cmp_blocks(b2, B, D, t, None, "split-off part")

    o = guard(_nm("concat->concat_inverse", **structure) + "/ensures:roundtrip", "ensures", lambda: all_paths(W.pre, run, post), structure)
    o["replay"] = dict(scenario="concat", model=o.get("model"), **structure)
    return [o]


def ob_expand(D, nlead, sig, axis):
    """expand(axis,T) then combine_axes / merge_axes restores; three-axis recombination too"""
    G = geom()
    obs = []
    for variant in ["combine2", "merge2", "combine3"]:
        W = World(D)
        lead = W.lead(nlead)
        T = Atom(sint("T", W.pre), "T")
        T2 = Atom(sint("U", W.pre), "U")
        t = True
        blocks = {}
        for k in sig:
            dims = list(lead)
            c = Atom(sint(f"c{k[0]}{k[1]}", W.pre), f"c{k[0]}{k[1]}")
            dims[axis] = arr.mkprod([c, T] if variant != "combine3" else [c, T2, T])
            blocks[k] = arr.source(f"x_{k[0]}{k[1]}", dims + W.spatial + [Atom(D) for _ in range(k[0])])
        structure = dict(D=D, nlead=nlead, sig=sig, axis=axis, variant=variant)

        def run(variant=variant, blocks=blocks, T=T, T2=T2):
            x = G.MultiImage(dict(blocks), D, t)
            if variant == "combine2":
                return x.expand(axis, T.ext).combine_axes((axis, axis + 1))
            if variant == "merge2":
                return x.expand(axis, T.ext).merge_axes([axis, axis + 1])
            return x.expand(axis, T.ext).expand(axis, T2.ext).combine_axes((axis, axis + 1, axis + 2))

        def post(y, blocks=blocks):
            return cmp_blocks(y, blocks, D, t, list(blocks.keys()), "expand/combine")

        o = guard(_nm("expand->combine", **structure) + "/ensures:roundtrip", "ensures",
                  lambda run=run, post=post, W=W: all_paths(W.pre, run, post), structure)
        o["replay"] = dict(scenario="expand", model=o.get("model"), **structure)
        obs.append(o)
        # the intermediate layout: expanded[c, t] == x[c*T + t]  (element-wise spec on the split axis)
        if variant == "combine2":
            def run_e(blocks=blocks, T=T):
                return G.MultiImage(dict(blocks), D, t).expand(axis, T.ext)

            def post_e(y, blocks=blocks):
                spec = {}
                for k, b in blocks.items():
                    d = b.dims[axis]
                    dims = b.dims[:axis] + [d.kids[0], d.kids[1]] + b.dims[axis + 1:]
                    spec[k] = arr.SArray(dims, (lambda b: lambda idx: b.elem(list(idx[:axis]) + [(idx[axis], idx[axis + 1])] + list(idx[axis + 2:])))(b))
                return cmp_blocks(y, spec, D, t, list(blocks.keys()), "expand layout")
            obs.append(guard(_nm("expand", **structure) + "/ensures:layout(c,t)<->c*T+t", "ensures",
                             lambda run_e=run_e, post_e=post_e, W=W: all_paths(W.pre, run_e, post_e), structure))
    return obs


def ob_pmap(D, nlead, sig, ndev):
    G = geom()
    W = World(D)
    m = sint("per_device", W.pre)
    lead = [Atom(mk(zi(m) * ndev), "L")] + W.lead(nlead - 1, "R")
    blocks = {k: arr.source(f"x_{k[0]}{k[1]}", lead + W.spatial + [Atom(D) for _ in range(k[0])]) for k in sig}
    structure = dict(D=D, nlead=nlead, sig=sig, ndev=ndev)
    devices = [f"dev{i}" for i in range(ndev)]

    def run():
        return G.MultiImage(dict(blocks), D, True).reshape_pmap(devices).merge_axes([0, 1])

    o = guard(_nm("reshape_pmap->merge_axes", **structure) + "/ensures:roundtrip", "ensures",
              lambda: all_paths(W.pre, run, lambda y: cmp_blocks(y, blocks, D, True, list(blocks.keys()), "pmap split/merge")), structure)
    o["replay"] = dict(scenario="pmap", model=o.get("model"), **structure)

    # layout: device d, row r holds sample d*(L/ndev) + r  (only regrouping, never reordering)
    def run_l():
        return G.MultiImage(dict(blocks), D, True).reshape_pmap(devices)

    def post_l(y):
        spec = {}
        for k, b in blocks.items():
            dims = [Atom(ndev), Atom(m)] + b.dims[1:]
            spec[k] = arr.SArray(dims, (lambda b: lambda idx: b.elem([arr.Flat(zi(idx[0]) * zi(m) + zi(idx[1]))] + list(idx[2:])))(b))
        return cmp_blocks(y, spec, D, True, list(blocks.keys()), "pmap layout")
    o2 = guard(_nm("reshape_pmap", **structure) + "/ensures:layout(d,r)<->d*(L/n)+r", "ensures", lambda: all_paths(W.pre, run_l, post_l), structure)
    return [o, o2]


def ob_images(D, chans):
    """from_images(list) then to_images gives the images back (channel counts enumerated: python loop)"""
    G = geom()
    obs = []
    for nch in chans:
        for types in ([[(0, 0)], [(1, 0), (0, 0)], [(1, 1), (0, 1), (1, 0)]] if D > 1 else [[(0, 0)], [(0, 1), (0, 0)]]):
            W = World(D)
            t = tuple(i % 2 == 0 for i in range(D))
            imgs = []
            for ti, k in enumerate(types):
                for c in range(nch):
                    imgs.append((k, arr.source(f"img{ti}_{c}", W.spatial + [Atom(D) for _ in range(k[0])])))
            structure = dict(D=D, channels_per_type=nch, types=types)

            def run(imgs=imgs, t=t):
                gis = [G.GeometricImage(d, k[1], D, t) for k, d in imgs]
                mi = G.MultiImage.from_images(gis)
                return mi, mi.to_images()

            def post(res, imgs=imgs, t=t, types=types):
                mi, back = res
                if list(mi.keys()) != types:
                    return "refuted", f"from_images key order {list(mi.keys())} != {types}", None
                if len(back) != len(imgs):
                    return "refuted", f"{len(back)} images back, {len(imgs)} put in", None
                # to_images lists per type (key order), channels in order
                exp = [im for k in types for im in imgs if im[0] == k]
                for gi, (k, d) in zip(back, exp):
                    if (gi.k, gi.parity, gi.D, tuple(gi.is_torus)) != (k[0], k[1], D, t):
                        return "refuted", f"metadata (k,parity,D,is_torus) {(gi.k, gi.parity, gi.D, gi.is_torus)} != {(k[0], k[1], D, t)}", None
                    st, detail, m = arr.compare(gi.data, d, "image data")
                    if st != "proved":
                        return st, detail, m
                return "proved", f"{len(back)} images", None

            o = guard(_nm("from_images->to_images", **structure) + "/ensures:roundtrip", "ensures",
                      lambda run=run, post=post, W=W: all_paths(W.pre, run, post), structure)
            o["replay"] = dict(scenario="images", model=o.get("model"), **structure)
            o["bounded_in"] = "channel count (python loop over channels)"
            obs.append(o)
    return obs


def ob_gi_copy_pytree(D):
    G = geom()
    obs = []
    for k, p in ([(0, 0), (1, 1), (2, 0), (3, 1)] if D > 1 else [(0, 0), (0, 1)]):
        W = World(D)
        t = tuple(i % 2 == 1 for i in range(D))
        d = arr.source("img", W.spatial + [Atom(D) for _ in range(k)])
        structure = dict(D=D, k=k, parity=p)
        for which in ["copy", "pytree"]:
            def run(which=which):
                gi = G.GeometricImage(d, p, D, t)
                if which == "copy":
                    return gi.copy()
                leaves, rebuild = lib.tree_flatten_obj(gi)
                return rebuild(leaves)

            def post(gi):
                if (gi.k, gi.parity, gi.D, tuple(gi.is_torus)) != (k, p, D, t):
                    return "refuted", f"metadata {(gi.k, gi.parity, gi.D, gi.is_torus)} != {(k, p, D, t)}", None
                sd = tuple(gi.spatial_dims)
                if len(sd) != D or not all(arr.ext_eq(a, b.ext) for a, b in zip(sd, W.spatial)):
                    return "refuted", f"spatial_dims {sd}", None
                return arr.compare(gi.data, d, "data")

            obs.append(guard(_nm(f"GeometricImage.{which}", **structure) + "/ensures:identity", "ensures",
                             lambda run=run, post=post, W=W: all_paths(W.pre, run, post), structure))
    return obs


def ob_save_load():
    """ml.save / ml.load against the ASSUMED contract of Equinox leaf serialisation:
         tree_serialise_leaves(f, m)    requires f writable-binary; appends the record leaves(m) at f's position
         tree_deserialise_leaves(f, l)  requires f readable-binary; returns l with its leaves replaced by the record at f's position
       and a ghost file system for open(): 'wb' truncates, 'ab' appends, 'rb' reads from the start, leaving the with-block closes.
       Obligation (modular): for every model m, like-model l, file name and file-system history,
         load(fn, l) after save(fn, m) == l with the leaves of m  -- whole model written, right file, right mode, result returned."""
    import sys as _s
    from ..loader import load as _load
    T = _load()["ginjax.ml.training"]
    eqx = _s.modules["equinox"]

    class Model:
        """ghost pytree: its array leaves and its non-array leaves (python bool / int / float fields such as `inference`, `eps`)
        are two opaque tokens; None = that part has been filtered out"""

        def __init__(self, n, arrays="own", scalars="own"):
            self.n = n
            self.arrays = ("arrays", n) if arrays == "own" else arrays
            self.scalars = ("scalars", n) if scalars == "own" else scalars

        def __repr__(self):
            return f"<model {self.n}: {self.arrays}, {self.scalars}>"

    IS_ARRAY, IS_INEXACT = object(), object()

    def g_filter(m, spec, inverse=False, **k):
        if not isinstance(m, Model) or spec not in (IS_ARRAY, IS_INEXACT):
            raise sym.OutOfReach("eqx.filter with a filter specification outside the ghost model")
        keep_arrays = not inverse
        return Model(m.n, m.arrays if keep_arrays else None, None if keep_arrays else m.scalars)

    def g_partition(m, spec, **k):
        return g_filter(m, spec), g_filter(m, spec, inverse=True)

    def g_combine(*ms, **k):
        a = next((m.arrays for m in ms if m.arrays is not None), None)
        sc = next((m.scalars for m in ms if m.scalars is not None), None)
        return Model(ms[0].n, a, sc)

    class File:
        def __init__(self, fs, name, mode):
            self.fs, self.name, self.mode, self.closed, self.pos = fs, name, mode, False, 0
            if mode not in ("wb", "rb", "ab"):
                raise sym.OutOfReach(f"open mode {mode!r} outside the ghost file system model")
            if mode == "wb":
                fs[name] = []
            elif mode == "ab":
                fs.setdefault(name, [])
            elif name not in fs:
                raise FileNotFoundError(name)

        def __enter__(self):
            return self

        def __exit__(self, *a):
            self.closed = True
            return False

    def run(history):
        fs = {}
        events = []

        def ghost_open(name, mode="r", *a, **k):
            f = File(fs, name, mode)
            events.append(f)
            return f

        def ser(f, m, *a, **k):
            if not isinstance(f, File) or f.closed or f.mode not in ("wb", "ab"):
                raise sym.Refuted("tree_serialise_leaves needs an open binary file in write mode", None)
            fs[f.name].append(("leaves", m.arrays, m.scalars))

        def deser(f, like, *a, **k):
            if not isinstance(f, File) or f.closed or f.mode != "rb":
                raise sym.Refuted("tree_deserialise_leaves needs an open binary file in read mode", None)
            rec = fs[f.name]
            if f.pos >= len(rec):
                raise sym.Refuted("tree_deserialise_leaves reads past the end of the file", None)
            f.pos += 1
            r = rec[f.pos - 1]
            # every leaf PRESENT in `like` is replaced by the recorded one; structures must agree
            if (like.arrays is None) != (r[1] is None) or (like.scalars is None) != (r[2] is None):
                raise sym.Refuted("tree_deserialise_leaves: the like-tree and the saved tree have different structures", None)
            return Model(like.n, r[1], r[2])

        saved = (T.__dict__.get("open"), eqx.tree_serialise_leaves, eqx.tree_deserialise_leaves)
        names = ["filter", "partition", "combine", "is_array", "is_inexact_array"]
        saved_eqx = {n_: eqx.__dict__.get(n_) for n_ in names}
        T.__dict__["open"] = ghost_open
        eqx.tree_serialise_leaves, eqx.tree_deserialise_leaves = ser, deser
        eqx.filter, eqx.partition, eqx.combine, eqx.is_array, eqx.is_inexact_array = g_filter, g_partition, g_combine, IS_ARRAY, IS_INEXACT
        try:
            out = []
            for op, fn, m in history:
                if op == "save":
                    r = T.save(fn, m)
                    if r is not None:
                        return "refuted", "save returns a value", None
                else:
                    out.append(T.load(fn, m))
        finally:
            if saved[0] is None:
                T.__dict__.pop("open", None)
            else:
                T.__dict__["open"] = saved[0]
            eqx.tree_serialise_leaves, eqx.tree_deserialise_leaves = saved[1], saved[2]
            for n_, v_ in saved_eqx.items():
                if v_ is None:
                    eqx.__dict__.pop(n_, None)
                else:
                    setattr(eqx, n_, v_)
        if not all(f.closed for f in events):
            return "refuted", "a file is left open", None
        return out

    m1, m2, m3, like = Model("m1"), Model("m2"), Model("m3"), Model("like")
    histories = {
        "save;load": ([("save", "a.eqx", m1), ("load", "a.eqx", like)], [m1]),
        "save;save(same file);load": ([("save", "a.eqx", m1), ("save", "a.eqx", m2), ("load", "a.eqx", like)], [m2]),
        "two files interleaved": ([("save", "a.eqx", m1), ("save", "b.eqx", m2), ("load", "a.eqx", like), ("load", "b.eqx", m3), ("load", "a.eqx", m3)],
                                  [m1, m2, m1]),
    }
    obs = []
    for nm, (h, exp) in histories.items():
        def body(h=h, exp=exp):
            got = run(h)
            if isinstance(got, tuple):
                return got
            # every leaf of the loaded model -- arrays AND python-scalar fields -- is the saved model's
            ok = len(got) == len(exp) and all(isinstance(g, Model) and g.arrays == e.arrays and g.scalars == e.scalars for g, e in zip(got, exp))
            if not ok:
                return "refuted", f"load returned {got!r}; every leaf (arrays and non-array fields) must be that of {exp!r}", None
            return "proved", f"{len(h)} operations", None
        o = guard(f"C13/save->load/history={nm}/ensures:roundtrip(modulo the assumed Equinox contract)", "ensures", body, dict(history=nm))
        o["replay"] = dict(scenario="saveload")
        obs.append(o)
    return obs
