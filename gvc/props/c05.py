"""C05 -- image algebra is type-sound: the declared (k, parity) is how results transform."""
import itertools
import numpy as np
import z3
from .. import sym, arr, lib
from ..sym import SInt, SReal, zi, mk
from ..arr import Atom
from ..core import Ob, guard
from ..loader import load
from ..specs.act import act_sym, rotated_flags
from .common import World, all_paths, cover, geom, sint
from . import c02

LEVEL = "proof"
MANIFEST = {
    "category": "proof",
    "technique": "contract-based deductive verification, relational mode: every operation of the GeometricImage algebra executed on symbolic images a and on g.a (the specified action) for every g in B_d; obligation op(g.a, g.b) == g._{declared type} op(a, b) element-wise, plus the typing rule of the declared (k, parity); z3; composition of contracts gives arbitrary expression trees",
    "text": "For each operation (sum, difference, scalar multiple, pixel-wise tensor product, tensor-index transposition, single and multiple Kronecker contraction, Levi-Civita contraction, pixel norm; convolution is C01) and every g in B_d (exhaustive), operand types k<=3 (d=2) / k<=2 (d=3), both parities, ALL spatial extents and pixel values: the result on transformed operands equals g acting with the declared (k,parity) on the original result, and the declared type equals the statement's typing rule. Each operation therefore maps correctly-typed-and-transforming operands to a correctly-typed-and-transforming result, so every finite expression tree does (structural induction: the only meta-step). Contraction order/orientation independence and commutativity of the tensor product up to transposition are direct element-wise VCs. Tests check a few shapes and elements.",
    "note": "reals not floats; sqrt uninterpreted (congruence only); tensor components enumerated concretely; the induction over expression trees is the standard modular argument and not mechanised; convolution with arbitrary filters is covered by C01/C04",
}
FUNCTIONS = ["GeometricImage.__init__", "GeometricImage.__add__", "GeometricImage.__sub__", "GeometricImage.__mul__", "GeometricImage.__rmul__",
             "GeometricImage.times_scalar", "GeometricImage.transpose", "GeometricImage.contract", "GeometricImage.multicontract",
             "GeometricImage.levi_civita_contract", "GeometricImage.norm", "functional_geometric_image.mul", "functional_geometric_image.pre_tensor_product_expand",
             "functional_geometric_image.multicontract", "functional_geometric_image.norm", "constants.LeviCivitaSymbol.get", "constants.permutation_parity"]
TRUSTED = ["CPython for the concrete part", "structured-array engine", "z3", "act_spec (gvc/specs/act.py) as the specified action",
           "structural induction over expression trees (meta-step)"]
ASSUMPTIONS = ["reals not floats", "einsum / tensordot / transpose as documented (contract models)", "k <= 3 (d=2), k <= 2 (d=3)"]
EXPLANATION = "Exhaustive in g, unbounded in extents and values, enumerated in operand types."
GRID = {"quick": "d=2: all 8 g, k<=2 operands (products up to k=3); d=3: 12 elements incl. reflections and 3-cycles, k<=1 operands (Levi-Civita k=2)",
        "thorough": "d=2: all 8 g, k<=3; d=3: all 48 g, k<=2"}


def gsel(D, tier):
    n = len(c02.ops(D))
    if D == 2 or tier != "quick":
        return list(range(n))
    return [0, 1, 5, 9, 12, 17, 24, 26, 31, 33, 40, 47]


def _jobs_orderings(tier):
    out = [("gvc.props.c05", "ob_contraction_orderings", dict(D=2, k=4, tier=tier)), ("gvc.props.c05", "ob_contraction_orderings", dict(D=2, k=5, tier=tier))]
    if tier != "quick":
        out += [("gvc.props.c05", "ob_contraction_orderings", dict(D=3, k=4, tier=tier)), ("gvc.props.c05", "ob_contraction_orderings", dict(D=2, k=6, tier=tier))]
    return out


def jobs(tier):
    out = [("gvc.props.c05", "ob_levi_symbol", {}), ("gvc.props.c05", "ob_identities", dict(tier=tier))] + _jobs_orderings(tier)
    q = tier == "quick"
    for D in [2, 3]:
        kmax = (2 if q else 3) if D == 2 else (1 if q else 2)
        gs = gsel(D, tier)
        chunks = [gs[i:i + 6] for i in range(0, len(gs), 6)]
        for ch in chunks:
            for k in range(kmax + 1):
                for p in (0, 1):
                    out.append(("gvc.props.c05", "ob_unary", dict(D=D, k=k, p=p, gs=ch, tier=tier)))
            for k1 in range(kmax + 1):
                for k2 in range(kmax + 1):
                    if k1 + k2 > kmax + 1:
                        continue
                    for p1, p2 in [(0, 1), (1, 1), (0, 0)]:
                        out.append(("gvc.props.c05", "ob_product", dict(D=D, k1=k1, p1=p1, k2=k2, p2=p2, gs=ch)))
    # dependencies: "convolution with arbitrary filters" is part of the algebra; its relational contract is owned by C01
    # (two cheap type combinations incl. pseudo x pseudo are re-run here); the library action == act_spec is owned by C02
    for (k, p, kf, pf) in [(0, 1, 1, 1), (1, 1, 0, 0)]:
        cfg = dict(k=k, p=p, kf=kf, pf=pf, M=[3, 3], rdil=1, ldil=None, padding="TORUS", flags=[True, True])
        for gs_ in ([0, 1, 2, 3], [4, 5, 6, 7]):
            out.append(("gvc.props.c01", "ob_covariant", dict(D=2, cfg=cfg, gs=gs_)))
    from .common import dep_jobs
    out += dep_jobs("gvc.props.c02", lambda fn, kw: fn == "ob_entry" and kw["D"] >= 2)
    return out


def _img(G, D, k, p, name, W):
    A = arr.source(name, W.spatial + [Atom(D) for _ in range(k)])
    return A


def _rel(name, kind, D, W, mk_args, op, rule, gs, structure):
    """relational obligation for one operation over the group elements gs.
    mk_args(transform) -> operands (GeometricImage...), transform = None or g
    op(*operands) -> GeometricImage;  rule: (k_expected, p_expected)"""
    Gm = geom()
    obs = []
    G = c02.ops(D)
    arr.ENUM_SMALL[0] = 3
    flags = (True, False, False)[:D]
    for gi in gs:
        g = np.asarray(G[gi])

        def body(g=g):
            def run():
                r0 = op(*mk_args(None, flags))
                rg = op(*mk_args(g, rotated_flags(flags, g)))
                return r0, rg

            def post(res):
                r0, rg = res
                if (r0.k, r0.parity) != rule or (rg.k, rg.parity) != rule:
                    return "refuted", f"declared (k,parity) = {(r0.k, r0.parity)} / {(rg.k, rg.parity)}, typing rule says {rule}", None
                if r0.D != D or tuple(r0.is_torus) != tuple(flags):
                    return "refuted", f"D / is_torus not carried: {r0.D} {r0.is_torus}", None
                spec = act_sym(r0.data, D, r0.k, r0.parity, g)
                return arr.compare(rg.data, spec, "op(g.a, g.b) vs g.op(a,b)")
            return all_paths(W.pre, run, post)

        o = guard(f"{name},g#{gi}/ensures:transforms-as-declared", kind, body, dict(structure, g=g.tolist()))
        o["replay"] = dict(structure, g=g.tolist(), model=o.get("model"))
        obs.append(o)
    return obs


def ob_unary(D, k, p, gs, tier):
    Gm = geom()
    W = World(D)
    A = _img(Gm, D, k, p, "A", W)
    B = _img(Gm, D, k, p, "B", W)
    s = SReal(z3.Real("s"))

    def args2(g, fl):
        if g is None:
            return Gm.GeometricImage(A, p, D, fl), Gm.GeometricImage(B, p, D, fl)
        return Gm.GeometricImage(act_sym(A, D, k, p, g), p, D, fl), Gm.GeometricImage(act_sym(B, D, k, p, g), p, D, fl)

    def args1(g, fl):
        return (args2(g, fl)[0],)

    obs = []
    base = dict(D=D, k=k, parity=p)
    N = lambda op: f"C05/GeometricImage.{op}/D={D},k={k},p={p}"
    obs += _rel(N("__add__"), "ensures", D, W, args2, lambda a, b: a + b, (k, p), gs, dict(base, op="add"))
    obs += _rel(N("__sub__"), "ensures", D, W, args2, lambda a, b: a - b, (k, p), gs, dict(base, op="sub"))
    obs += _rel(N("__mul__(scalar)"), "ensures", D, W, args1, lambda a: a * s, (k, p), gs, dict(base, op="smul"))
    obs += _rel(N("__rmul__(scalar)"), "ensures", D, W, args1, lambda a: s * a, (k, p), gs, dict(base, op="rsmul"))
    obs += _rel(N("norm"), "ensures", D, W, args1, lambda a: a.norm(), (0, 0), gs, dict(base, op="norm"))
    if k >= 2:
        perm = tuple(reversed(range(k)))
        obs += _rel(N(f"transpose{perm}"), "ensures", D, W, args1, lambda a: a.transpose(perm), (k, p), gs, dict(base, op="transpose", perm=list(perm)))
        pairs = [(0, 1)] + ([(0, k - 1)] if k > 2 else [])
        for (i, j) in pairs:
            obs += _rel(N(f"contract({i},{j})"), "ensures", D, W, args1, lambda a, i=i, j=j: a.contract(i, j), (k - 2, p), gs, dict(base, op="contract", i=i, j=j))
        obs += _rel(N("multicontract(((0,1),))"), "ensures", D, W, args1, lambda a: a.multicontract(((0, 1),)), (k - 2, p), gs, dict(base, op="multicontract"))
    if k >= D - 1 and k >= 1:
        idxs = tuple(range(D - 1))
        obs += _rel(N(f"levi_civita_contract{idxs}"), "ensures", D, W, args1, lambda a: a.levi_civita_contract(idxs if D > 2 else idxs[0]),
                    (k - D + 2, (p + 1) % 2), gs, dict(base, op="levi_civita", indices=list(idxs)))
    obs.append(cover(N("cover:pre") + f"#{gs[0]}", W.pre, base))
    # canary (once): the norm declared as a pseudo-scalar must be refuted for a reflection
    if k == 1 and p == 0:
        G = c02.ops(D)
        refl = next(i for i in gs if round(float(np.linalg.det(np.asarray(G[i], dtype=float)))) == -1) if any(round(float(np.linalg.det(np.asarray(G[i], dtype=float)))) == -1 for i in gs) else None
        if refl is not None:
            g = np.asarray(G[refl])

            def canary():
                a0, ag = args1(None, (True,) * D)[0], args1(g, (True,) * D)[0]
                return arr.compare(ag.norm().data, act_sym(a0.norm().data, D, 0, 1, g), "norm as pseudoscalar (wrong)")
            obs.append(guard(N("norm") + f",g#{refl}/canary:norm-declared-pseudoscalar", "canary", lambda: all_paths(W.pre, canary, lambda r: r), base))
    return obs


def ob_product(D, k1, p1, k2, p2, gs):
    Gm = geom()
    W = World(D)
    A = _img(Gm, D, k1, p1, "A", W)
    B = _img(Gm, D, k2, p2, "B", W)

    def args(g, fl):
        if g is None:
            return Gm.GeometricImage(A, p1, D, fl), Gm.GeometricImage(B, p2, D, fl)
        return Gm.GeometricImage(act_sym(A, D, k1, p1, g), p1, D, fl), Gm.GeometricImage(act_sym(B, D, k2, p2, g), p2, D, fl)

    base = dict(D=D, k1=k1, p1=p1, k2=k2, p2=p2, op="mul")
    return _rel(f"C05/GeometricImage.__mul__(image)/D={D},({k1},{p1})x({k2},{p2})", "ensures", D, W, args, lambda a, b: a * b,
                (k1 + k2, (p1 + p2) % 2), gs, base)


def ob_identities(tier):
    """contraction independent of pair order / orientation; tensor product commutative up to transposition"""
    Gm = geom()
    obs = []
    arr.ENUM_SMALL[0] = 3
    for D in [2, 3]:
        W = World(D)
        k = 4 if D == 2 else 3
        if k >= 4:
            A = arr.source("A", W.spatial + [Atom(D) for _ in range(4)])

            def body_order():
                a = Gm.GeometricImage(A, 0, D)
                x = a.multicontract(((0, 1), (2, 3))).data
                y = a.multicontract(((2, 3), (0, 1))).data
                z = a.multicontract(((1, 0), (3, 2))).data
                w = a.contract(0, 1).contract(0, 1).data
                for nm, v in [("pair order", y), ("order inside a pair", z), ("serial contraction", w)]:
                    st = arr.compare(v, x, nm)
                    if st[0] != "proved":
                        return st
                return "proved", "3 variants agree", None
            obs.append(guard(f"C05/lemma:contraction-order-independence/D={D}", "lemma", lambda: all_paths(W.pre, body_order, lambda r: r), dict(D=D)))
        A3 = arr.source("A", W.spatial + [Atom(D) for _ in range(3)])

        def body_swap(A3=A3, W=W, D=D):
            a = Gm.GeometricImage(A3, 1, D)
            return arr.compare(a.contract(0, 2).data, a.contract(2, 0).data, "contract(i,j) vs contract(j,i)")
        obs.append(guard(f"C05/lemma:contraction-orientation-independence/D={D}", "lemma", lambda body_swap=body_swap, W=W: all_paths(W.pre, body_swap, lambda r: r), dict(D=D)))
        for (k1, k2) in [(1, 1), (2, 1), (0, 2)]:
            P = arr.source("P", W.spatial + [Atom(D) for _ in range(k1)])
            Q = arr.source("Q", W.spatial + [Atom(D) for _ in range(k2)])

            def body_comm(P=P, Q=Q, k1=k1, k2=k2, D=D):
                a, b = Gm.GeometricImage(P, 0, D), Gm.GeometricImage(Q, 1, D)
                ab, ba = a * b, b * a
                perm = tuple(range(k2, k1 + k2)) + tuple(range(k2))     # move b's indices behind a's
                if (ab.k, ab.parity) != (ba.k, ba.parity):
                    return "refuted", "types of a*b and b*a differ", None
                return arr.compare(ba.transpose(perm).data, ab.data, "b*a transposed vs a*b")
            obs.append(guard(f"C05/lemma:tensor-product-commutes-up-to-transposition/D={D},k=({k1},{k2})", "lemma",
                             lambda body_comm=body_comm, W=W: all_paths(W.pre, body_comm, lambda r: r), dict(D=D)))
    return obs


def contract_spec(A, D, k, pairs):
    """Kronecker contraction written from the statement: result[x, r] = sum over one index value per pair of A[x, t], where t
    agrees with r on the un-contracted positions (kept in increasing order) and has the pair's summation value at both of its
    positions.  Independent of how the pairs are ordered or oriented by construction."""
    import itertools
    from ..arr import t_bin
    used = {i for pr in pairs for i in pr}
    rest = [i for i in range(k) if i not in used]
    dims = list(A.dims[:len(A.dims) - k]) + [Atom(D) for _ in rest]
    nsp = len(A.dims) - k

    def elem(idx):
        x, r = list(idx[:nsp]), list(idx[nsp:])
        if any(arr.is_z3(v) for v in r):
            raise sym.OutOfReach("contract_spec needs concrete tensor indices")
        tot = 0
        for vals in itertools.product(range(D), repeat=len(pairs)):
            t = [None] * k
            for pos, v in zip(rest, r):
                t[pos] = int(v)
            for (a, b), v in zip(pairs, vals):
                t[a] = t[b] = v
            tot = t_bin("add", tot, A.elem(x + t))
        return tot
    return arr.SArray(dims, elem, "real")


def ob_contraction_orderings(D, k, tier):
    """the statement's clause 'contraction is independent of the order of the pairs and of the order inside a pair', in full: for
    EVERY way of choosing npairs disjoint index pairs of a k-tensor, every ordering of the pairs and every orientation of each pair,
    the real multicontract (method and functional entry point) equals contract_spec of the un-ordered pairing"""
    import itertools
    Gm = geom()
    arr.ENUM_SMALL[0] = 3
    W = World(D)
    A = arr.source("A", W.spatial + [Atom(D) for _ in range(k)])
    obs = []

    def pairings(idxs, n):
        if n == 0:
            yield []
            return
        idxs = list(idxs)
        for ai in range(len(idxs)):
            for bi in range(ai + 1, len(idxs)):
                a, b = idxs[ai], idxs[bi]
                rest = [i for i in idxs[ai + 1:] if i != b]       # first elements increasing: each pairing once
                for more in pairings(rest, n - 1):
                    yield [(a, b)] + more
    for npairs in ([2] if k < 6 else [2, 3]):
        for pairing in pairings(range(k), npairs):
            spec = contract_spec(A, D, k, pairing)

            def body(pairing=pairing, spec=spec, npairs=npairs):
                a = Gm.GeometricImage(A, 1, D)
                n = 0
                for order in itertools.permutations(range(npairs)):
                    for flips in itertools.product([0, 1], repeat=npairs):
                        idx = tuple((pairing[o][1], pairing[o][0]) if f else pairing[o] for o, f in zip(order, flips))
                        out = a.multicontract(idx)
                        if (out.k, out.parity, out.D) != (k - 2 * npairs, 1, D):
                            return "refuted", f"multicontract({idx}) declares type {(out.k, out.parity)}", None
                        st = arr.compare(out.data, spec, f"multicontract({idx}) vs the un-ordered contraction")
                        if st[0] != "proved":
                            return st
                        n += 1
                return "proved", f"{n} orderings / orientations agree with the definition", None
            nm = ",".join(f"{a}{b}" for a, b in pairing)
            o = guard(f"C05/multicontract/D={D},k={k},pairing={nm}/ensures:independent-of-pair-order-and-orientation", "ensures",
                      lambda body=body: all_paths(W.pre, body, lambda r: r), dict(D=D, k=k, pairing=nm))
            o["replay"] = dict(op="multicontract_orderings", D=D, k=k, pairing=[list(pr) for pr in pairing], model=o.get("model"))
            obs.append(o)
    return obs


def ob_levi_symbol():
    """LeviCivitaSymbol.get(D) is the sign-of-permutation tensor (closed function, D = 2, 3)"""
    C = load()["ginjax.geometric.constants"]
    obs = []
    for D in [2, 3]:
        def body(D=D):
            t = C.LeviCivitaSymbol.get(D)
            t = arr.lift(t)
            for idx in itertools.product(range(D), repeat=D):
                if len(set(idx)) < D:
                    exp = 0
                else:
                    inv = sum(1 for i in range(D) for j in range(i + 1, D) if idx[i] > idx[j])
                    exp = -1 if inv % 2 else 1
                if t.elem(list(idx)) != exp or C.permutation_parity(idx) != exp:
                    return "refuted", f"epsilon{idx} = {t.elem(list(idx))}, expected {exp}", None
            return "proved", f"{D ** D} entries", None
        obs.append(guard(f"C05/LeviCivitaSymbol.get/D={D}/ensures:sign-of-permutation", "ensures", body, dict(D=D)))
    return obs
