"""C20 -- every model maps its input signature to exactly its requested output signature."""
import itertools
import numpy as np
import z3
from .. import sym, arr, lib
from ..sym import zi
from ..core import Ob, guard
from .common import cover
from . import nets, c07

LEVEL = "proof"
MANIFEST = {
    "category": "proof",
    "technique": "contract-based deductive verification by composition of functional contracts: the real model constructors and __call__ methods (UNet, ResNet, DilResNet, ConvBlock; equivariant and conventional mode) are executed with symbolic depth / channel counts / spatial extents and every layer replaced by its functional contract (C11: ConvContract emits exactly the reachable target types in target order with the requested channels and the size-formula extents; C08 blocks keep type / shape; pooling halves extents; eqx.nn.Conv / ConvTranspose shape contracts); each call-site pre-condition and the final output signature are obligations",
    "text": "For each enumerated (model class, equivariant flag, signatures incl. several types / pseudo-types and unequal SYMBOLIC channel counts, blocks, downsamples, normalisation, bias mode, activation, kernel size, d, torus flags) the run proves: every layer is called with exactly its declared input signature (this is the channel arithmetic depth*2^level, the doubling after skip concatenation, the residual sums of equal types), and the model returns exactly the requested output types (those reachable through the bank in equivariant mode), in the requested ORDER, with the requested channel counts, the input's spatial extents, D and boundary flags. The conventional mode's component flattening and its inverse are the real to_scalar / from_scalar code (value-level layout: C13).",
    "note": "modular: relies on the functional contracts of C11 / C08 / C13; eqx.nn.Conv / ConvTranspose / GroupNorm shape behaviour assumed; architectures enumerated; signature_union's key order is whatever a Python set yields (nothing may depend on it: the run uses the interpreter's actual order)",
}
FUNCTIONS = c07.FUNCTIONS + ["models.ModelWrapper.__call__", "MultiImage.to_scalar_multi_image", "MultiImage.from_scalar_multi_image", "ml.layers.LayerWrapper.__init__"]
TRUSTED = ["CPython for the concrete part", "structured-array engine", "z3 (channel / extent arithmetic)", "composition of functional contracts (meta-argument)",
           "layer contracts: C11 (ConvContract), C08 (shape-preserving blocks, pooling), assumed shape contracts of eqx.nn.Conv / ConvTranspose"]
ASSUMPTIONS = ["functional layer contracts", "architectures enumerated", "spatial extents are multiples of 2^num_downsamples (pre-condition)"]
EXPLANATION = "Unbounded in depth, channel counts, extents, filter counts; enumerated in architecture configurations."
GRID = {"quick": "D=2; 14 equivariant + 8 conventional configurations", "thorough": "adds D=3 and deeper configurations"}


def configs(tier):
    out = []
    for c in c07.configs(tier):
        out.append(dict(c, equivariant=True))
    q = tier == "quick"
    A, B = [[0, 0], [1, 0]], [[1, 0], [0, 0]]
    conv = [dict(arch="ResNet", sin=A, sout=B, num_blocks=1, num_conv=2, group_norm=True, preact=True),
            dict(arch="ResNet", sin=[[1, 1], [0, 0], [2, 0]], sout=[[2, 0], [0, 1]], num_blocks=1, num_conv=1, group_norm=False, preact=False),
            dict(arch="DilResNet", sin=A, sout=B, num_blocks=1, group_norm=False),
            dict(arch="DilResNet", sin=B, sout=[[0, 0]], num_blocks=1, group_norm=True),
            dict(arch="UNet", sin=A, sout=B, num_downsamples=1, num_conv=1, group_norm=False),
            dict(arch="UNet", sin=B, sout=A, num_downsamples=2, num_conv=2, group_norm=True),
            dict(arch="ConvBlock", sin=[[0, 0]], sout=[[0, 0]], group_norm=True, activation="relu"),
            dict(arch="UNet", sin=A, sout=[[1, 1], [0, 0]], num_downsamples=1, num_conv=1, group_norm=False, use_bias=False),
            # requested outputs that are all of tensor order 0 but not all true scalars: parities and the split between the
            # rank-0 types must still be restored by the inverse flattening
            dict(arch="ResNet", sin=A, sout=[[0, 1]], num_blocks=1, num_conv=1, group_norm=False, preact=True),
            dict(arch="DilResNet", sin=A, sout=[[0, 0], [0, 1]], num_blocks=1, group_norm=False),
            dict(arch="UNet", sin=[[0, 1]], sout=[[0, 1], [0, 0]], num_downsamples=1, num_conv=1, group_norm=False)]
    for c in conv:
        out.append(dict(c, D=2, equivariant=False))
    if not q:
        out.append(dict(conv[0], D=3, equivariant=False))
        out.append(dict(conv[4], D=3, equivariant=False))
    # more equivariant signatures: requested order different from emission order, missing filters
    out.append(dict(arch="ResNet", D=2, equivariant=True, sin=[[0, 0], [1, 0]], sout=[[0, 1], [0, 0]], num_blocks=1, num_conv=1, group_norm=False, preact=True))
    out.append(dict(arch="DilResNet", D=2, equivariant=True, sin=[[1, 0]], sout=[[1, 1], [0, 1], [0, 0]], num_blocks=1, group_norm=False, use_bias="mean"))
    return out


def jobs(tier):
    out = [("gvc.props.c20", "ob_signature", dict(cfg=c)) for c in configs(tier)] + [("gvc.props.c20", "ob_canary", {})]
    # dependency: every equivariant model ends in a ConvContract, replaced here by its functional contract ("exactly the
    # reachable requested types, in the order of target_keys, with the requested channels"), which is owned by C11
    from .common import dep_jobs
    out += dep_jobs("gvc.props.c11", lambda fn, kw: fn in ("ob_call", "ob_init"))
    # dependency: the conventional mode's flattening of tensor components into scalar channels and its inverse (every component
    # of every type back at its own position, for signatures given in any order) is owned by C13
    out += dep_jobs("gvc.props.c13", lambda fn, kw: fn in ("ob_scalar", "ob_scalar_layout") and kw["D"] == 2 and kw["nlead"] in (1, 2))
    return out


def ob_signature(cfg):
    D = cfg["D"]
    nm = f"C20/{c07.name_of(cfg)},equivariant={cfg['equivariant']}"

    def body():
        S, y0, _, info = nets.run_model(cfg, None)
        bad = [p for p in S.problems if p[0] == "pre"]
        if bad:
            return "refuted", f"call-site pre-condition: {bad[0][1]}", None
        outsig, och = info["outsig"], info["och"]
        if cfg["equivariant"]:
            # types reachable from the input types through the bank: at the last layer; the contract of ConvContract emits
            # exactly the reachable ones in target order, so the expected list is the requested one minus unreachable types
            last = S.calls[-1]
            exp = [k for k, _ in last["out"]] if last["kind"] == "ConvContract" else outsig
            exp_req = [k for k in outsig if k in exp]
        else:
            exp_req = outsig
        if list(y0.keys()) != exp_req:
            return "refuted", f"output types / order {list(y0.keys())} != requested {exp_req}", None
        if cfg["equivariant"] and set(exp_req) != set(outsig) and not cfg.get("allow_unreachable", True):
            return "refuted", "a requested type is unreachable", None
        for k in exp_req:
            b = arr.lift(y0[k])
            if b.ndim != 1 + D + k[0]:
                return "refuted", f"block {k} has rank {b.ndim}", None
            st, m = sym.refute_or_prove(zi(b.shape[0]) == zi(och[k]))
            if st != "proved":
                return ("refuted" if st == "refuted" else "undecided"), f"block {k}: {b.shape[0]} channels, requested {och[k]}", m
            for d in range(D):
                st, m = sym.refute_or_prove(zi(b.shape[1 + d]) == zi(info["sp"][d].ext))
                if st != "proved":
                    return ("refuted" if st == "refuted" else "undecided"), f"block {k}: spatial extent {b.shape[1 + d]} != input's {info['sp'][d].ext}", m
            if tuple(sym.concrete_int(e) for e in b.shape[1 + D:]) != (D,) * k[0]:
                return "refuted", f"block {k}: tensor axes {b.shape[1 + D:]}", None
        if y0.D != D or tuple(y0.is_torus) != tuple(info["flags"]):
            return "refuted", f"D / flags not carried: {y0.D} {y0.is_torus}", None
        return "proved", f"{len(S.calls)} layer calls, output {exp_req}", None

    o = guard(nm + "/ensures:requested-output-signature", "ensures", body, cfg)
    o["replay"] = dict(scenario="signature", cfg=cfg)
    return [o]


def ob_canary():
    """requesting the output types in an order that differs from the emission order must matter: if the final layer's
    contract emitted in first-reached order the post-condition would have to fail -- checked by swapping the contract"""
    cfg = dict(arch="ResNet", D=2, equivariant=True, sin=[[0, 0], [1, 0]], sout=[[0, 1], [0, 0]], num_blocks=1, num_conv=1, group_norm=False, preact=True)

    def body():
        S, y0, _, info = nets.run_model(cfg, None)
        # a contract that emits reachable types in first-reached order: (0,0) before (0,1)
        first_reached = sorted(y0.keys())
        return ("refuted", "first-reached order differs from the requested order", None) if first_reached != [tuple(k) for k in cfg["sout"]] else ("proved", "", None)
    return [guard("C20/canary:emission-order-vs-requested-order", "canary", body)]
