"""C03 -- generated invariant filters are invariant, independent and complete.

get_unique_invariant_filters has no continuous input: for fixed (M, k, parity, D, operators) it is a closed computation
through float einsum, np.unique and argsort, outside the reach of symbolic execution, and there is nothing to quantify
over beyond its discrete arguments.  Within this family the property is decided as a RUN-TIME CONTRACT on the real
function, evaluated exhaustively over a stated finite domain -- bounded, never counted as a proof."""
import itertools
import z3
from ..core import Ob, native, guard
from ..sym import OutOfReach

LEVEL = "other"
MANIFEST = {
    "category": "other",
    "technique": "run-time contract (post-condition in exact integer / rational arithmetic) on the real get_unique_invariant_filters, evaluated exhaustively over a finite domain of (group, d, M, k, parity); bounded stand-in of contract-based verification, not a proof. Deductive (z3): (a) the generator's core for ALL filter sides M at once -- the real get_unique_invariant_filters executed with a symbolic M up to the row selection (cut point jnp.abs(filter_matrix)): every row of the matrix it builds is the group average sum_g g.e_b of a basis element (act_spec), is fixed by every listed operator, and two rows that overlap are equal up to sign; (b) GeometricFilter.normalize / rectify rescale by a non-zero scalar on every path (all pixel values); (c) get_invariant_filters(_dict/_list) against the generator's callee contract",
    "text": "For every instance of the stated finite domain the real generator is called (in one process per (group, d), sides and orders ascending, so cache / call-history effects are exercised) and its post-condition is checked exactly: every returned filter, rescaled to its primitive integer vector, is fixed by every group element; the integer matrix of the family has full row rank over Q; the family size equals the dimension of the fixed subspace computed twice independently (character formula (1/|G|) sum_g fix(g) tr(g)^k det(g)^p and the orbit construction of the general invariant filter). This is the closed-generator case of DESIGN.md 3/C03: there is no quantifier a deductive verifier could discharge beyond the enumeration itself.",
    "note": "BOUNDED: domain G in {B_d (both list orders), rotation subgroup, C2^d, trivial, <r90>, <flip> (identity listed last)}, d in {2,3}, M = 1..5 (d=2) / 1..3 (d=3, thorough 1..4), k = 0..4 (d=2; quick 0..3) / 0..2 (d=3); float output is accepted as a rational multiple of an integer filter to 1e-5; GeometricFilter.normalize / rectify (rescaling by a non-zero scalar) are exercised through the generator",
}
FUNCTIONS = ["geometric.common.get_unique_invariant_filters -- prefix up to the row selection (deductive, symbolic filter side M: get_basis, the vmap over the basis, times_group_element for every listed operator, the sum, the reshape)", "geometric.common.get_basis (deductive, symbolic shape)", "GeometricFilter.normalize (deductive: every path, symbolic pixel values)", "GeometricFilter.rectify (deductive)", "geometric.common.get_invariant_filters_dict / _list / get_invariant_filters (deductive, modular over the generator)", "geometric.common.get_unique_invariant_filters (bounded run-time contract)", "geometric.common.get_basis", "GeometricFilter.normalize", "GeometricFilter.rectify", "GeometricFilter.bigness",
             "functional_geometric_image.times_group_element (through the generator)"]
TRUSTED = ["paper argument from the three proved prefix clauses to the property for the POST-PROCESSED family: rows are P e_b with P = sum_g g (so their span is the image of P, which is the invariant subspace because P v = |G| v for invariant v -- needs only closure of the listed operators, checked in C02/ob_generators and by the run-time contract); overlapping rows are equal up to sign, so after dropping zero rows, fixing the leading sign and np.unique the surviving rows have pairwise disjoint supports, hence are independent and still span the image. The float post-processing itself (zero-row mask, sign, np.unique, scaling, argsort) is NOT verified deductively: it stays under the bounded run-time contract", "cut point: the prefix obligations end at the first call of jnp.abs inside the generator; an edit that moves work before / after it is seen by the run-time contract only",
           "the real jax / numpy execution of the generator", "exact rational rank computation and character formula in gvc/native/c03.py", "gvc/specs/invfilter.py (second, independent dimension count)"]
ASSUMPTIONS = ["bounded domain (stated in the level note)", "returned floats are rational multiples of small integer vectors (checked to 1e-5)"]
EXPLANATION = ("Exhaustive evaluation of a run-time contract on a finite parameter domain: every (group, d, M, k, parity) instance listed in structure_grid is executed on the real "
               "code and its post-condition decided exactly. Labelled bounded; 'discharged' counts contract evaluations that held, not proofs.")
GRID = {"deductive core (all M)": "d=2: B_2 x (k,p) in {(0,0),(0,1),(1,0),(1,1)}, rotations (1,0), C2^2 (1,1), <r90> (0,0), <flip> (1,0); d=3: C2^3 (0,0),(1,0), <r90> (0,1); thorough adds B_2 k=2, reversed listing, rotations (2,1), d=3 C2^3 (1,1), rotations (0,0)",
        "quick": "d=2: 7 group listings x M 1..4 x k 0..3 x p; d=3: 4 group listings x M 1..3 x k 0..1 x p",
        "thorough": "d=2: M 1..5, k 0..4; d=3: M 1..4 (B_d: 1..3), k 0..2"}

G2 = ["B_d", "B_d reversed", "rotations", "C2^d", "trivial", "<r90> (identity last)", "<flip> (identity last)"]
G3 = ["B_d", "C2^d", "<r90> (identity last)", "<flip> (identity last)"]


def jobs(tier):
    q = tier == "quick"
    out = [("gvc.props.c03", "ob_rescaling", dict(D=D)) for D in [2, 3]] + [("gvc.props.c03", "ob_assembly", dict(D=2))]
    # the generator's core for all M (deductive): which (group, type) combinations
    ga2 = [("B_d", 0, 0), ("B_d", 0, 1), ("B_d", 1, 0), ("B_d", 1, 1), ("rotations", 1, 0), ("C2^d", 1, 1), ("<r90> (identity last)", 0, 0), ("<flip> (identity last)", 1, 0)]
    if not q:
        ga2 += [("B_d", 2, 0), ("B_d reversed", 1, 1), ("rotations", 2, 1)]
    for (g, k, p) in ga2:
        for cl in ["defn", "invariant", "orbit"]:
            if cl == "invariant" and k >= 2:
                continue      # follows from defn + closure (C02 composition law); the direct proof exceeds the budget for k >= 2
            out.append(("gvc.props.c03", "ob_group_average", dict(D=2, k=k, p=p, gname=g, clauses=[cl])))
    for (g, k, p) in [("C2^d", 0, 0), ("C2^d", 1, 0), ("<r90> (identity last)", 0, 1)] + ([] if q else [("C2^d", 1, 1), ("rotations", 0, 0)]):
        for cl in ["defn", "invariant", "orbit"]:
            out.append(("gvc.props.c03", "ob_group_average", dict(D=3, k=k, p=p, gname=g, clauses=[cl])))
    for g in G2:
        out.append(("gvc.props.c03", "ob_chunk", dict(D=2, gname=g, Ms=[1, 2, 3, 4] if q else [1, 2, 3, 4, 5], ks=[0, 1, 2, 3] if q else [0, 1, 2, 3, 4])))
    for g in G3:
        big = g == "B_d"
        out.append(("gvc.props.c03", "ob_chunk", dict(D=3, gname=g, Ms=[1, 2, 3] if (q or big) else [1, 2, 3, 4], ks=[0, 1] if q else [0, 1, 2])))
    return out


def ob_chunk(D, gname, Ms, ks):
    r = native("C03", "chunk", dict(D=D, gname=gname, Ms=Ms, ks=ks), timeout=7200)
    obs = []
    if not r.get("ok"):
        return [Ob(f"C03/get_unique_invariant_filters/D={D},G={gname}", "ensures", "error", detail=str(r.get("error"))[:500])]
    for x in r["results"]:
        nm = f"C03/get_unique_invariant_filters/D={D},G={gname},M={x['M']},k={x['k']},p={x['p']}/contract:invariant+independent+complete"
        st = "proved" if x["ok"] else "refuted"
        obs.append(Ob(nm, "ensures", st, x["detail"] or "post-condition held (run-time contract, exact arithmetic)", None,
                      dict(D=D, group=gname, M=x["M"], k=x["k"], parity=x["p"], bounded=True),
                      dict(scenario="chunk", D=D, gname=gname, Ms=Ms, ks=ks)))
    return obs


# ------------------------------------------------------------------------------------------------------------------
# the parts of the anchored mechanism that ARE within reach of deduction: rescaling only, assembly loses nothing

def ob_rescaling(D):
    """GeometricFilter.normalize / rectify 'must not change the span': on EVERY path of the real methods, for symbolic pixel
    values, the result is the filter itself or self.times_scalar(c) with c provably non-zero (times_scalar's own contract --
    scalar multiple, same type -- is C05's).  jnp.max gets the weakest contract (some real number)."""
    import sys as _s
    from .. import sym, arr, lib
    from ..arr import Atom
    from ..loader import load
    GI = load()["ginjax.geometric.geometric_image"]
    jnp_ = GI.__dict__["jnp"]
    obs = []
    for (k, p) in [(0, 0), (0, 1), (1, 0), (2, 0)] + ([(1, 1)] if D == 3 else []):
        for method in ["normalize", "rectify"]:
            structure = dict(D=D, k=k, parity=p, M=3, method=method)

            def body(k=k, p=p, method=method):
                A = arr.source("F", [Atom(3) for _ in range(D)] + [Atom(D) for _ in range(k)])
                calls = []

                def times_scalar(self, c):
                    calls.append(c)
                    return ("scaled", self, c)
                saved = (GI.GeometricImage.times_scalar, GI.__dict__.get("float"), jnp_.__dict__.get("max"))
                GI.GeometricImage.times_scalar = times_scalar
                GI.__dict__["float"] = lib.FloatShim
                jnp_.max = lambda a, *x, **kw: sym.SReal(z3.Real(sym.fresh_name("max")))       # weakest contract of jnp.max
                verdicts = []
                try:
                    for out in sym.run_paths(lambda: (lambda f: (f, getattr(f, method)()))(GI.GeometricFilter(A, p, D)), []):
                        sym.CTX.path = list(out["path"])
                        if "raised" in out:
                            verdicts.append(("refuted", f"{method} raises {out['raised']!r} on a feasible path", None))
                            continue
                        f, r = out["result"]
                        if r is f:
                            verdicts.append(("proved", "returns the filter itself", None))
                        elif isinstance(r, tuple) and r[0] == "scaled" and r[1] is f:
                            c = r[2]
                            st, m = sym.refute_or_prove(sym.zr(c) != 0)
                            verdicts.append((st, f"returns self.times_scalar({c!r})", m))
                        else:
                            verdicts.append(("refuted", f"{method} returns something that is neither the filter nor a scalar multiple of it: {type(r).__name__}", None))
                        calls.clear()
                finally:
                    GI.GeometricImage.times_scalar = saved[0]
                    if saved[1] is None:
                        GI.__dict__.pop("float", None)
                    else:
                        GI.__dict__["float"] = saved[1]
                    if saved[2] is None:
                        jnp_.__dict__.pop("max", None)
                    else:
                        jnp_.max = saved[2]
                for v in verdicts:
                    if v[0] != "proved":
                        return v
                if not verdicts:
                    return "undecided", "no path", None
                return "proved", f"{len(verdicts)} paths: the filter itself or a non-zero scalar multiple", None
            obs.append(guard(f"C03/GeometricFilter.{method}/D={D},k={k},p={p}/ensures:rescaling-by-a-non-zero-scalar-only", "ensures", body, structure))
    return obs


def ob_assembly(D):
    """get_invariant_filters_dict / _list / get_invariant_filters against the callee contract of get_unique_invariant_filters
    (a list of n filters of the requested type): every family is stored under its own (D, M, k, parity) key, the list is
    the concatenation in (k, parity) order, and the MultiImage holds under (k, parity) exactly that family's filters, in order:
    nothing lost, nothing mixed between types."""
    from .. import sym, arr
    from ..arr import Atom
    from ..loader import load
    C = load()["ginjax.geometric.common"]
    GI = load()["ginjax.geometric.geometric_image"]
    M = 3
    ks, ps = [0, 1, 2], [0, 1]
    counts = {(k, p): 1 + (2 * k + p) % 3 for k in ks for p in ps}
    counts[(0, 1)] = 0          # a type without invariant filters (as for the full group at M = 3)
    fam, asked = {}, []

    def stub(M_, k, parity, D_, operators, scale="normalize"):
        asked.append((M_, k, parity, D_, scale))
        fam[(k, parity)] = [GI.GeometricFilter(arr.source(f"F{k}{parity}_{i}", [Atom(M_) for _ in range(D_)] + [Atom(D_) for _ in range(k)]), parity, D_)
                            for i in range(counts[(k, parity)])]
        return fam[(k, parity)]

    def body():
        sym.reset(todo=[])
        saved = C.__dict__["get_unique_invariant_filters"]
        C.__dict__["get_unique_invariant_filters"] = stub
        try:
            d, maxn = C.get_invariant_filters_dict([M], ks, ps, D, "OPS", "one")
            first = dict(fam)
            lst = C.get_invariant_filters_list([M], ks, ps, D, "OPS", "one")
            second = dict(fam)
            mi = C.get_invariant_filters([M], ks, ps, D, "OPS", "one")
        finally:
            C.__dict__["get_unique_invariant_filters"] = saved
        if any(a != (M, k, p, D, "one") for a, (k, p) in zip(asked, list(itertools.product(ks, ps)) * 3)):
            return "refuted", f"the generator is not asked for each (M, k, parity) with the caller's D / scale: {asked[:6]}", None
        if list(d.keys()) != [(D, M, k, p) for k in ks for p in ps] or any(d[(D, M, k, p)] is not first[(k, p)] for k in ks for p in ps):
            return "refuted", "get_invariant_filters_dict does not store each family under its own (D, M, k, parity) key", None
        if maxn != {(D, M): max(counts.values())}:
            return "refuted", f"maxn = {maxn}", None
        flat = [f for k in ks for p in ps for f in second[(k, p)]]
        if len(lst) != len(flat) or any(a is not b for a, b in zip(lst, flat)):
            return "refuted", "get_invariant_filters_list is not the concatenation of the families in (k, parity) order", None
        exp_keys = [(k, p) for k in ks for p in ps if counts[(k, p)] > 0]
        if list(mi.keys()) != exp_keys:
            return "refuted", f"MultiImage types {list(mi.keys())} != types with filters {exp_keys}", None
        for (k, p) in exp_keys:
            blk = arr.lift(mi[(k, p)])
            if sym.concrete_int(blk.shape[0]) != counts[(k, p)]:
                return "refuted", f"type {(k, p)}: {blk.shape[0]} filters in the MultiImage, {counts[(k, p)]} generated", None
            for i, f in enumerate(fam[(k, p)]):
                st = arr.compare(blk[i], f.data, f"filter {i} of type {(k, p)}")
                if st[0] != "proved":
                    return st
        return "proved", f"{sum(counts.values())} filters of {len(exp_keys)} types", None
    return [guard(f"C03/get_invariant_filters(_dict,_list)/D={D}/ensures:every-family-under-its-own-type,nothing-lost", "ensures", body, dict(D=D, M=M, counts={str(k_): v for k_, v in counts.items()}))]


# ------------------------------------------------------------------------------------------------------------------
# the generator's core, for ALL filter sides M at once: the matrix handed to the row selection is the group average of the basis

class _Cut(Exception):
    def __init__(self, v):
        self.v = v


def _group(D, gname):
    import numpy as np
    from ..specs.act import det_of
    from .common import geom
    ops = [np.asarray(g) for g in geom().make_all_operators(D)]
    I = np.eye(D, dtype=int)
    if gname == "B_d":
        return ops
    if gname == "B_d reversed":
        return list(reversed(ops))
    if gname == "rotations":
        return [g for g in ops if det_of(g) == 1]
    if gname == "C2^d":
        return [np.asarray(g) for g in geom().make_C2_group(D)]
    if gname == "<r90> (identity last)":
        r = np.eye(D, dtype=int)
        r[:2, :2] = [[0, -1], [1, 0]]
        return [r, r @ r, r @ r @ r, I]
    if gname == "<flip> (identity last)":
        f = np.eye(D, dtype=int)
        f[0, 0] = -1
        return [f, I]
    raise ValueError(gname)


def _prefix(D, k, p, ops, M):
    """run the REAL get_unique_invariant_filters with a symbolic side M up to the first operation of the row selection
    (`jnp.abs(filter_matrix)`, the cut point) and return the filter matrix it has built, reshaped to (n,) + (M,)*D + (D,)*k"""
    from ..loader import load
    C = load()["ginjax.geometric.common"]
    jnp_ = C.__dict__["jnp"]
    saved = jnp_.abs

    def cut_abs(x, *a, **kw):
        raise _Cut(x)
    jnp_.abs = cut_abs
    C.basis_cache.clear()
    try:
        try:
            C.get_unique_invariant_filters(M, k, p, D, ops, "one")
        except _Cut as c:
            fm = c.v
        else:
            raise OutOfReach("the generator returned without reaching the row selection (cut point jnp.abs(filter_matrix))")
    finally:
        jnp_.abs = saved
        C.basis_cache.clear()
    from .. import arr
    if not isinstance(fm, arr.SArray) or fm.ndim != 2:
        raise OutOfReach("cut point reached with something that is not the 2-d filter matrix")
    return fm.reshape((fm.shape[0],) + (M,) * D + (D,) * k)


def ob_group_average(D, k, p, gname, clauses=("defn", "invariant", "orbit")):
    """For ALL filter sides M (symbolic; odd and even in one VC) and a generic basis element b:
       defn       row b of the matrix the generator builds == sum_{g in G} g.e_b  (act_spec; e_b the one-hot tensor image)
       invariant  h.(row b) == row b for every h in G   (the property's invariance clause, before the float post-processing)
       orbit      row b [c] > 0  ==> row c == row b,  row b [c] < 0  ==> row c == -row b   (rows that overlap are equal up to
                  sign: after sign normalisation and np.unique the surviving rows have pairwise disjoint supports, hence are
                  linearly independent; their span is the image of the averaging operator = the invariant subspace)"""
    import numpy as np
    from .. import sym, arr
    from ..sym import zi
    from ..arr import SArray
    from ..specs.act import act_sym
    from .common import World
    ops = _group(D, gname)
    obs = []
    structure = dict(D=D, k=k, parity=p, group=gname, M="symbolic (all sides)")
    base = f"C03/get_unique_invariant_filters[group-average]/D={D},k={k},p={p},G={gname}"

    def setup():
        sym.reset(todo=[])
        arr.ENUM_SMALL[0] = 3
        W = World(1)
        M = W.spatial[0].ext
        sym.CTX.path = list(W.pre)
        FM = _prefix(D, k, p, ops, M)
        return W, M, FM

    def onehot(rowd, b, dims):
        fs = arr.factors(rowd)
        bs = list(b) if isinstance(rowd, arr.Prod) else [b]
        if len(fs) != len(dims) or isinstance(b, arr.Flat):
            raise OutOfReach("the row axis of the filter matrix is not the basis axis (M,)*D + (D,)*k")

        def elem(j):
            cond = z3.simplify(z3.And([zi(arr.to_flat(f, bi)) == zi(arr.to_flat(d, ji)) for f, bi, d, ji in zip(fs, bs, dims, j)]))
            if z3.is_false(cond):
                return 0
            if z3.is_true(cond):
                return 1
            return arr.t_cond(cond, 1)
        return SArray(list(dims), elem)

    if "defn" in clauses:
        def body_defn():
            W, M, FM = setup()

            def spec_elem(idx):
                E = onehot(FM.dims[0], idx[0], FM.dims[1:])
                tot = 0
                for g in ops:
                    tot = arr.t_bin("add", tot, act_sym(E, D, k, p, g).elem(idx[1:]))
                return tot
            return arr.compare(FM, SArray(FM.dims, spec_elem), "filter matrix row b vs sum_g g.e_b")
        o = guard(base + "/ensures:rows-are-group-averages-of-the-basis", "ensures", body_defn, structure)
        o["replay"] = dict(scenario="chunk", D=D, gname=gname, Ms=[2, 3, 4], ks=[k])
        obs.append(o)

        def canary():
            W, M, FM = setup()
            gs = ops[:-1] if len(ops) > 1 else []

            def spec_elem(idx):
                E = onehot(FM.dims[0], idx[0], FM.dims[1:])
                tot = 0
                for g in gs:                                  # one group element forgotten: must be refuted
                    tot = arr.t_bin("add", tot, act_sym(E, D, k, p, g).elem(idx[1:]))
                return tot
            return arr.compare(FM, SArray(FM.dims, spec_elem), "wrong average")
        if k == 0 and p == 0:
            obs.append(guard(base + "/canary:one-element-forgotten", "canary", canary, structure))
    if "invariant" in clauses:
        def body_inv():
            W, M, FM = setup()
            n = 0
            for hi, h in enumerate(ops):
                def inv_elem(idx, h=h):
                    R = SArray(FM.dims[1:], lambda j: FM.elem([idx[0]] + list(j)))
                    return act_sym(R, D, k, p, h).elem(idx[1:])
                r = arr.compare(SArray(FM.dims, inv_elem), FM, f"h#{hi}.(row b) vs row b")
                if r[0] != "proved":
                    return r
                n += 1
            return "proved", f"every row fixed by each of the {n} listed operators, all M", None
        o = guard(base + "/ensures:every-row-invariant", "ensures", body_inv, structure)
        o["replay"] = dict(scenario="chunk", D=D, gname=gname, Ms=[2, 3, 4], ks=[k])
        obs.append(o)
    if "orbit" in clauses:
        def body_orbit():
            W, M, FM = setup()
            rowd = FM.dims[0]
            cold = FM.dims[1:]
            fr = arr.factors(rowd)
            if len(fr) != len(cold) or not all(arr.ext_eq(arr.extent(a), arr.extent(b)) for a, b in zip(fr, cold)):
                # rows no longer range over the whole basis (e.g. the basis was sliced): this clause is stated for basis-indexed rows
                raise OutOfReach("the row axis of the filter matrix is not the basis axis (M,)*D + (D,)*k")
            n = 0
            for b, hb in arr.fresh_cases(rowd, "b"):
                for c, hc in arr.fresh_cases(rowd, "c"):
                    cs = list(c) if isinstance(rowd, arr.Prod) else [c]
                    for x, hx in arr.fresh_cases(rowd, "x"):
                        xs = list(x) if isinstance(rowd, arr.Prod) else [x]
                        with sym.scope(hb + hc + hx):
                            bc = arr.t_z3(FM.elem([b] + cs), True)
                            bx = arr.t_z3(FM.elem([b] + xs), True)
                            cx = arr.t_z3(FM.elem([c] + xs), True)
                            goal = z3.And(z3.Implies(bc > 0, cx == bx), z3.Implies(bc < 0, cx == -bx))
                            st, m = sym.prove_goal(goal)
                            n += 1
                            if st != "proved":
                                return st, f"rows b={b}, c={c} overlap (row b is non-zero at c) but are not equal up to the sign of that entry, at x={x}", m
            return "proved", f"{n} index classes: overlapping rows are equal up to sign, all M", None
        o = guard(base + "/ensures:overlapping-rows-equal-up-to-sign", "ensures", body_orbit, structure)
        o["replay"] = dict(scenario="chunk", D=D, gname=gname, Ms=[2, 3, 4], ks=[k])
        obs.append(o)
    from .common import cover
    obs.append(cover(base + "/cover:pre", World(1).pre, structure))
    return obs
