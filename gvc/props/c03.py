"""C03 -- generated invariant filters are invariant, independent and complete.

get_unique_invariant_filters has no continuous input: for fixed (M, k, parity, D, operators) it is a closed computation
through float einsum, np.unique and argsort, outside the reach of symbolic execution, and there is nothing to quantify
over beyond its discrete arguments.  Within this family the property is decided as a RUN-TIME CONTRACT on the real
function, evaluated exhaustively over a stated finite domain -- bounded, never counted as a proof."""
from ..core import Ob, native

LEVEL = "other"
MANIFEST = {
    "category": "other",
    "technique": "run-time contract (post-condition in exact integer / rational arithmetic) on the real get_unique_invariant_filters, evaluated exhaustively over a finite domain of (group, d, M, k, parity); bounded stand-in of contract-based verification, not a proof",
    "text": "For every instance of the stated finite domain the real generator is called (in one process per (group, d), sides and orders ascending, so cache / call-history effects are exercised) and its post-condition is checked exactly: every returned filter, rescaled to its primitive integer vector, is fixed by every group element; the integer matrix of the family has full row rank over Q; the family size equals the dimension of the fixed subspace computed twice independently (character formula (1/|G|) sum_g fix(g) tr(g)^k det(g)^p and the orbit construction of the general invariant filter). This is the closed-generator case of DESIGN.md 3/C03: there is no quantifier a deductive verifier could discharge beyond the enumeration itself.",
    "note": "BOUNDED: domain G in {B_d (both list orders), rotation subgroup, C2^d, trivial, <r90>, <flip> (identity listed last)}, d in {2,3}, M = 1..5 (d=2) / 1..3 (d=3, thorough 1..4), k = 0..4 (d=2; quick 0..3) / 0..2 (d=3); float output is accepted as a rational multiple of an integer filter to 1e-5; GeometricFilter.normalize / rectify (rescaling by a non-zero scalar) are exercised through the generator",
}
FUNCTIONS = ["geometric.common.get_unique_invariant_filters", "geometric.common.get_basis", "GeometricFilter.normalize", "GeometricFilter.rectify", "GeometricFilter.bigness",
             "functional_geometric_image.times_group_element (through the generator)"]
TRUSTED = ["the real jax / numpy execution of the generator", "exact rational rank computation and character formula in gvc/native/c03.py", "gvc/specs/invfilter.py (second, independent dimension count)"]
ASSUMPTIONS = ["bounded domain (stated in the level note)", "returned floats are rational multiples of small integer vectors (checked to 1e-5)"]
EXPLANATION = ("Exhaustive evaluation of a run-time contract on a finite parameter domain: every (group, d, M, k, parity) instance listed in structure_grid is executed on the real "
               "code and its post-condition decided exactly. Labelled bounded; 'discharged' counts contract evaluations that held, not proofs.")
GRID = {"quick": "d=2: 7 group listings x M 1..4 x k 0..3 x p; d=3: 4 group listings x M 1..3 x k 0..1 x p",
        "thorough": "d=2: M 1..5, k 0..4; d=3: M 1..4 (B_d: 1..3), k 0..2"}

G2 = ["B_d", "B_d reversed", "rotations", "C2^d", "trivial", "<r90> (identity last)", "<flip> (identity last)"]
G3 = ["B_d", "C2^d", "<r90> (identity last)", "<flip> (identity last)"]


def jobs(tier):
    q = tier == "quick"
    out = []
    for g in G2:
        out.append(("gvc.props.c03", "ob_chunk", dict(D=2, gname=g, Ms=[1, 2, 3, 4] if q else [1, 2, 3, 4, 5], ks=[0, 1, 2, 3] if q else [0, 1, 2, 3, 4])))
    for g in G3:
        big = g == "B_d"
        out.append(("gvc.props.c03", "ob_chunk", dict(D=3, gname=g, Ms=[1, 2, 3] if (q or big) else [1, 2, 3, 4], ks=[0, 1] if q else [0, 1, 2])))
    return out


def ob_chunk(D, gname, Ms, ks):
    r = native("C03", "chunk", dict(D=D, gname=gname, Ms=Ms, ks=ks), timeout=7200)
    obs = []
    if not r.get("ok"):
        return [Ob(f"C03/get_unique_invariant_filters/D={D},G={gname}", "ensures", "error", detail=str(r.get("error"))[:500])]
    for x in r["results"]:
        nm = f"C03/get_unique_invariant_filters/D={D},G={gname},M={x['M']},k={x['k']},p={x['p']}/contract:invariant+independent+complete"
        st = "proved" if x["ok"] else "refuted"
        obs.append(Ob(nm, "ensures", st, x["detail"] or "post-condition held (run-time contract, exact arithmetic)", None,
                      dict(D=D, group=gname, M=x["M"], k=x["k"], parity=x["p"], bounded=True),
                      dict(scenario="chunk", D=D, gname=gname, Ms=Ms, ks=ks)))
    return obs
