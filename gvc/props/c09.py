"""C09 -- training cannot break equivariance."""
import itertools
import numpy as np
import z3
from .. import sym, arr, lib
from ..sym import SInt, SReal, zi, mk
from ..arr import Atom, SArray
from ..core import Ob, guard
from ..loader import load
from .common import World, all_paths, cover, geom, sint
from . import nets, c07, c02

LEVEL = "proof"
MANIFEST = {
    "category": "proof",
    "technique": "contract-based deductive verification of the history property by induction over contracts: invariant I(model) = (same static structure, arbitrary weights / biases, filter banks inside the invariant subspace); I => equivariant is C06/C07/C08 (they quantify over ALL parameter values and all invariant banks); the step I => I'(train_step) is discharged from (a) a gradient-path (taint) obligation on the real ConvContract code: the bank reaches arithmetic only through stop_gradient, (b) the real train_step executed on a symbolic model pytree with the assumed optimiser / Equinox contracts: bank leaves change by one common factor, static fields untouched; the epoch loop and the batch loop of ml.train are covered by loop invariants (base / step / exit through the real loop bodies, C19's train-loop obligations, re-run here)",
    "text": "Every value-path use of the invariant filter bank in the real layer code goes through jax.lax.stop_gradient (checked by a taint that only stop_gradient clears, for all bias modes, signatures and symbolic numbers of filters incl. the single-filter case), so its gradient is identically zero; the real train_step only averages gradient leaves over the device axis and applies optimiser updates: with the assumed contract 'a leaf whose gradient history is zero is updated by u(x) = c*x' (sgd, adam: c = 0; adamw / weight decay: c = -lr*wd) every filter leaf of every layer is rescaled by the same factor and stays in the invariant subspace, weights and biases stay arbitrary reals, static fields are untouched: I is preserved by every step, for every history; C06-C08 then give equivariance of every model satisfying I.",
    "note": "the optimiser update rule, eqx.filter_value_and_grad / filter_pmap / apply_updates / tree_at and XLA autodiff are ASSUMED (contract models) and backed by a bounded native stand-in (tiny model, sgd / adam / adamw, 2 epochs: uniform filter ratio, equivariance re-checked); inherits KF-C08 / KF-C07 (pseudo-scalars through normalisation become non-equivariant once the bias is trained)",
}
FUNCTIONS = ["ml.training.train_step", "ml.layers.ConvContract.individual_convolve (gradient path)", "ml.layers.ConvContract.__call__ (gradient path)",
             "ml.training.train (loop invariants, owned by C19, re-run here)", "models.* constructors (static structure)"]
TRUSTED = ["CPython for the concrete part", "taint propagation of the structured-array engine (every arithmetic contract-model operation checks it)", "z3",
           "ASSUMED: optimiser update contract, Equinox tree utilities, autodiff: d/d(filters) = 0 iff no value path without stop_gradient", "C06 / C07 / C08 for I => equivariant"]
ASSUMPTIONS = ["optax sgd / adam / adamw update a zero-gradient leaf by a common multiple of itself", "eqx.apply_updates adds updates leaf-wise and leaves static fields alone",
               "stop_gradient blocks all gradient flow; any arithmetic use without it does not"]
EXPLANATION = "Induction over histories: one step obligation; enumerated in architecture configurations, bias modes, signatures."
GRID = {"quick": "taint: 5 bias modes x 3 signatures (symbolic filter counts incl. 1); train_step: 4 architectures", "thorough": "all C07 architecture configurations"}
NATIVE_ALWAYS = {"quick": {"only": "train"}, "thorough": {"only": "train"}}


def L():
    return load()["ginjax.ml.layers"]


def jobs(tier):
    out = []
    for ub in ["auto", "mean", "scalar", True, False]:
        for (si, so) in [([(0, 0), (1, 0)], [(1, 0), (0, 1), (0, 0)]), ([(1, 1)], [(1, 0), (0, 0)]), ([(0, 0)], [(0, 0)])]:
            out.append(("gvc.props.c09", "ob_taint", dict(D=2, sin=si, sout=so, use_bias=ub)))
    cfgs = c07.configs(tier)
    sel = [c for c in cfgs if c["arch"] != "ConvBlock"][: (4 if tier == "quick" else 40)]
    for c in sel:
        out.append(("gvc.props.c09", "ob_train_step", dict(cfg=c)))
    # dependencies: (i) the epoch / batch loops of ml.train hand every step the previous step's model and return
    # stop_condition.best_model, which stop() only ever sets to a model it was consulted with (loop invariants + stop() contract,
    # owned by C19) -- so the returned model is the result of finitely many train_steps from the initial one; (ii) a layer that
    # has been through the pytree round trip of a training step still computes the same function (owned by C06 / C11)
    from .common import dep_jobs
    out += dep_jobs("gvc.props.c19", lambda fn, kw: fn in ("ob_train_induction", "ob_train_vallos_requires_validation") or (fn == "ob_step" and kw["rep"] == "jax0d" and kw["verbose"] == 0))
    out += dep_jobs("gvc.props.c11", lambda fn, kw: fn == "ob_defining_sum" and kw.get("history") == "pytree" and kw.get("eqc"))
    return out


def ob_taint(D, sin, sout, use_bias):
    """the filter bank is used arithmetically only under stop_gradient"""
    Gm, Lm = geom(), L()
    sin, sout = [tuple(k) for k in sin], [tuple(k) for k in sout]
    W = World(D)
    for d in range(D):
        W.pre.append(zi(W.spatial[d].ext) >= 3)
    ftypes = sorted({(a[0] + b[0], (a[1] + b[1]) % 2) for a in sin for b in sout} - {(0, 1)})
    blocks = {}
    for (k, p) in ftypes:
        n = Atom(sint(f"nf{k}{p}", W.pre), f"nf{k}{p}")
        b = arr.source(f"FB{k}{p}", [n] + [Atom(3)] * D + [Atom(D) for _ in range(k)])
        blocks[(k, p)] = SArray(b.dims, b._elem, "real", taint=f"invariant_filters[{k},{p}]")
    ich = {k: Atom(sint(f"ci{k[0]}{k[1]}", W.pre)) for k in sin}
    och = {k: Atom(sint(f"co{k[0]}{k[1]}", W.pre)) for k in sout}
    isig = Gm.Signature(tuple((k, ich[k].ext) for k in sin))
    osig = Gm.Signature(tuple((k, och[k].ext) for k in sout))
    X = {k: arr.source(f"X{k[0]}{k[1]}", [ich[k]] + W.spatial + [Atom(D) for _ in range(k[0])]) for k in sin}
    structure = dict(D=D, input=sin, target=sout, use_bias=str(use_bias))

    def run():
        arr.TAINT_LOG.clear()
        bank = Gm.MultiImage(dict(blocks), D, True)
        layer = Lm.ConvContract(isig, osig, bank, use_bias, key=("key", 0))
        y = layer(Gm.MultiImage(dict(X), D, True))
        # force the evaluation of one generic element of every output block (the model is lazy)
        for t, b in y.items():
            b = arr.lift(b)
            idx = [c[0][0] for c in [arr.fresh_cases(d, "t") for d in b.dims]]
            with sym.scope([h for d in b.dims for c in arr.fresh_cases(d, "t")[:1] for h in c[1]]):
                b.elem(idx)
        return list(arr.TAINT_LOG)

    def post(log):
        if log:
            return "refuted", f"the filter bank reaches an arithmetic operation without stop_gradient: {log[0]}", None
        return "proved", "every arithmetic use of the bank is behind stop_gradient", None

    def f(v):
        return "[" + " ".join(f"{a}{b}" for a, b in v) + "]"
    name = f"C09/ConvContract/D={D},in={f(sin)},out={f(sout)},use_bias={use_bias}/ensures:filters-only-under-stop_gradient"
    o = guard(name, "ensures", lambda: all_paths(W.pre, run, post), structure)
    o["replay"] = dict(scenario="train", D=D)
    obs = [o]
    if use_bias == "auto" and sin == [(0, 0)]:
        # canary: a use of the bank without stop_gradient must be caught
        def canary():
            arr.TAINT_LOG.clear()
            jnp = __import__("sys").modules["jax.numpy"]
            Wt = arr.source("Wc", [och[(0, 0)], ich[(0, 0)], blocks[(0, 0)].dims[0]])
            fb = jnp.einsum("ijk,k...->ij...", Wt, blocks[(0, 0)])
            return ("refuted", "taint logged", None) if arr.TAINT_LOG else ("proved", "no taint", None)
        obs.append(guard(f"C09/canary:einsum-without-stop_gradient", "canary", lambda: all_paths(W.pre, canary, lambda r: r), structure))
    return obs


def ob_train_step(cfg):
    """the real train_step on a symbolic model: filter leaves are rescaled by one common factor, statics untouched"""
    M = load()
    T = M["ginjax.ml.training"]
    import sys as _sys
    eqx, jax_ = _sys.modules["equinox"], _sys.modules["jax"]
    D = cfg["D"]
    name = f"C09/train_step/{c07.name_of(cfg)}/ensures:invariant-I-preserved"

    def body():
        sym.reset(pre=[], todo=[])
        arr.ENUM_SMALL[0] = 3
        pre = sym.CTX.path
        model, X, info = nets.build_model(dict(cfg, equivariant=True), None, pre)
        ndev = 2
        cfac = z3.Real("c_opt")

        def paths(obj, path=()):
            """(path, leaf) for every array leaf, in tree_flatten_obj order"""
            out = []
            if isinstance(obj, SArray):
                return [(path, obj)]
            if isinstance(obj, (tuple, list)):
                for i, v in enumerate(obj):
                    out += paths(v, path + (i,))
            elif isinstance(obj, dict):
                for k in sorted(obj.keys()):
                    out += paths(obj[k], path + (k,))
            elif isinstance(obj, lib.Module) and not hasattr(obj, "tree_flatten"):
                for n in vars(obj):
                    out += paths(getattr(obj, n), path + (n,))
            elif hasattr(obj, "tree_flatten"):
                out += paths(obj.tree_flatten()[0][0], path + ("data",))
            return out

        leaves0 = paths(model)
        flat0, rebuild = lib.tree_flatten_obj(model)
        if len(flat0) != len(leaves0) or any(a is not b for a, (_, b) in zip(flat0, leaves0)):
            return "undecided", "pytree path bookkeeping mismatch", None
        is_filter = ["invariant_filters" in p for p, _ in leaves0]

        def grad_tree():
            gl = []
            for (p, l), isf in zip(leaves0, is_filter):
                dims = [Atom(ndev)] + list(l.dims)
                gl.append(arr.full([ndev] + list(l.shape), 0) if isf else arr.source(sym.fresh_name("grad"), dims))
            return rebuild(gl)

        class PM:
            def __call__(self, model_, x, y, aux):
                return (arr.source("loss", [Atom(ndev)]), aux), grad_tree()

        class Opt:
            def update(self, grads, state, params=None):
                gl, rb = lib.tree_flatten_obj(grads)
                pl, _ = lib.tree_flatten_obj(params)
                ups = []
                for g_, p_ in zip(gl, pl):
                    idx = [c[0][0] for c in [arr.fresh_cases(d, "u") for d in g_.dims]]
                    t = g_.elem(idx)
                    zero = arr._num(t) and t == 0
                    ups.append(p_ * sym.SReal(cfac) if zero else arr.source(sym.fresh_name("upd"), list(p_.dims)))
                return rb(ups), state

        saved = {k: eqx.__dict__.get(k) for k in ["filter_value_and_grad", "filter_pmap", "tree_at", "apply_updates"]}
        eqx.filter_value_and_grad = lambda f, has_aux=False: ("value_and_grad", f)
        eqx.filter_pmap = lambda f, **kw: PM()

        def tree_at(where, tree, replace):
            targets = where(tree)
            fl, rb = lib.tree_flatten_obj(tree)
            if len(targets) != len(replace):
                raise ValueError("tree_at: length mismatch")
            ids = {id(t): r for t, r in zip(targets, replace)}
            return rb([ids.get(id(l), l) for l in fl])

        def apply_updates(m, updates):
            ml_, rb = lib.tree_flatten_obj(m)
            ul, _ = lib.tree_flatten_obj(updates)
            return rb([a + b for a, b in zip(ml_, ul)])
        eqx.tree_at, eqx.apply_updates = tree_at, apply_updates
        lib.used("ASSUMED: eqx.filter_value_and_grad / filter_pmap (gradient tree shaped like the model, device axis first), tree_at, apply_updates, optimiser update u(x)=c*x on zero-gradient leaves")
        try:
            new_model, opt_state, loss, aux = T.train_step("map_and_loss", model, Opt(), "opt_state", "xbatch", "ybatch", "AUX")
        finally:
            for k, v in saved.items():
                setattr(eqx, k, v)
        leaves1 = paths(new_model)
        if [p for p, _ in leaves1] != [p for p, _ in leaves0]:
            return "refuted", "the model's pytree structure changed in train_step", None
        if type(new_model) is not type(model) or aux != "AUX" or opt_state != "opt_state":
            return "refuted", "model class / aux data / optimiser state not threaded through", None
        n = 0
        for (p, l0), (_, l1), isf in zip(leaves0, leaves1, is_filter):
            if not isf:
                continue
            st, detail, m = arr.compare(l1, l0 * sym.SReal(1 + cfac), f"filter leaf {p}")
            if st != "proved":
                return st, "a filter-bank leaf is not rescaled by the common factor (1+c): " + detail, m
            n += 1
        if n == 0:
            return "undecided", "no filter leaves found", None
        # static structure: every non-array attribute of every sub-module unchanged
        def statics(obj, path=()):
            out = []
            if isinstance(obj, lib.Module) and not hasattr(obj, "tree_flatten"):
                for k, v in vars(obj).items():
                    out += statics(v, path + (k,))
            elif isinstance(obj, (list, tuple)):
                for i, v in enumerate(obj):
                    out += statics(v, path + (i,))
            elif isinstance(obj, dict):
                for k, v in obj.items():
                    out += statics(v, path + (k,))
            elif not isinstance(obj, SArray) and not hasattr(obj, "tree_flatten"):
                out.append((path, repr(obj)[:80]))
            return out
        if statics(model) != statics(new_model):
            return "refuted", "a static field changed in train_step", None
        return "proved", f"{n} filter leaves rescaled by (1+c); structure and static fields unchanged", None

    o = guard(name, "invariant", body, cfg)
    o["replay"] = dict(scenario="train", D=D, cfg=cfg)
    return [o]
