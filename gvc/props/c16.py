"""C16 -- autoregressive rollout feeds each prediction back correctly."""
import itertools
import z3
from .. import sym, arr, lib
from ..sym import SInt, zi, mk, valid
from ..arr import Atom, Prod, Sum, Br, Flat
from ..core import Ob, guard
from ..loader import load
from .common import World, cmp_blocks, all_paths, cover, geom, sint

LEVEL = "proof"
MANIFEST = {
    "category": "proof",
    "technique": "contract-based deductive verification: autoregressive_step executed symbolically against the sliding-window spec; autoregressive_map proved by induction through its real loop body (base / step / exit with a loop invariant) for an uninterpreted model; z3",
    "text": "autoregressive_step: symbolic channel counts, past steps P >= 1, constant counts and extents; for every key layout (dynamic+constant, dynamic only, constant only, any key order) new[c*P+j] == in[c*P+j+1] (j<P-1), new[c*P+P-1] == out[c], constants after them unchanged, key order kept, future_steps != 1 rejected. autoregressive_map: the model is an uninterpreted function; the real loop body is run on the initial state (base), on a havocked state satisfying the invariant at a symbolic step i (inductive step) and the loop exit on the invariant at n: for every n >= 1 the result is the n predictions in time order per channel and the model's (i+1)-th input is the sliding-window update of its i-th. Tests run one short rollout.",
    "note": "key layouts enumerated (<= 3 types); D in {1,2,3}; the loop-induction harness replaces `range` in ginjax.ml.training and mutates the captured state objects (x, out_x) in place; its applicability is guarded by an AST check of the loop's assigned names; model = fresh opaque arrays per call (so the statement holds for every model)",
}
FUNCTIONS = ["ginjax.ml.training.autoregressive_step", "ginjax.ml.training.autoregressive_map", "MultiImage.concat_inverse", "MultiImage.expand",
             "MultiImage.concat", "MultiImage.combine_axes", "MultiImage.append", "MultiImage.empty", "MultiImage.copy"]
TRUSTED = ["CPython for the concrete part", "structured-array engine gvc/arr.py", "z3",
           "Hoare-style loop rule (base, step, exit) applied through gvc.lib.InductiveRange; AST guard on the loop's assigned names"]
ASSUMPTIONS = ["pure data movement (exact in floating point)", "key layouts enumerated", "the model is any function of its input: modelled as fresh opaque outputs per call",
               "aux_data is passed through opaquely"]
EXPLANATION = "Unbounded in n (induction), P, channels, constants, extents; enumerated in key layouts and D."
GRID = {"quick": "D=2; layouts: [dyn+const (0,0), dyn-only (1,0)], [const-only (0,1), dyn (1,0)+const], [dyn-only (0,0)]",
        "thorough": "D in {1,2,3}; 6 layouts incl. all three kinds in every key order"}

# a layout: ordered list of (key, has_dynamic, has_constant)
LAYOUTS_Q = [
    [((0, 0), True, True), ((1, 0), True, False)],
    [((0, 0), True, True), ((1, 0), True, "zero")],       # the constants dict lists (1,0) explicitly with a count of 0
    [((0, 1), False, True), ((1, 0), True, True)],
    [((0, 0), True, False)],
]
LAYOUTS_T = LAYOUTS_Q + [
    [((1, 0), True, True), ((0, 0), True, True), ((0, 1), False, True)],
    [((1, 1), True, False), ((0, 0), False, True), ((2, 0), True, True)],
    [((0, 0), True, True)],
]


def tr():
    return load()["ginjax.ml.training"]


def jobs(tier):
    out = []
    q = tier == "quick"
    for D in ([2] if q else [1, 2, 3]):
        for lay in (LAYOUTS_Q if q else LAYOUTS_T):
            lay2 = [l for l in lay if D > 1 or l[0][0] == 0]
            if not any(l[1] for l in lay2):
                continue
            L = [[list(k), d, c] for k, d, c in lay2]
            out.append(("gvc.props.c16", "ob_step", dict(D=D, layout=L)))
            out.append(("gvc.props.c16", "ob_map", dict(D=D, layout=L)))
    out.append(("gvc.props.c16", "ob_reject", {}))
    return out


def _nm(fn, D, layout):
    s = " ".join(f"{k[0]}{k[1]}{'d' if d else ''}{'z' if c == 'zero' else 'c' if c else ''}" for k, d, c in layout)
    return f"C16/{fn}/D={D},layout=[{s}]"


def _world(D, layout, tag="in"):
    W = World(D)
    P = sint("P", W.pre)
    PA = Atom(P, "P")
    blocks, cd, ccd, const_dict = {}, {}, {}, {}
    for k, d, c in layout:
        k = tuple(k)
        parts = []
        if d:
            cd[k] = Atom(sint(f"c{k[0]}{k[1]}", W.pre), f"c{k[0]}{k[1]}")
            parts.append(arr.mkprod([cd[k], PA]))
        if c == "zero":
            const_dict[k] = 0          # an explicit entry "no constant fields of this type"
        elif c:
            ccd[k] = Atom(sint(f"cc{k[0]}{k[1]}", W.pre), f"cc{k[0]}{k[1]}")
            parts.append(ccd[k])
            const_dict[k] = ccd[k].ext
        blocks[k] = arr.source(f"{tag}_{k[0]}{k[1]}", [arr.mksum(parts)] + W.spatial + [Atom(D) for _ in range(k[0])])
    return W, P, PA, blocks, cd, ccd, const_dict


def step_spec(D, W, P, PA, inb, outb, cd, ccd):
    """the statement's sliding-window update: per type, per channel drop the oldest, append the prediction;
    constants unchanged after the dynamic channels; same key order as the input"""
    spec = {}
    for k, b in inb.items():
        parts = []
        if k in cd:
            parts.append(arr.mkprod([cd[k], PA]))
        if k in ccd:
            parts.append(ccd[k])
        tail = W.spatial + [Atom(D) for _ in range(k[0])]

        def elem(idx, k=k, b=b, parts=parts):
            ci = idx[0]
            br, inner = (0, ci) if len(parts) == 1 else (ci.b, ci.idx)
            src_br = (lambda i: i) if len(parts) == 1 else (lambda i: Br(br, i))
            if k in cd and br == 0:
                c, j = inner
                jt = zi(j)
                if valid(jt < zi(P) - 1):
                    return b.elem([src_br((c, z3.simplify(jt + 1)))] + list(idx[1:]))
                if valid(jt == zi(P) - 1):
                    return outb[k].elem([c] + list(idx[1:]))
                with sym.scope([jt < zi(P) - 1]):
                    a = b.elem([src_br((c, z3.simplify(jt + 1)))] + list(idx[1:]))
                o = outb[k].elem([c] + list(idx[1:]))
                return z3.If(jt < zi(P) - 1, arr.t_z3(a, True), arr.t_z3(o, True))
            return b.elem([src_br(inner)] + list(idx[1:]))

        spec[k] = arr.SArray([arr.mksum(parts)] + tail, elem)
    return spec


def _outputs(D, W, cd, tag):
    return {k: arr.source(f"{tag}_{k[0]}{k[1]}", [cd[k]] + W.spatial + [Atom(D) for _ in range(k[0])]) for k in cd}


def ob_step(D, layout):
    G, T = geom(), tr()
    W, P, PA, inb, cd, ccd, const_dict = _world(D, layout)
    outb = _outputs(D, W, cd, "out")
    spec = step_spec(D, W, P, PA, inb, outb, cd, ccd)
    structure = dict(D=D, layout=layout)
    t = tuple(i % 2 == 0 for i in range(D))

    def run():
        x = G.MultiImage(dict(inb), D, t)
        # the model's output holds the dynamic types, in another order than the input
        y = G.MultiImage({k: outb[k] for k in reversed(list(outb.keys()))}, D, t)
        return T.autoregressive_step(x, y, P, dict(const_dict))

    o = guard(_nm("autoregressive_step", D, layout) + "/ensures:sliding-window", "ensures",
              lambda: all_paths(W.pre, run, lambda r: cmp_blocks(r, spec, D, t, list(inb.keys()), "new input")), structure)
    o["replay"] = dict(scenario="step", model=o.get("model"), **structure)
    obs = [o, cover(_nm("autoregressive_step", D, layout) + "/cover:pre", W.pre, structure)]
    # canary: appending the prediction as the OLDEST step must be refuted
    k0 = next(iter(cd))

    def post_bad(r):
        b = inb[k0]
        parts = [arr.mkprod([cd[k0], PA])] + ([ccd[k0]] if k0 in ccd else [])
        sb = (lambda i: i) if len(parts) == 1 else (lambda i: Br(0, i))

        def elem(idx):
            c, j = idx[0]
            if valid(zi(j) == 0):
                return outb[k0].elem([c] + list(idx[1:]))
            if valid(zi(j) >= 1):
                return b.elem([sb((c, j))] + list(idx[1:]))
            return z3.If(zi(j) == 0, arr.t_z3(outb[k0].elem([c] + list(idx[1:])), True), arr.t_z3(b.elem([sb((c, j))] + list(idx[1:])), True))
        bad = arr.SArray([arr.mkprod([cd[k0], PA])] + b.dims[1:], elem)
        got = r[k0]
        if k0 in ccd:
            got = got[0: zi_ext(cd[k0]) * P] if False else got[:mk(zi(cd[k0].ext) * zi(P))]
        return arr.compare(got, bad, "prediction as oldest (wrong)")

    obs.append(guard(_nm("autoregressive_step", D, layout) + "/canary:prediction-as-oldest", "canary",
                     lambda: all_paths(W.pre + [zi(P) >= 2], run, post_bad), structure))
    return obs


def zi_ext(a):
    return a.ext


def ob_reject():
    G, T = geom(), tr()
    W, P, PA, inb, cd, ccd, const_dict = _world(2, [[[0, 0], True, False]])
    outb = _outputs(2, W, cd, "out")

    def run():
        return T.autoregressive_step(G.MultiImage(dict(inb), 2, True), G.MultiImage(dict(outb), 2, True), P, {}, 2)

    return [guard("C16/autoregressive_step/rejects:future_steps!=1", "rejects", lambda: all_paths(W.pre, run, None, expect_raise=AssertionError))]


def ob_map(D, layout):
    """induction through the real loop of autoregressive_map"""
    G, T = geom(), tr()
    W, P, PA, x0b, cd, ccd, const_dict = _world(D, layout, "x0")
    n = sint("n", W.pre)
    t = tuple(i % 2 == 0 for i in range(D))
    structure = dict(D=D, layout=layout)
    name = _nm("autoregressive_map", D, layout)
    MI = G.MultiImage
    keys_in = list(x0b.keys())
    PRED = {k: z3.Function(f"PRED_{k[0]}{k[1]}", *([z3.IntSort()] * (1 + 1 + D + k[0]) + [z3.RealSort()])) for k in cd}
    tail = lambda k: W.spatial + [Atom(D) for _ in range(k[0])]

    def pred_block(k, step):
        """prediction of step `step` (an int term): block (c, spatial, tensor)"""
        return arr.SArray([cd[k]] + tail(k), lambda idx: PRED[k](zi(step), *[zi(i) for i in idx]))

    def window(tag):
        """an arbitrary window state: opaque blocks with the input's layout"""
        return {k: arr.source(f"{tag}_{k[0]}{k[1]}", list(b.dims)) for k, b in x0b.items()}

    state = {"calls": [], "x": None, "out": None, "fail": []}

    def model(x, aux):
        i = len(state["calls"])
        step = state["step_of_call"][i]
        out = MI({k: pred_block(k, step) for k in reversed(list(cd.keys()))}, D, t)
        state["calls"].append((x, dict(x.data), out))
        return out, aux

    orig_step, orig_concat, orig_range = T.autoregressive_step, MI.concat, T.__dict__["range"]

    def step_wrap(*a, **k):
        r = orig_step(*a, **k)
        state["x"] = r
        return r

    def concat_wrap(self, other, axis=0):
        r = orig_concat(self, other, axis)
        if axis == 1:
            state["out"] = r
        return r

    def out_inv(i):
        """out_x after i steps: (c, i, spatial, tensor) with out[c, i'] = PRED(i', c, ...)"""
        iA = Atom(i, "steps")
        return {k: arr.SArray([cd[k], iA] + tail(k), (lambda k: lambda idx: PRED[k](zi(idx[1]), zi(idx[0]), *[zi(v) for v in idx[2:]]))(k)) for k in cd}

    def check_inv(i, label):
        # out_x has the invariant layout, x is the sliding-window update of the window the model just saw
        got = state["out"]
        if got is None:
            return f"{label}: no concat on the time axis happened"
        st = cmp_blocks(got, out_inv(i), D, t, None, f"{label}: accumulated predictions")
        if st[0] != "proved":
            state["fail"].append(st)
            return st[1]
        xin, xin_data, pred = state["calls"][-1]
        spec = step_spec(D, W, P, PA, xin_data, {k: pred[k] for k in cd}, cd, ccd)
        st = cmp_blocks(state["x"], spec, D, t, keys_in, f"{label}: next model input")
        if st[0] != "proved":
            state["fail"].append(st)
            return st[1]
        return None

    def havoc(i):
        if state["x"] is None or state["out"] is None:
            raise sym.OutOfReach("loop harness: the loop does not carry its state through autoregressive_step / concat(axis=1)")
        state["x"].data = window(sym.fresh_name("xi"))
        state["out"].data = dict(out_inv(i))

    def run():
        state.update(calls=[], x=None, out=None, fail=[])
        rng = lib.InductiveRange(n, havoc, check_inv)
        state["rng"] = rng
        itv = {"it": None}

        def fake_range(m):
            if m is n:
                return rng
            return orig_range(m)

        # step numbers of the three model calls: 0, the symbolic i of the inductive step
        class Steps(list):
            def __getitem__(self_, j):
                if j == 0:
                    return 0
                # the inductive iteration's step number is the loop variable just yielded
                v = [p for p in sym.CTX.path if False]
                return state["ivar"]
        T.autoregressive_step, MI.concat, T.__dict__["range"] = step_wrap, concat_wrap, fake_range
        # capture the symbolic step variable when the range yields it
        orig_iter = lib.InductiveRange.__iter__

        def it_wrap(self_):
            for v in orig_iter(self_):
                state["ivar"] = v
                yield v
        lib.InductiveRange.__iter__ = it_wrap
        state["step_of_call"] = Steps()
        try:
            x0 = MI(dict(x0b), D, t)
            res, aux = T.autoregressive_map(model, x0, "AUX", P, n, dict(const_dict))
        finally:
            T.autoregressive_step, MI.concat, T.__dict__["range"] = orig_step, orig_concat, orig_range
            lib.InductiveRange.__iter__ = orig_iter
        return res, aux, rng, x0

    def post(r):
        res, aux, rng, x0 = r
        if state["fail"]:
            return state["fail"][0]
        if rng.failures:
            return "refuted", rng.failures[0], None
        if len(state["calls"]) != 2:
            return "undecided", f"loop harness saw {len(state['calls'])} model calls", None
        # the first model call sees the rollout's input itself
        if state["calls"][0][0] is not x0:
            return "refuted", "the first model call does not receive the rollout input", None
        if aux != "AUX":
            return "refuted", "aux_data not passed through", None
        # exit: (c*n + i) layout of the n predictions
        nA = Atom(n, "steps")
        spec = {k: arr.SArray([arr.mkprod([cd[k], nA])] + tail(k),
                              (lambda k: lambda idx: PRED[k](zi(idx[0][1]), zi(idx[0][0]), *[zi(v) for v in idx[1:]]))(k)) for k in cd}
        return cmp_blocks(res, spec, D, t, None, "rollout result")

    def body():
        bad = lib.loop_shape(T.autoregressive_map, {"_", "pred_x", "aux_data", "x", "out_x"})
        if bad:
            return "undecided", f"loop contract not applicable: {bad}", None
        return all_paths(W.pre, run, post)

    o = guard(name + "/invariant:base+step+exit", "invariant", body, structure)
    o["replay"] = dict(scenario="map", model=o.get("model"), **structure)
    return [o, cover(name + "/cover:pre", W.pre + [zi(n) >= 2], structure)]
