"""shared machinery of C07 / C20 / C09: the real model constructors and __call__ methods are executed with the LAYER
classes replaced by their contracts (modular verification: a caller is checked against the callee's contract).

functional contract (C20, from C11 / C08 / C13): a layer maps a multi-image with exactly its declared input signature to
fresh blocks with its declared output signature (types in declared order, channel counts, spatial extents by the size
formula, D and flags kept);
relational contract (C07, from C06 / C08): if the second run's input of call #i is g.(first run's input of call #i)
-- an obligation discharged by z3 at every call site -- the output is g.(first run's output).  Pre-conditions of the
relational contracts (unit stride, symmetric padding, types accepted by the block) are call-site obligations too."""
from __future__ import annotations
import itertools
import numpy as np
import z3
from .. import sym, arr, lib
from ..sym import SInt, zi, mk, OutOfReach
from ..arr import Atom, SArray
from ..loader import load
from ..specs.act import act_sym, rotated_flags
from ..conv import out_extent


class Finding(Exception):
    pass


class Session:
    """records layer calls in run 1, checks / replays them in run 2"""

    def __init__(self, D, g=None):
        self.D, self.g = D, g
        self.mode = "record"
        self.calls = []
        self.pos = 0
        self.problems = []        # (kind, text): 'pre' call-site pre-condition, 'rel' input not the transformed input
        self.kf = []              # dependent known findings met on the way (pseudo-scalars through normalisation)
        self.counter = itertools.count()
        self.T = None             # custom transformation (cyclic translation) instead of the group element g

    def transform(self, b, k):
        if self.T is not None:
            return self.T(b, k)
        return act_sym(b, self.D, k[0], k[1], self.g, lead=1)

    def tflags(self, flags):
        return tuple(flags) if self.T is not None else rotated_flags(flags, self.g)

    def fresh_block(self, name, lead_dims, spatial, k):
        return arr.source(f"{name}!{next(self.counter)}", list(lead_dims) + list(spatial) + [Atom(self.D) for _ in range(k)])

    def layer_call(self, layer, kind, x, make_out, accepts=None):
        """x: input MultiImage; make_out() -> list of (key, block) for run 1"""
        G = load()["ginjax.geometric"]
        if self.mode == "record":
            out_blocks = make_out()
            self.calls.append(dict(layer=layer, kind=kind, inp={k: v for k, v in x.items()}, flags=tuple(x.is_torus), out=out_blocks))
            out = x.empty()
            for (k, b) in out_blocks:
                out.append(k[0], k[1], b)
            return out
        # run 2: relational contract
        if self.pos >= len(self.calls):
            self.problems.append(("rel", f"{kind}: more layer calls in the transformed run"))
            raise OutOfReach("call sequence differs between the two runs")
        c = self.calls[self.pos]
        self.pos += 1
        if c["layer"] is not layer:
            self.problems.append(("rel", f"{kind}: a different layer is called at position {self.pos - 1} in the transformed run"))
            raise OutOfReach("call sequence differs between the two runs")
        g = self.g
        if list(x.keys()) != list(c["inp"].keys()):
            self.problems.append(("rel", f"{kind}: key lists differ between the runs"))
        if tuple(x.is_torus) != self.tflags(c["flags"]):
            self.problems.append(("rel", f"{kind}#{self.pos - 1}: boundary flags of the transformed input are {tuple(x.is_torus)}, expected {self.tflags(c['flags'])}"))
        nlead = 1
        for k, b in c["inp"].items():
            if k not in x:
                continue
            st, detail, m = arr.compare(arr.lift(x[k]), self.transform(b, k), f"{kind}#{self.pos - 1} input block {k}")
            if st != "proved":
                self.problems.append(("rel" if st == "refuted" else "undecided", f"{kind}#{self.pos - 1}: input block {k} is not the transformed input: {detail}"))
        out = x.empty()
        for (k, b) in c["out"]:
            out.append(k[0], k[1], self.transform(b, k))
        return out


SESSION = [None]


def _sym_pad(p):
    """is a padding option symmetric (a pre-condition of the equivariance contract)?"""
    if p is None or isinstance(p, str):
        return True
    if isinstance(p, (int, SInt)):
        return True
    try:
        return all(sym.valid(zi(lo) == zi(hi)) for lo, hi in p)
    except Exception:
        return False


def install(equivariant=True):
    """replace the layers' __call__ by their contracts; returns an undo function"""
    M = load()
    Lm, G = M["ginjax.ml.layers"], M["ginjax.geometric"]
    saved = []

    def patch(cls, name, fn):
        saved.append((cls, name, cls.__dict__.get(name)))
        setattr(cls, name, fn)

    # ---- ConvContract
    def conv_call(self, x):
        S = SESSION[0]
        D = S.D
        insig = [(tuple(k), c) for k, c in self.input_keys]
        # functional pre-condition: the input has exactly the declared types (order irrelevant) and channel counts
        if set(x.keys()) != {k for k, _ in insig}:
            S.problems.append(("pre", f"ConvContract: input types {list(x.keys())} != declared input signature {[k for k, _ in insig]}"))
        for k, c in insig:
            if k in x and not arr.ext_eq(x[k].shape[0], c):
                S.problems.append(("pre", f"ConvContract: block {k} has {x[k].shape[0]} channels, declared {c}"))
        stride = self.stride if isinstance(self.stride, tuple) else (self.stride,) * D
        if any(sym.concrete_int(s) != 1 for s in stride):
            S.problems.append(("pre-rel", f"ConvContract: stride {self.stride} is not 1 (no equivariance contract)"))
        if not _sym_pad(self.padding):
            S.problems.append(("pre-rel", f"ConvContract: asymmetric padding {self.padding}"))
        if S.T is not None:
            # translation contract (C06 ob_translation): fully toroidal image and either no image dilation with wrap padding,
            # or the transposed form (2 x 2 bank, image dilation 2, padding ((1,1),)*D)
            fs = [sym.concrete_int(v) for v in next(iter(self.invariant_filters.values())).shape[1:1 + D]]
            plain = self.lhs_dilation is None and (self.padding is None or self.padding == "TORUS")
            transposed = (self.lhs_dilation is not None and all(sym.concrete_int(v) == 2 for v in self.lhs_dilation) and all(f == 2 for f in fs)
                          and not isinstance(self.padding, (str, int, SInt)) and self.padding is not None
                          and all(sym.concrete_int(lo) == 1 and sym.concrete_int(hi) == 1 for lo, hi in self.padding))
            if not all(x.is_torus) or not (plain or transposed):
                S.problems.append(("pre-rel", f"ConvContract: no translation contract for flags {tuple(x.is_torus)}, padding {self.padding}, lhs_dilation {self.lhs_dilation}"))

        def make_out():
            first = next(iter(x.values()))
            k0 = next(iter(x.keys()))[0]
            sp = first.shape[1:1 + D]
            fshape = next(iter(self.invariant_filters.values())).shape[1:1 + D]
            rd = self.rhs_dilation if isinstance(self.rhs_dilation, tuple) else (self.rhs_dilation,) * D
            ld = (1,) * D if self.lhs_dilation is None else self.lhs_dilation
            pad = self.padding
            if pad is None:
                pad = "TORUS" if any(x.is_torus) else "SAME"
            outsp = []
            for d in range(D):
                Mf = sym.concrete_int(fshape[d])
                if pad in ("TORUS", "SAME"):
                    lo = hi = ((Mf - 1) // 2) * rd[d]
                elif pad == "VALID":
                    lo = hi = 0
                elif isinstance(pad, (int, SInt)):
                    lo = hi = pad
                else:
                    lo, hi = pad[d]
                outsp.append(Atom(out_extent(sp[d], Mf, stride[d], lo, hi, ld[d], rd[d])))
            # same output spatial atoms as the input when the extent is unchanged (keeps residual sums structural)
            outsp = [first.dims[1 + d] if arr.ext_eq(extent_of(a), sp[d]) else a for d, a in enumerate(outsp)]
            blocks = []
            for (t, oc) in self.target_keys:
                t = tuple(t)
                if any(t in self.weights.get(s, {}) for s, _ in insig):
                    blocks.append((t, S.fresh_block("conv", [Atom(oc)], outsp, t[0])))
            return blocks
        return S.layer_call(self, "ConvContract", x, make_out)

    patch(Lm.ConvContract, "__call__", conv_call)

    # ---- shape-preserving blocks
    def same_shape_call(kind, accepts):
        def call(self, x, *a):
            S = SESSION[0]
            sig = getattr(self, "_gvc_sig", None)
            if sig is not None:
                decl = {tuple(k): c for k, c in sig}
                if set(x.keys()) != set(decl):
                    S.problems.append(("pre", f"{kind}: input types {list(x.keys())} != declared {list(decl)}"))
                for k, c in decl.items():
                    if k in x and not arr.ext_eq(x[k].shape[0], c):
                        S.problems.append(("pre", f"{kind}: block {k} has {x[k].shape[0]} channels, declared {c}"))
            for k in x.keys():
                r = accepts(k)
                if r == "kf":
                    S.kf.append(f"{kind} on a pseudo-scalar block {k}")
                elif not r:
                    S.problems.append(("pre-rel", f"{kind}: type {k} not accepted by the block"))
            res = S.layer_call(self, kind, x, lambda: [(k, S.fresh_block(kind.lower(), [b.dims[0]], b.dims[1:1 + S.D], k[0])) for k, b in x.items()])
            return (res, a[0]) if a else res
        return call

    def rec_init(cls):
        orig = cls.__init__

        def init(self, input_keys, *a, **k):
            orig(self, input_keys, *a, **k)
            self._gvc_sig = input_keys
        saved.append((cls, "__init__", orig))
        cls.__init__ = init

    rec_init(Lm.GroupNorm)
    rec_init(Lm.VectorNeuronNonlinear)
    patch(Lm.GroupNorm, "__call__", same_shape_call("GroupNorm", lambda k: "kf" if k == (0, 1) else k[0] <= 1))
    patch(Lm.VectorNeuronNonlinear, "__call__", same_shape_call("VectorNeuronNonlinear", lambda k: True))

    # ---- pooling
    def pool_call(self, x):
        S = SESSION[0]
        D = S.D
        pl = sym.concrete_int(self.patch_len)

        # pre-condition of the pooling contract (C08): the maximum is taken over the pixel NORM; the signed-value comparison
        # (use_norm=False) is only equivariant for true scalars -- a pseudo-scalar changes sign under reflections
        if not self.use_norm:
            bad = [k for k in x.keys() if tuple(k) != (0, 0)]
            if bad and equivariant:
                S.problems.append(("pre", f"MaxNormPool(use_norm=False) applied to blocks of type {bad}: signed-value max pooling is not equivariant for them"))

        def make_out():
            first = next(iter(x.values()))
            outsp = []
            for d in range(D):
                e = first.shape[1 + d]
                q = arr._try_quot(e, pl) if sym.concrete_int(e) is None else (e // pl if e % pl == 0 else None)
                if q is None:
                    S.problems.append(("pre", f"MaxNormPool: extent {e} is not a multiple of the patch length {pl}"))
                    raise OutOfReach("pooling of a non-divisible extent")
                outsp.append(Atom(q))
            return [(k, S.fresh_block("pool", [b.dims[0]], outsp, k[0])) for k, b in x.items()]
        return S.layer_call(self, "MaxNormPool", x, make_out)

    patch(Lm.MaxNormPool, "__call__", pool_call)

    # ---- conventional (non-equivariant) path: per-type wrapped modules with shape contracts
    def wrapper_call(self, x):
        S = SESSION[0]
        mods = self.modules
        # pre-condition of the relational contract on the EQUIVARIANT path: a per-type wrapped module (a pointwise activation,
        # a plain normalisation) commutes with the group action only on true scalars -- a pseudo-scalar changes sign under
        # improper elements, higher orders mix components.  (On the conventional path the wrapper carries a shape contract only.)
        if equivariant:
            bad = [tuple(k) for k in x.keys() if tuple(k) != (0, 0)]
            if bad:
                S.problems.append(("pre", f"LayerWrapper (a plain per-type module) applied to blocks of type {bad} on the equivariant path: not covered by an equivariance contract (only true scalars are)"))

        def make_out():
            out = []
            for k, b in x.items():
                if k not in mods:
                    S.problems.append(("pre", f"LayerWrapper: no module for type {k}"))
                    continue
                m = mods[k]
                out.append((k, m.shape_contract(S, b) if hasattr(m, "shape_contract") else S.fresh_block("wrapped", [b.dims[0]], b.dims[1:1 + S.D], k[0])))
            return out
        return S.layer_call(self, "LayerWrapper", x, make_out)

    patch(Lm.LayerWrapper, "__call__", wrapper_call)

    def undo():
        for cls, name, old in reversed(saved):
            if old is None:
                try:
                    delattr(cls, name)
                except AttributeError:
                    pass
            else:
                setattr(cls, name, old)
    return undo


def extent_of(a):
    return a.ext


class ConvShape(lib.Module):
    """shape contract of equinox.nn.Conv / ConvTranspose: (in_c, spatial) -> (out_c, spatial') with opaque values"""
    transposed = False

    def __init__(self, num_spatial_dims, in_channels, out_channels, kernel_size, stride=1, padding=0, dilation=1, groups=1, use_bias=True, key=None, **kw):
        self.D, self.in_c, self.out_c = num_spatial_dims, in_channels, out_channels
        D = num_spatial_dims
        tup = lambda v: tuple(v) if isinstance(v, (tuple, list)) else (v,) * D
        self.k, self.stride, self.dil, self.padding = tup(kernel_size), tup(stride), tup(dilation), padding
        self.weight = arr.source(sym.fresh_name("convw"), [Atom(out_channels), Atom(in_channels)] + [Atom(kk) for kk in self.k])
        self.bias = arr.source(sym.fresh_name("convb"), [Atom(out_channels)]) if use_bias else None
        lib.used("equinox.nn.Conv / ConvTranspose (shape contract, opaque values)")

    def shape_contract(self, S, b):
        D = self.D
        if not arr.ext_eq(b.shape[0], self.in_c):
            S.problems.append(("pre", f"Conv: input has {b.shape[0]} channels, layer declared {self.in_c}"))
        outsp = []
        for d in range(D):
            n, kk, st, dl = b.shape[1 + d], self.k[d], self.stride[d], self.dil[d]
            pad = self.padding
            if self.transposed:
                if pad == "VALID" or pad == 0:
                    e = (n - 1) * st + dl * (kk - 1) + 1
                elif pad == "SAME":
                    e = n * st
                else:
                    raise OutOfReach("ConvTranspose padding not modelled")
            else:
                if pad == "SAME":
                    e = sym.int_floordiv(n + st - 1, st)
                elif pad == "VALID":
                    e = sym.int_floordiv(n - dl * (kk - 1) - 1, st) + 1
                elif isinstance(pad, int):
                    e = sym.int_floordiv(n + 2 * pad - dl * (kk - 1) - 1, st) + 1
                else:
                    raise OutOfReach("Conv padding not modelled")
            outsp.append(b.dims[1 + d] if arr.ext_eq(e, n) else Atom(e))
        return S.fresh_block("cnn", [Atom(self.out_c)], outsp, 0)

    def __call__(self, x, *a, **k):
        raise OutOfReach("plain Conv applied outside a LayerWrapper")


class ConvTransposeShape(ConvShape):
    transposed = True


def install_eqx_shapes():
    import sys
    eqnn = sys.modules["equinox.nn"]
    old = (eqnn.__dict__.get("Conv"), eqnn.__dict__.get("ConvTranspose"))
    eqnn.Conv, eqnn.ConvTranspose = ConvShape, ConvTransposeShape

    def undo():
        eqnn.Conv, eqnn.ConvTranspose = old
    return undo


# ------------------------------------------------------------------------------------------------
def build_model(cfg, W, pre):
    """real constructor call for an architecture configuration; returns (model, input blocks, info)"""
    from ..specs.invfilter import invariant_bank_sym
    from .common import sint
    from . import c02
    M = load()
    G, Md = M["ginjax.geometric"], M["ginjax.models"]
    D = cfg["D"]
    ops = [np.asarray(g) for g in c02.ops(D)]
    eqv = cfg.get("equivariant", True)
    insig = [tuple(k) for k in cfg["sin"]]
    outsig = [tuple(k) for k in cfg["sout"]]
    ich = {k: sint(f"ci{k[0]}{k[1]}", pre) for k in insig}
    och = {k: (ich[k] if cfg.get("same_io") and k in ich else sint(f"co{k[0]}{k[1]}", pre)) for k in outsig}
    isig = G.Signature(tuple((k, ich[k]) for k in insig))
    osig = G.Signature(tuple((k, och[k]) for k in outsig))
    depth = sint("depth", pre)
    bank = up = None
    if eqv:
        def mkbank(Mf, tag):
            blocks = {}
            for k in range(0, 5):
                for p in (0, 1):
                    n = Atom(sint(f"{tag}nf{k}{p}", pre))
                    if k <= 2:
                        b, nfree = invariant_bank_sym(D, Mf, k, p, ops, n, f"{tag}R{k}{p}")
                        if nfree > 0:
                            blocks[(k, p)] = b
            return G.MultiImage(blocks, D, True)
        bank, up = mkbank(3, "f"), mkbank(2, "u")
    kw = dict(equivariant=eqv, conv_filters=bank, kernel_size=None if eqv else 3, key=("key", 0))
    arch = cfg["arch"]
    if arch == "ConvBlock":
        model = Md.ConvBlock(D, isig, osig, cfg.get("use_bias", "auto"), cfg.get("activation", "relu"), use_group_norm=cfg.get("group_norm", False),
                             preactivation_order=cfg.get("preact", False), **kw)
    elif arch == "ResNet":
        model = Md.ResNet(D, isig, osig, depth, num_blocks=cfg.get("num_blocks", 1), num_conv=cfg.get("num_conv", 1), use_bias=cfg.get("use_bias", "auto"),
                          activation_f=cfg.get("activation", "gelu"), use_group_norm=cfg.get("group_norm", True), preactivation_order=cfg.get("preact", True), **kw)
    elif arch == "DilResNet":
        model = Md.DilResNet(D, isig, osig, depth, num_blocks=cfg.get("num_blocks", 1), use_bias=cfg.get("use_bias", "auto"),
                             activation_f=cfg.get("activation", "relu"), use_group_norm=cfg.get("group_norm", False), **kw)
    elif arch == "UNet":
        model = Md.UNet(D, isig, osig, depth, num_downsamples=cfg.get("num_downsamples", 1), num_conv=cfg.get("num_conv", 1), use_bias=cfg.get("use_bias", "auto"),
                        activation_f=cfg.get("activation", "gelu"), upsample_filters=up, use_group_norm=cfg.get("group_norm", False), **kw)
    else:
        raise ValueError(arch)
    # spatial extents compatible with the pooling: 2^downsamples * m
    nd = cfg.get("num_downsamples", 0) if arch == "UNet" else 0
    sp = []
    for d in range(D):
        m = sint(f"m{d}", pre)
        pre.append(zi(m) >= 3)
        sp.append(Atom(mk(zi(m) * (2 ** nd)), f"N{d}"))
    X = {k: arr.source(f"X{k[0]}{k[1]}", [Atom(ich[k])] + sp + [Atom(D) for _ in range(k[0])]) for k in insig}
    return model, X, dict(sp=sp, ich=ich, och=och, insig=insig, outsig=outsig, depth=depth, flags=tuple(cfg.get("flags", [True] * D)))


def run_model(cfg, g=None, shift=False):
    """returns (session, y0, yg, info): y0 = model(x) with layer contracts, yg = model(g.x) (if g is given) or
    model(T x) for a cyclic translation T by a symbolic multiple of the total pooling factor (shift=True)"""
    M = load()
    G = M["ginjax.geometric"]
    D = cfg["D"]
    pre = []
    undo_shapes = install_eqx_shapes() if not cfg.get("equivariant", True) else (lambda: None)
    undo = install()
    S = Session(D, g)
    SESSION[0] = S
    try:
        sym.reset(pre=[], todo=[])
        pre = sym.CTX.path                 # pre-conditions are asserted as they are created (constructors need them)
        model, X, info = build_model(cfg, None, pre)
        npre = len(pre)
        flags = info["flags"]
        y0 = model(G.MultiImage(dict(X), D, flags))[0]
        yg = None
        if g is not None:
            S.mode = "replay"
            gX = {k: act_sym(b, D, k[0], k[1], g, lead=1) for k, b in X.items()}
            yg = model(G.MultiImage(gX, D, rotated_flags(flags, g)))[0]
            if S.pos != len(S.calls):
                S.problems.append(("rel", "fewer layer calls in the transformed run"))
        elif shift:
            from ..specs.act import shift_sym
            from .common import sint as _sint
            nd = cfg.get("num_downsamples", 0) if cfg["arch"] == "UNet" else 0
            ms = [z3.Int(f"m{d}") for d in range(D)]
            ts = [_sint(f"t{d}", pre, 0) for d in range(D)]
            for d in range(D):
                pre.append(zi(ts[d]) < ms[d])
            npre = len(pre)

            def T(b, k):
                taus = []
                for d in range(D):
                    e = zi(arr.extent(b.dims[1 + d]))
                    for lvl in range(nd + 1):
                        if sym.valid(e == ms[d] * (2 ** (nd - lvl))):
                            taus.append(mk(zi(ts[d]) * (2 ** (nd - lvl))))
                            break
                    else:
                        raise OutOfReach(f"translation: spatial extent {e} is not one of the pooling levels")
                return shift_sym(arr.lift(b), taus, D, lead=1)
            S.T = T
            S.mode = "replay"
            info["T"] = T
            yg = model(G.MultiImage({k: T(b, k) for k, b in X.items()}, D, flags))[0]
            if S.pos != len(S.calls):
                S.problems.append(("rel", "fewer layer calls in the transformed run"))
    finally:
        undo()
        undo_shapes()
        SESSION[0] = None
    info["pre"] = list(pre[:npre])
    info["X"] = X
    return S, y0, yg, info
