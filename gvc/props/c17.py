"""C17 -- mini-batching is an aligned partition of the data set."""
import itertools
import z3
from .. import sym, arr, lib
from ..sym import SInt, zi, mk, valid
from ..arr import Atom, Prod, Sum, Br, Flat
from ..core import Ob, guard
from ..loader import load
from .common import World, cmp_blocks, all_paths, cover, geom, sint

LEVEL = "proof"
MANIFEST = {
    "category": "proof",
    "technique": "contract-based deductive verification: real get_batches / get_subset / reshape_pmap executed with symbolic L, B, block extents and an uninterpreted bijection for the shuffle; generic-iteration loop contract (append-only loop, AST-guarded); element-wise post-condition and index-injectivity lemmas discharged by z3",
    "text": "L (data-set size), B = n_dev*m (batch size), all block extents and the permutation (an uninterpreted bijection of range(L), identity when the key is None) are symbolic. For a generic batch number i < floor(L/B): batches[j][i][t][d, r, ...] == mi_j[t][pi(i*B + d*m + r), ...] with the same pi, i, d, r for every co-batched multi-image j and every type t; the number of batches is floor(L/B); gather indices are proved in range; the flat positions i*B+d*m+r are pairwise distinct and < L (lemma), so with pi injective no sample index repeats within an epoch. Tests use one (L,B) and one key.",
    "note": "device counts enumerated {1,2,4} (B a multiple of the device count: pre-condition); 1-3 co-batched multi-images with different key sets enumerated; random.permutation assumed to return a bijection determined by the key; int(math.floor(L/B)) treated as exact integer floor division (L < 2^53); the batch loop is verified as a generic iteration, valid because the loop body is append-only (AST guard)",
}
FUNCTIONS = ["ginjax.ml.training.get_batches", "MultiImage.get_subset", "MultiImage.reshape_pmap", "MultiImage.get_L", "MultiImage.__init__", "MultiImage.empty", "MultiImage.append"]
TRUSTED = ["CPython for the concrete part", "structured-array engine gvc/arr.py", "z3 incl. non-linear integer arithmetic for i*B terms",
           "generic-iteration rule for append-only loops (gvc.lib.SRange) + AST guard", "random.permutation returns a bijection of range(L) (library contract)"]
ASSUMPTIONS = ["math.floor(L / B) is exact (floats: L < 2^53)", "device count divides the batch size (asserted by reshape_pmap; pre-condition)", "pure data movement"]
EXPLANATION = "Unbounded in L, B, extents and the permutation; enumerated in device count, number of co-batched multi-images and key sets."
GRID = {"quick": "devices {1,2}; co-batched (X,Y) with key sets [(0,0),(1,0)] / [(1,0)]; key None and random",
        "thorough": "devices {1,2,4}; 1-3 co-batched multi-images with 3 different key sets; key None and random; D in {1,2,3}"}


def tr():
    return load()["ginjax.ml.training"]


def jobs(tier):
    out = [("gvc.props.c17", "ob_lemmas", {})]
    q = tier == "quick"
    sets = [[[(0, 0), (1, 0)], [(1, 0)]]] if q else [[[(0, 0), (1, 0)], [(1, 0)]], [[(0, 0)]], [[(1, 1), (0, 0)], [(0, 1)], [(2, 0), (0, 0)]]]
    for D in ([2] if q else [1, 2, 3]):
        for ks in sets:
            ks = [[k for k in s if D > 1 or k[0] == 0] for s in ks]
            if any(not s for s in ks):
                continue
            for ndev in ([1, 2] if q else [1, 2, 4]):
                for keyed in [False, True]:
                    out.append(("gvc.props.c17", "ob_batches", dict(D=D, keysets=ks, ndev=ndev, shuffled=keyed)))
                    if ndev == 1 or not q:
                        out.append(("gvc.props.c17", "ob_batches", dict(D=D, keysets=ks, ndev=ndev, shuffled=keyed, history=True)))
    return out


def _nm(fn, **kw):
    return f"C17/{fn}/" + ",".join(f"{k}={v}" for k, v in kw.items())


def ob_batches(D, keysets, ndev, shuffled, history=False):
    G, T = geom(), tr()
    W = World(D)
    pre = W.pre
    L = sint("L", pre)
    m = sint("m", pre)                      # per-device batch size
    B = mk(zi(m) * ndev)
    pre.append(zi(B) <= zi(L))
    LA = Atom(L, "L")
    mis_blocks = []
    for j, ks in enumerate(keysets):
        blocks = {}
        for k in ks:
            k = tuple(k)
            c = Atom(sint(f"c{j}_{k[0]}{k[1]}", pre), f"c{j}_{k[0]}{k[1]}")
            blocks[k] = arr.source(f"mi{j}_{k[0]}{k[1]}", [LA, c] + W.spatial + [Atom(D) for _ in range(k[0])])
        mis_blocks.append(blocks)
    structure = dict(D=D, keysets=keysets, ndev=ndev, shuffled=shuffled)
    if history:
        structure["history"] = "an earlier get_batches call on the SAME MultiImage objects, whose blocks are then replaced in place"
    devices = [f"dev{i}" for i in range(ndev)]
    key = ("key", "k0") if shuffled else None
    captured = {}
    orig_range = T.__dict__["range"]

    def range_wrap(*a):
        r = orig_range(*a)
        if isinstance(r, lib.SRange):
            captured["range"] = r
        return r

    def run():
        captured.clear()
        lib._PERM_CACHE.clear()
        T.__dict__["range"] = range_wrap
        try:
            if history:
                # call history: same container objects, first batched with OTHER contents, then updated in place (__setitem__);
                # the batches of the second call must be those of the data passed to it
                olds = [{k: arr.source("old_" + f"mi{j}_{k[0]}{k[1]}", b.dims) for k, b in blocks.items()} for j, blocks in enumerate(mis_blocks)]
                mis = tuple(G.MultiImage(dict(b), D, True) for b in olds)
                T.get_batches(mis if len(mis) > 1 else mis[0], B, key, devices)
                for mi_, blocks in zip(mis, mis_blocks):
                    for k, b in blocks.items():
                        mi_[k] = b
                captured.clear()
                lib._PERM_CACHE.clear()
            else:
                mis = tuple(G.MultiImage(dict(b), D, True) for b in mis_blocks)
            res = T.get_batches(mis if len(mis) > 1 else mis[0], B, key, devices)
        finally:
            T.__dict__["range"] = orig_range
        return res

    def post(res):
        if len(res) != len(mis_blocks):
            return "refuted", f"{len(res)} batch lists for {len(mis_blocks)} multi-images", None
        rng = captured.get("range")
        if rng is None or rng.var is None:
            return "undecided", "the batch loop was not executed as a generic iteration", None
        # number of batches == floor(L / B)
        st, mdl = sym.refute_or_prove(z3.And(zi(rng.n) * zi(B) <= zi(L), zi(L) < (zi(rng.n) + 1) * zi(B), zi(rng.lo) == 0))
        if st != "proved":
            return st, f"number of batches {rng.n} is not floor(L/B)", mdl
        i = rng.var
        perm = lib._PERM_CACHE[next(iter(lib._PERM_CACHE))] if shuffled and lib._PERM_CACHE else None
        if shuffled and perm is None:
            return "refuted", "no permutation was drawn although a key was given", None
        for j, (lst, blocks) in enumerate(zip(res, mis_blocks)):
            if len(lst) != 1:
                return "undecided", "generic iteration produced an unexpected number of list entries", None
            dA, rA = Atom(ndev, "d"), Atom(m, "r")
            spec = {}
            for k, b in blocks.items():
                def elem(idx, b=b):
                    pos = z3.simplify(i * zi(B) + zi(idx[0]) * zi(m) + zi(idx[1]))
                    src = perm.elem([pos]) if perm is not None else pos
                    return b.elem([Flat(src)] + list(idx[2:]))
                spec[k] = arr.SArray([dA, rA] + b.dims[1:], elem)
            st = cmp_blocks(lst[0], spec, D, True, list(blocks.keys()), f"batch of multi-image {j}")
            if st[0] != "proved":
                return st
        return "proved", "aligned batches", None

    def body():
        bad = lib.loop_shape(T.get_batches, {"i", "idxs", "j", "multi_image"})
        if bad:
            return "undecided", f"generic-iteration contract not applicable: {bad}", None
        return all_paths(pre, run, post)

    name = _nm("get_batches", **{k_: v for k_, v in structure.items() if k_ != "history"}) + (",history=in-place-update" if history else "")
    o = guard(name + "/ensures:aligned-partition", "ensures", body, structure)
    o["replay"] = dict(scenario="batches", model=o.get("model"), **dict(structure, history=bool(history)))
    if history:
        return [o]
    obs = [o, cover(name + "/cover:pre", pre + [zi(L) >= 2 * zi(B) + 1], structure)]
    if ndev == 2:
        # canary: round-robin device assignment (sample d + r*n_dev) must be refuted
        def post_bad(res):
            rng = captured.get("range")
            i = rng.var
            perm = lib._PERM_CACHE[next(iter(lib._PERM_CACHE))] if shuffled and lib._PERM_CACHE else None
            blocks = mis_blocks[0]
            k, b = next(iter(blocks.items()))
            dA, rA = Atom(ndev, "d"), Atom(m, "r")

            def elem(idx):
                pos = z3.simplify(i * zi(B) + zi(idx[1]) * ndev + zi(idx[0]))
                src = perm.elem([pos]) if perm is not None else pos
                return b.elem([Flat(src)] + list(idx[2:]))
            return arr.compare(res[0][0][k], arr.SArray([dA, rA] + b.dims[1:], elem), "round-robin (wrong)")
        obs.append(guard(name + "/canary:round-robin-devices", "canary", lambda: all_paths(pre + [zi(m) >= 2], run, post_bad), structure))
    return obs


def ob_lemmas():
    """index lemmas over the spec: positions i*B + d*m + r are in range and pairwise distinct"""
    obs = []
    L, m, i, d, r, i2, d2, r2, n = z3.Ints("L m i d r i2 d2 r2 n")
    for ndev in [1, 2, 4]:
        B = m * ndev
        nb = z3.Int("nb")
        base = [m >= 1, L >= B, nb >= 0, nb * B <= L, L < (nb + 1) * B, i >= 0, i < nb, d >= 0, d < ndev, r >= 0, r < m,
                i2 >= 0, i2 < nb, d2 >= 0, d2 < ndev, r2 >= 0, r2 < m]
        pos, pos2 = i * B + d * m + r, i2 * B + d2 * m + r2

        def lemma(name, hyp, concl):
            def body():
                sym.reset()
                st, mdl = sym.refute_or_prove(z3.Implies(z3.And(*hyp), concl))
                return st, "", mdl
            obs.append(guard(f"C17/lemma:{name},ndev={ndev}", "lemma", body, {"ndev": ndev}))
        lemma("positions are inside the data set", base, z3.And(pos >= 0, pos < L))
        lemma("distinct (batch, device, row) give distinct positions", base + [z3.Or(i != i2, d != d2, r != r2)], pos != pos2)
    # injective pi: distinct positions give distinct samples (from the bijection axiom pi_inv(pi(x)) = x)
    f = z3.Function("pi", z3.IntSort(), z3.IntSort())
    g = z3.Function("pi_inv", z3.IntSort(), z3.IntSort())
    x, y = z3.Ints("x y")

    def body():
        sym.reset()
        st, mdl = sym.refute_or_prove(z3.Implies(z3.And(g(f(x)) == x, g(f(y)) == y, x != y), f(x) != f(y)))
        return st, "", mdl
    obs.append(guard("C17/lemma:a bijection maps distinct positions to distinct samples", "lemma", body))
    return obs
