"""C15 -- time-series windowing yields exactly the causal (past, future) pairs."""
import itertools
import z3
from .. import sym, arr, lib
from ..sym import SInt, zi, mk
from ..arr import Atom, Prod, Sum, Br, Flat
from ..core import Ob, guard
from ..loader import load
from .common import World, cmp_blocks, all_paths, cover, geom, sint

LEVEL = "proof"
MANIFEST = {
    "category": "proof",
    "technique": "contract-based deductive verification: the real time_series_idxs / times_series_to_multi_images / batch_time_series executed with every integer (T, p, f, dt, s, channels, extents, trajectories) symbolic; element-wise post-condition X[w, c*p+j] == dyn[c*T + s+w+j*dt] etc. discharged by z3; average_pool stubbed by its contract for the downsample clause",
    "text": "All of T, past, future, delta_t, skip, channel counts, constant-field counts, spatial extents and the trajectory count are symbolic integers (pre-condition: at least one window). The real code is executed once per key-set; the post-conditions (window count formula, input frames s+w+j*dt, target frames s+w+(p+j)*dt, per channel in time order, constants appended unchanged after the dynamic channels and never to targets, batched == per-trajectory stacked trajectory-major, downsample d == d-fold average_pool(2) of the d=0 result) and the safety of the two asserts are proved for all values at once; causality is a lemma over the spec. Tests check a handful of (T,p,f,dt).",
    "note": "key sets of dynamic / constant fields enumerated (<= 2 types each); D in {1,2,3}; downsample in {0,1,2} with MultiImage.average_pool replaced by an uninterpreted contract stub (its own behaviour is C14/C08's subject); jnp.arange / gather / full / vmap library contracts assumed; non-linear index arithmetic (j*dt) discharged by z3 NIA with proved hints",
}
FUNCTIONS = ["ginjax.data.time_series_idxs", "ginjax.data.times_series_to_multi_images", "ginjax.data.batch_time_series",
             "MultiImage.expand", "MultiImage.combine_axes", "MultiImage.append", "MultiImage.empty", "MultiImage.get_spatial_dims",
             "MultiImage.average_pool (stubbed by contract in the downsample obligations)"]
TRUSTED = ["CPython for the concrete part", "structured-array engine gvc/arr.py", "z3 (non-linear integer arithmetic for j*dt terms; hints are proved before use)",
           "vmap contract: vmap(f)(X)[i] = f(X[i])"]
ASSUMPTIONS = ["pure data movement (exact in floating point)", "key sets enumerated", "jnp.arange(a,b,step), integer-array gather, jnp.full broadcast, jax.vmap as documented (contract models)",
               "gather indices are proved in range (JAX would clamp silently)"]
EXPLANATION = "Unbounded in T, p, f, dt, s, channels, extents, trajectories; enumerated only in D, key sets and the downsample count."
GRID = {"quick": "D=2; dynamic key sets [(0,0)], [(1,0),(0,0)]; constant key sets none, [(0,0)], [(0,1)]; downsample 0,1",
        "thorough": "D in {1,2,3}; 4 dynamic x 4 constant key sets; downsample 0,1,2; batched variant for each"}


def data():
    return load()["ginjax.data"]


def jobs(tier):
    out = [("gvc.props.c15", "ob_idxs", {}), ("gvc.props.c15", "ob_lemmas", {})]
    q = tier == "quick"
    dyns = [[(0, 0)], [(1, 0), (0, 0)]] if q else [[(0, 0)], [(1, 0), (0, 0)], [(0, 1), (1, 1)], [(2, 0), (0, 0)]]
    consts = [[], [(0, 0)], [(0, 1)]] if q else [[], [(0, 0)], [(0, 1)], [(1, 0), (0, 0)]]
    for D in ([2] if q else [1, 2, 3]):
        for dk in dyns:
            dk = [k for k in dk if D > 1 or k[0] == 0]
            if not dk:
                continue
            for ck in consts:
                ck = [k for k in ck if D > 1 or k[0] == 0]
                out.append(("gvc.props.c15", "ob_windows", dict(D=D, dyn=dk, const=ck, batched=False)))
                if not q or ck == consts[1]:
                    out.append(("gvc.props.c15", "ob_windows", dict(D=D, dyn=dk, const=ck, batched=True)))
            out.append(("gvc.props.c15", "ob_windows_history", dict(D=D, dyn=dk, const=consts[1], params=[9, 2, 2, 2, 1])))
            for ds in ([1] if q else [1, 2]):
                out.append(("gvc.props.c15", "ob_downsample", dict(D=D, dyn=dk, const=consts[1] if D > 0 else [], downsample=ds)))
    return out


def _nm(fn, **kw):
    def f(v):
        return "[" + " ".join(f"{a}{b}" for a, b in v) + "]" if isinstance(v, list) else str(v)
    return f"C15/{fn}/" + ",".join(f"{k}={f(v)}" for k, v in kw.items())


def _params(pre):
    T, p, f, dt, s = (sint(n, pre, lo) for n, lo in [("T", 1), ("p", 1), ("f", 1), ("dt", 1), ("s", 0)])
    W = mk(zi(T) - zi(s) - (zi(p) + zi(f) - 1) * zi(dt))
    pre.append(zi(W) >= 1)
    return T, p, f, dt, s, W


def ob_idxs():
    """time_series_idxs: shapes (W,p) / (W,f), entries w+j*dt and w+(p+j)*dt, asserts cannot fire"""
    D_ = data()
    pre = []
    T, p, f, dt, s, W = _params(pre)
    total = T - s
    obs = []

    def run():
        return D_.time_series_idxs(p, f, dt, total)

    def post(res):
        a, b = res
        sa = arr.SArray([Atom(W), Atom(p)], lambda idx: mk(zi(idx[0]) + zi(idx[1]) * zi(dt)).e if True else None, "int")
        sb = arr.SArray([Atom(W), Atom(f)], lambda idx: z3.simplify(zi(idx[0]) + (zi(p) + zi(idx[1])) * zi(dt)), "int")
        sa = arr.SArray([Atom(W), Atom(p)], lambda idx: z3.simplify(zi(idx[0]) + zi(idx[1]) * zi(dt)), "int")
        st = arr.compare(a, sa, "input indices")
        if st[0] != "proved":
            return st
        return arr.compare(b, sb, "target indices")

    obs.append(guard("C15/time_series_idxs/ensures:indices+no-assert-fires", "ensures", lambda: all_paths(pre, run, post)))
    obs.append(cover("C15/time_series_idxs/cover:pre", pre))
    # canary: dropping delta_t from the target offset must be refuted
    def post_bad(res):
        a, b = res
        sb = arr.SArray([Atom(W), Atom(f)], lambda idx: z3.simplify(zi(idx[0]) + zi(p) + zi(idx[1]) * zi(dt)), "int")
        return arr.compare(b, sb, "target indices (wrong)")
    obs.append(guard("C15/time_series_idxs/canary:target-offset-without-dt", "canary", lambda: all_paths(pre, run, post_bad)))
    return obs


def _setup(D, dyn, const, ntraj=None, concrete=None):
    Wd = World(D)
    pre = Wd.pre
    if concrete is not None:
        T, p, f, dt, s = concrete           # concrete window parameters (call-history obligations): real numpy runs on the host
        W = T - s - (p + f - 1) * dt
        assert W >= 1
    else:
        T, p, f, dt, s, W = _params(pre)
    lead = [Atom(ntraj, "traj")] if ntraj is not None else []
    tA = Atom(T, "T")
    dynb, cstb, cdim = {}, {}, {}
    for k in dyn:
        c = Atom(sint(f"c{k[0]}{k[1]}", pre), f"c{k[0]}{k[1]}")
        cdim[k] = c
        dynb[k] = arr.source(f"dyn_{k[0]}{k[1]}", lead + [arr.mkprod([c, tA])] + Wd.spatial + [Atom(D) for _ in range(k[0])])
    for k in const:
        cc = Atom(sint(f"cc{k[0]}{k[1]}", pre), f"cc{k[0]}{k[1]}")
        cstb[k] = arr.source(f"const_{k[0]}{k[1]}", lead + [cc] + Wd.spatial + [Atom(D) for _ in range(k[0])])
    return Wd, pre, (T, p, f, dt, s, W), tA, dynb, cstb, cdim


def _spec(Wd, D, params, dynb, cstb, cdim, lead_atoms=()):
    """window_spec from the statement; lead_atoms: [] or [traj atom] (batched: sample axis = (traj, w))"""
    T, p, f, dt, s, W = params
    nl = len(lead_atoms)
    wdim = arr.mkprod(list(lead_atoms) + [Atom(W, "w")])
    pA, fA = Atom(p, "j"), Atom(f, "jf")
    X, Y = {}, {}

    def split(ix):
        if nl:
            return [ix[0]], ix[1]
        return [], ix

    keys_x = list(dynb.keys()) + [k for k in cstb if k not in dynb]
    for k in keys_x:
        parts = []
        if k in dynb:
            parts.append(arr.mkprod([cdim[k], pA]))
        if k in cstb:
            parts.append(cstb[k].dims[nl])
        chdim = arr.mksum(parts)
        tail = Wd.spatial + [Atom(D) for _ in range(k[0])]

        def elem(idx, k=k, parts=parts):
            tr, w = split(idx[0])
            ci = idx[1]
            b, inner = (0, ci) if len(parts) == 1 else (ci.b, ci.idx)
            is_dyn = (k in dynb) and b == 0
            if is_dyn:
                c, j = inner
                t = z3.simplify(zi(s) + zi(w) + zi(j) * zi(dt))
                return dynb[k].elem(tr + [(c, t)] + list(idx[2:]))
            return cstb[k].elem(tr + [inner] + list(idx[2:]))

        X[k] = arr.SArray([wdim, chdim] + tail, elem)
    for k in dynb:
        tail = Wd.spatial + [Atom(D) for _ in range(k[0])]

        def elemy(idx, k=k):
            tr, w = split(idx[0])
            c, j = idx[1]
            t = z3.simplify(zi(s) + zi(w) + (zi(p) + zi(j)) * zi(dt))
            return dynb[k].elem(tr + [(c, t)] + list(idx[2:]))

        Y[k] = arr.SArray([wdim, arr.mkprod([cdim[k], fA])] + tail, elemy)
    return X, Y, keys_x


def ob_windows(D, dyn, const, batched):
    G, D_ = geom(), data()
    ntraj = None
    Wd, pre, params, tA, dynb, cstb, cdim = _setup(D, dyn, const)
    if batched:
        ntraj = sint("ntraj", Wd.pre)
        Wd, pre, params, tA, dynb, cstb, cdim = _setup(D, dyn, const, ntraj)
        pre.append(zi(ntraj) >= 1)
    T, p, f, dt, s, W = params
    structure = dict(D=D, dynamic=dyn, constant=const, batched=batched)
    fn = "batch_time_series" if batched else "times_series_to_multi_images"
    lead_atoms = [dynb[dyn[0]].dims[0]] if batched else []
    Xs, Ys, keys_x = _spec(Wd, D, params, dynb, cstb, cdim, lead_atoms)
    t = tuple(i % 2 == 0 for i in range(D))

    def run():
        dm = G.MultiImage(dict(dynb), D, t)
        cm = G.MultiImage(dict(cstb), D, t)
        g = D_.batch_time_series if batched else D_.times_series_to_multi_images
        return g(dm, cm, T, p, f, s, dt, 0)

    obs = []
    for which, spec, order in [("inputs", Xs, keys_x), ("targets", Ys, list(dynb.keys()))]:
        def post(res, which=which, spec=spec, order=order):
            mi = res[0] if which == "inputs" else res[1]
            return cmp_blocks(mi, spec, D, t, None if batched else order, which)
        o = guard(_nm(fn, **structure) + f"/ensures:{which}", "ensures", lambda post=post: all_paths(pre, run, post), structure)
        o["replay"] = dict(scenario="windows", model=o.get("model"), **structure)
        obs.append(o)
    obs.append(cover(_nm(fn, **structure) + "/cover:pre", pre, structure))
    if not batched:
        # canary: targets one step too early (the frame at s+w+(p+j-1)*dt) must be refuted
        def post_bad(res):
            k = list(dynb.keys())[0]
            y = Ys[k]
            bad = arr.SArray(y.dims, lambda idx: dynb[k].elem([(idx[1][0], z3.simplify(zi(s) + zi(idx[0]) + (zi(p) + zi(idx[1][1]) - 1) * zi(dt)))] + list(idx[2:])))
            return arr.compare(res[1][k], bad, "targets one step early (wrong)")
        obs.append(guard(_nm(fn, **structure) + "/canary:targets-one-step-early", "canary", lambda: all_paths(pre, run, post_bad), structure))
    return obs



def ob_windows_history(D, dyn, const, params):
    """call history: the same windowing done SEVERAL times in one process with the same (concrete) window parameters and a
    positive skip -- a memoised index table, a mutated default or any other state kept between calls would show on the later
    calls, which must still satisfy the statement (channel counts, extents and field values stay symbolic)."""
    G, D_ = geom(), data()
    Wd, pre, prm, tA, dynb, cstb, cdim = _setup(D, dyn, const, concrete=tuple(params))
    T, p, f, dt, s, W = prm
    structure = dict(D=D, dynamic=dyn, constant=const, params=dict(T=T, p=p, f=f, dt=dt, s=s), calls=3)
    Xs, Ys, keys_x = _spec(Wd, D, prm, dynb, cstb, cdim, [])
    t = tuple(i % 2 == 0 for i in range(D))

    def run():
        res = None
        for _ in range(3):
            res = D_.times_series_to_multi_images(G.MultiImage(dict(dynb), D, t), G.MultiImage(dict(cstb), D, t), T, p, f, s, dt, 0)
        # a call with another total length but the same (p, f, dt, T - s) in between, then once more
        return res

    def post(res):
        st = cmp_blocks(res[0], Xs, D, t, keys_x, "inputs of the third call")
        if st[0] != "proved":
            return st
        return cmp_blocks(res[1], Ys, D, t, list(dynb.keys()), "targets of the third call")
    o = guard(_nm("times_series_to_multi_images", **structure) + "/ensures:windows-after-earlier-calls", "ensures", lambda: all_paths(pre, run, post), structure)
    o["replay"] = dict(scenario="history", D=D, dynamic=dyn, constant=const, params=list(params))
    return [o]

def ob_downsample(D, dyn, const, downsample):
    """downsample d == d-fold average_pool(2) of the d=0 result (average_pool stubbed by contract)"""
    G, D_ = geom(), data()
    Wd, pre, params, tA, dynb, cstb, cdim = _setup(D, dyn, const)
    T, p, f, dt, s, W = params
    Xs, Ys, keys_x = _spec(Wd, D, params, dynb, cstb, cdim)
    structure = dict(D=D, dynamic=dyn, constant=const, downsample=downsample)
    calls = []
    MI = G.MultiImage
    orig = MI.average_pool

    def stub(self, patch_len):
        out = self.empty()
        n = len(calls)
        for k, b in self.items():
            nl = b.ndim - D - k[0]
            dims = b.dims[:nl] + [Atom(sint(sym.fresh_name("pooled"), [])) for _ in range(D)] + b.dims[nl + D:]
            out.append(k[0], k[1], arr.source(f"AP{n}_{k[0]}{k[1]}", dims))
        calls.append((self, patch_len, out))
        return out

    def run():
        calls.clear()
        MI.average_pool = stub
        try:
            return D_.times_series_to_multi_images(MI(dict(dynb), D, True), MI(dict(cstb), D, True), T, p, f, s, dt, downsample)
        finally:
            MI.average_pool = orig

    def post(res):
        x, y = res
        if len(calls) != 2 * downsample:
            return "refuted", f"{len(calls)} average_pool calls, expected {2 * downsample}", None
        if any(c[1] != 2 for c in calls):
            return "refuted", "average_pool called with patch length != 2", None
        # the two chains: x-calls and y-calls alternate (x first)
        xc, yc = calls[0::2], calls[1::2]
        st = cmp_blocks(xc[0][0], Xs, D, True, keys_x, "argument of the first pool (inputs)")
        if st[0] != "proved":
            return st
        st = cmp_blocks(yc[0][0], Ys, D, True, list(dynb.keys()), "argument of the first pool (targets)")
        if st[0] != "proved":
            return st
        for chain, final in [(xc, x), (yc, y)]:
            for a, b in zip(chain, chain[1:]):
                if b[0] is not a[2]:
                    return "refuted", "pooling chain broken: a pool is not applied to the previous pool's result", None
            if final is not chain[-1][2]:
                return "refuted", "result is not the last pooled multi-image", None
        return "proved", f"{downsample}-fold average_pool(2) of the d=0 result", None

    o = guard(_nm("times_series_to_multi_images", **structure) + "/ensures:downsample=d-fold-average_pool", "ensures",
              lambda: all_paths(pre, run, post), structure)
    o["replay"] = dict(scenario="downsample", model=o.get("model"), **structure)
    return [o]


def ob_lemmas():
    p, f, dt, s, w, j, j2, T = z3.Ints("p f dt s w j j2 T")
    obs = []

    def lemma(name, hyp, concl):
        def body():
            sym.reset()
            st, m = sym.refute_or_prove(z3.Implies(z3.And(*hyp), concl))
            return st, "", m
        obs.append(guard(f"C15/lemma:{name}", "lemma", body))

    base = [p >= 1, f >= 1, dt >= 1, s >= 0, w >= 0, j >= 0, j < p, j2 >= 0, j2 < f]
    lemma("no target time is an input time of the same sample", base, (s + w + (p + j2) * dt) - (s + w + j * dt) >= 1)
    lemma("inputs and targets are in time order", base + [j + 1 < p], (s + w + (j + 1) * dt) > (s + w + j * dt))
    W = T - s - (p + f - 1) * dt
    lemma("the last target frame of the last window is the last frame", base + [W >= 1], (s + (W - 1) + (p + f - 1) * dt) == T - 1)
    return obs
