"""C19 -- stopping conditions stop exactly when specified, for any loss history.

Induction over the history: one VC per call of the real `stop` method,
    {Inv(state)}  r = stop(model, epoch, train_loss, val_loss, t)  {Inv(state') and state' = spec_step(state, loss) and r = (since' > patience)}
with the constructor establishing Inv for the empty history.  All integers / reals are symbolic,
the representation of the loss (python float, numpy.float64, numpy.float32, 0-d jax array, None)
is enumerated."""
import z3
from .. import sym, lib, reps
from ..sym import SInt, SReal, SBool, zi, zr, valid
from ..core import Ob, guard
from ..loader import load

LEVEL = "proof"
MANIFEST = {
    "category": "proof",
    "technique": "contract-based deductive verification: symbolic execution of the real stop() methods, per-path VCs vs. a spec transition, z3; induction over the loss history; loop contracts (invariant: base / step / exit through the real loop bodies, locals havoc'ed into the invariant) for the epoch loop and the batch loop of the real ml.train",
    "text": "One VC per path of the real TrainLoss.stop / ValLoss.stop / EpochStop.stop (all numbers symbolic, loss representation enumerated) against the spec transition of the statement, plus the constructor VC: a Hoare-style induction that covers every loss history of every length, which no finite set of test histories does. The training loop's side of the protocol (stop() is consulted before every epoch with the model after the epoch's last step, the number of completed epochs, the mean of that epoch's batch losses as a 0-d array and the validation loss of that model or None; None / None before the first epoch; every step starts from the previous step's model with the j-th input batch paired with the j-th target batch; train returns stop_condition.best_model) is a loop invariant proved through the real loop bodies for a symbolic number of epochs and a symbolic number of batches.",
    "note": "reals not IEEE floats; float() of numpy/jax scalars assumed exact; CPython + proxies + z3 trusted; print/log inert; in the train-loop contract get_batches / train_step / map_loss_in_batches / random.split are replaced by ghost stubs (their own contracts are C17 / C09), the loop-carried locals are overwritten through CPython's frame API (lib.frame_havoc); the unrolled runs for 0..3 epochs are kept as additional bounded obligations",
}
FUNCTIONS = ["ginjax.ml.stopping_conditions.StopCondition.__init__", "ginjax.ml.stopping_conditions.EpochStop.__init__",
             "ginjax.ml.stopping_conditions.EpochStop.stop", "ginjax.ml.stopping_conditions.TrainLoss.__init__",
             "ginjax.ml.stopping_conditions.TrainLoss.stop", "ginjax.ml.stopping_conditions.ValLoss.__init__",
             "ginjax.ml.stopping_conditions.ValLoss.stop", "ginjax.ml.stopping_conditions.StopCondition.log_status (inlined, print inert)", "ginjax.ml.training.train (epoch loop + batch loop: loop invariants, base / step / exit through the real bodies; additionally unrolled 0..3 epochs)"]
TRUSTED = ["CPython executes the concrete part of the real source; proxies SInt/SReal/SBool (gvc/sym.py)",
           "z3 decides the linear real/integer VCs", "float(x) of a numpy scalar / 0-d jax array is exact (assumed)",
           "Hoare-style induction over the history (meta-argument): constructor establishes Inv, every stop() preserves it",
           "spec: gvc/specs/stop_spec.py transcribes the statement",
           "loop-contract meta-argument (base, step from an arbitrary invariant state, exit from an arbitrary invariant state) and CPython's PyFrame_LocalsToFast used to put the real function's locals into the invariant state"]
ASSUMPTIONS = ["losses are real numbers (no NaN, no IEEE rounding): comparisons are over the reals",
               "min_delta >= 0, patience >= 0 (pre-condition)", "print / log_status are inert",
               "float(x) of numpy / jax scalars is exact; jnp.asarray of a 64-bit python / numpy scalar is modelled as rounding to float32 by an uninterpreted function (so a conversion through a float32 array cannot be proved value-preserving)",
               "train(): get_batches / train_step / map_loss_in_batches / random.split are ghost stubs returning opaque tokens indexed by (epoch, step); the loop invariant names the locals model, opt_state, aux_data, epoch, epoch_loss, epoch_val_loss, val_loss, rand_key, epoch_time; every other name assigned in the loops is poisoned after the havoc (a read-before-write makes the obligation undecided, never proved); save_model=None, is_wandb=False"]
EXPLANATION = ("Deductive: every path of the real TrainLoss.stop / ValLoss.stop / EpochStop.stop is executed symbolically "
               "(patience, epochs, counters symbolic Int; losses, min_delta symbolic Real; +inf initial best) and each "
               "post-condition clause is discharged by z3 against the spec transition; with the constructor VC this is an "
               "induction over histories of any length.")
GRID = {"quick": "class in {TrainLoss, ValLoss, EpochStop} x loss representation in {float, np.float64, np.float32, 0-d jax, None} x verbose in {0,1,2}",
        "thorough": "same (the VCs are unbounded; nothing further to enumerate)"}

REPS = ["float", "np.float64", "np.float32", "jax0d", "none"]


def mkrep(kind, name, pre):
    if kind == "none":
        return None, None
    v = z3.Real(name)
    if kind == "float":
        return SReal(v), v
    if kind == "np.float64":
        return reps.NpFloat64(v), v
    if kind == "np.float32":
        return reps.NpFloat32(v), v
    return reps.Jax0d(v), v


def jobs(tier):
    out = []
    for cls in ["TrainLoss", "ValLoss"]:
        out.append(("gvc.props.c19", "ob_init", {"cls": cls}))
        for rep in REPS:
            for verbose in [0, 1, 2]:
                out.append(("gvc.props.c19", "ob_step", {"cls": cls, "rep": rep, "verbose": verbose}))
    out.append(("gvc.props.c19", "ob_init", {"cls": "EpochStop"}))
    for verbose in [0, 1, 2]:
        out.append(("gvc.props.c19", "ob_epoch", {"verbose": verbose}))
    out.append(("gvc.props.c19", "ob_lemmas", {}))
    for k in [0, 1, 2, 3]:
        for v in [False, True]:
            out.append(("gvc.props.c19", "ob_train_loop", {"k": k, "validation": v}))
    for v in [False, True]:
        out.append(("gvc.props.c19", "ob_train_induction", {"validation": v}))
    out.append(("gvc.props.c19", "ob_train_vallos_requires_validation", {}))
    return out


def _sc():
    return load()["ginjax.ml.stopping_conditions"]


def ob_init(cls):
    sc = _sc()
    name = f"C19/{cls}.__init__/ensures:Inv(empty history)"

    def body():
        pre = []
        if cls == "EpochStop":
            E = SInt(z3.Int("epochs"))
            res = []
            for out in sym.run_paths(lambda: sc.EpochStop(E, verbose=0), pre):
                if "raised" in out:
                    return "refuted", f"constructor raises {out['raised']!r}", None
                o = out["result"]
                ok = (o.best_model is None) and o.epochs is E
                if not ok:
                    return "refuted", "EpochStop.__init__ does not store epochs / clear best_model", None
            return "proved", "best_model None, epochs stored", None
        P = SInt(z3.Int("patience"))
        Dl = SReal(z3.Real("min_delta"))
        pre = [P.e >= 0, Dl.e >= 0]
        for out in sym.run_paths(lambda: getattr(sc, cls)(P, Dl, 0), pre):
            if "raised" in out:
                return "refuted", f"constructor raises {out['raised']!r}", None
            o = out["result"]
            best = getattr(o, "best_train_loss" if cls == "TrainLoss" else "best_val_loss")
            okb = isinstance(best, SReal) and best.inf is not None and valid(best.inf)
            oks = o.epochs_since_best == 0 and not isinstance(o.epochs_since_best, (SInt, bool))
            if not (okb and oks and o.best_model is None and o.patience is P and o.min_delta is Dl):
                return "refuted", f"initial state is not (best=+inf, since=0, best_model=None): best={best!r} since={o.epochs_since_best!r}", None
        return "proved", "best=+inf, since=0, best_model=None", None

    return [guard(name, "ensures", body)]


def _step_setup(cls, rep, verbose):
    sc = _sc()
    P = SInt(z3.Int("patience"))
    Dl = SReal(z3.Real("min_delta"))
    s = z3.Int("since")
    b = z3.Real("best")
    binf = z3.Bool("best_is_inf")
    pre = [P.e >= 0, Dl.e >= 0, s >= 0, z3.Implies(binf, s == 0)]
    loss, lv = mkrep(rep, "loss", pre)
    other, _ = mkrep("jax0d" if rep != "none" else "none", "other_loss", pre)
    return sc, P, Dl, s, b, binf, pre, loss, lv, other


def ob_step(cls, rep, verbose):
    """{Inv} stop(...) {Inv', state' = spec_step, r = (since' > patience)} for one monitored-loss representation"""
    sc, P, Dl, s, b, binf, pre, loss, lv, other = _step_setup(cls, rep, verbose)
    fld = "best_train_loss" if cls == "TrainLoss" else "best_val_loss"
    OLD, NEW = object(), object()
    E = SInt(z3.Int("epoch"))
    structure = {"class": cls, "loss_representation": rep, "verbose": verbose}
    obs = []
    results = {}

    lib.NARROW_F64[0] = True        # the representation of the loss matters here: 64-bit scalars are rounded by jnp.asarray

    def run():
        o = getattr(sc, cls)(P, Dl, verbose)
        setattr(o, fld, SReal(b, binf))
        o.epochs_since_best = SInt(s)
        o.best_model = OLD
        tl, vl = (loss, other) if cls == "TrainLoss" else (other, loss)
        r = o.stop(NEW, E, tl, vl, 0.25)
        return o, r

    # spec transition (from the statement)
    if rep == "none":
        improve = z3.BoolVal(False)
        best2_inf, best2, since2, stop2 = binf, b, s, z3.BoolVal(False)
    else:
        improve = z3.Or(binf, lv < b - Dl.e)
        best2_inf = z3.And(binf, z3.Not(improve))          # = False whenever a loss arrives
        best2 = z3.If(improve, lv, b)
        since2 = z3.If(improve, 0, s + 1)
        stop2 = since2 > P.e

    def clauses():
        paths = list(sym.run_paths(run, pre))
        res = {"result": [], "best": [], "since": [], "best_model": [], "raises": []}
        for out in paths:
            path = out["path"]
            sym.CTX.path = list(path)
            if "raised" in out:
                res["raises"].append(("refuted", f"stop() raises {out['raised']!r} on a feasible path", _model(path)))
                continue
            o, r = out["result"]
            rt = r.e if isinstance(r, SBool) else z3.BoolVal(bool(r))
            res["result"].append(sym.refute_or_prove(rt == stop2) + (f"returned {rt}",))
            bst = getattr(o, fld)
            if not isinstance(bst, SReal):
                res["best"].append(("refuted", None, f"best loss field became {type(bst).__name__}"))
            else:
                bi = bst.inf if bst.inf is not None else z3.BoolVal(False)
                res["best"].append(sym.refute_or_prove(z3.And(bi == best2_inf, z3.Or(bi, bst.e == best2))) + (f"best={bst!r}",))
            sn = o.epochs_since_best
            res["since"].append(sym.refute_or_prove(zi(sn) == since2) + (f"since={sn!r}",))
            if o.best_model is NEW:
                res["best_model"].append(sym.refute_or_prove(improve) + ("best_model := model passed now",))
            elif o.best_model is OLD:
                res["best_model"].append(sym.refute_or_prove(z3.Not(improve)) + ("best_model kept",))
            else:
                res["best_model"].append(("refuted", None, "best_model is neither the old nor the passed model"))
        res["npaths"] = len(paths)
        return res

    try:
        res = clauses()
        err = None
    except sym.OutOfReach as ex:
        res, err = None, str(ex)
    base = f"C19/{cls}.stop/rep={rep},verbose={verbose}"
    replay = {"cls": cls, "rep": rep, "verbose": verbose}
    for clause in ["result", "best", "since", "best_model"]:
        name = f"{base}/ensures:{clause}"
        if res is None:
            obs.append(Ob(name, "ensures", "undecided", f"out of reach: {err}", structure=structure))
            continue
        st, detail, model = "proved", f"{len(res[clause])} paths", None
        for r in res[clause] + res["raises"]:
            if r[0] != "proved":
                st, model, detail = ("refuted" if r[0] == "refuted" else "undecided"), r[1], r[2]
                break
        if not res[clause]:
            st, detail = "undecided", "no path reached the post-state"
        md = sym.model_to_dict(model) if model is not None else None
        obs.append(Ob(name, "ensures", st, detail, md, structure, dict(replay, model=md)))
    # cover: the pre-condition is satisfiable and both the improving and the non-improving case are reachable
    cov = [("improving", improve), ("non-improving", z3.Not(improve))] if rep != "none" else [("none", z3.BoolVal(True))]
    for nm, c in cov:
        r, m = sym.check_sat(pre + [c])
        obs.append(Ob(f"{base}/cover:{nm}", "cover", "proved" if r == "sat" else "refuted", "pre-condition /\\ case satisfiable",
                      sym.model_to_dict(m) if m is not None else None, structure))
    # canary: 'stop iff since' >= patience' (off by one) must be refutable through the same pipeline
    if rep != "none" and res is not None:
        bad = None
        for out in sym.run_paths(run, pre):
            if "raised" in out:
                continue
            sym.CTX.path = list(out["path"])
            r = out["result"][1]
            rt = r.e if isinstance(r, SBool) else z3.BoolVal(bool(r))
            st, m = sym.refute_or_prove(rt == (since2 >= P.e))
            if st == "refuted":
                bad = m
                break
        obs.append(Ob(f"{base}/canary:off-by-one", "canary", "refuted" if bad is not None else "proved",
                      "the clause 'stop <=> since >= patience' must be refuted", sym.model_to_dict(bad) if bad is not None else None, structure))
    return obs


def _model(path):
    r, m = sym.check_sat(list(path))
    return m


def ob_epoch(verbose):
    sc = _sc()
    Ep = SInt(z3.Int("epochs"))
    E = SInt(z3.Int("epoch"))
    pre = [E.e >= 0, Ep.e >= 0] + ([Ep.e >= 1] if verbose == 1 else [])
    NEW = object()
    structure = {"class": "EpochStop", "verbose": verbose}
    base = f"C19/EpochStop.stop/verbose={verbose}"

    def run():
        o = sc.EpochStop(Ep, verbose=verbose)
        r = o.stop(NEW, E, SReal(z3.Real("tl")), None, 0.5)
        return o, r

    def body_result():
        for out in sym.run_paths(run, pre):
            sym.CTX.path = list(out["path"])
            if "raised" in out:
                return "refuted", f"stop() raises {out['raised']!r}", _model(out["path"])
            o, r = out["result"]
            rt = r.e if isinstance(r, SBool) else z3.BoolVal(bool(r))
            st, m = sym.refute_or_prove(rt == (E.e >= Ep.e))
            if st != "proved":
                return st, f"returned {rt}", m
        return "proved", "r == (epoch >= epochs) on every path", None

    def body_model():
        for out in sym.run_paths(run, pre):
            if "raised" in out:
                return "refuted", f"stop() raises {out['raised']!r}", _model(out["path"])
            o, r = out["result"]
            if o.best_model is not NEW:
                return "refuted", "best_model is not the model passed", _model(out["path"])
        return "proved", "best_model is the model passed on every path", None

    rp = {"cls": "EpochStop", "verbose": verbose}
    obs = [guard(f"{base}/ensures:result", "ensures", body_result, structure, rp),
           guard(f"{base}/ensures:best_model", "ensures", body_model, structure, rp)]
    for o in obs:
        if o.get("model"):
            o["replay"] = dict(rp, model=o["model"])
    r, m = sym.check_sat(pre)
    obs.append(Ob(f"{base}/cover:pre", "cover", "proved" if r == "sat" else "refuted", "", sym.model_to_dict(m) if m else None, structure))
    return obs


def ob_lemmas():
    """lemmas over the spec transition only (z3)"""
    P, s, s2 = z3.Int("patience"), z3.Int("since"), z3.Int("since2")
    b, l, d = z3.Real("best"), z3.Real("loss"), z3.Real("min_delta")
    binf = z3.Bool("best_is_inf")
    improve = z3.Or(binf, l < b - d)
    since2 = z3.If(improve, 0, s + 1)
    obs = []

    def lemma(name, hyp, concl):
        def body():
            sym.reset()
            st, m = sym.refute_or_prove(z3.Implies(z3.And(*hyp), concl))
            return st, "", m
        obs.append(guard(f"C19/lemma:{name}", "lemma", body))

    inv = [P >= 0, s >= 0, d >= 0, z3.Implies(binf, s == 0)]
    # termination on a non-improving history: the ranking patience+1-since strictly decreases, and stop fires at <= 0
    lemma("ranking decreases on a non-improving epoch", inv + [z3.Not(improve)], (P + 1 - since2) == (P + 1 - s) - 1)
    lemma("stop fires exactly when the ranking reaches zero", inv, (since2 > P) == ((P + 1 - since2) <= 0))
    lemma("never earlier: no stop while at most `patience` consecutive non-improving epochs", inv + [since2 <= P], z3.Not(since2 > P))
    lemma("with min_delta = 0 the best value is the running minimum", inv + [d == 0, z3.Not(binf)],
          z3.If(improve, l, b) == z3.If(l < b, l, b))
    lemma("Inv is preserved (since' >= 0 and best finite after any loss)", inv, z3.And(since2 >= 0, z3.Not(z3.And(binf, z3.Not(improve)))))
    return obs


def ob_train_loop(k, validation):
    """the epoch loop of ml.train, unrolled for k epochs (BOUNDED in k; every quantity inside an epoch is symbolic):
    the stop condition is consulted before every epoch with (model after the last step, number of completed epochs,
    mean of that epoch's batch losses as a 0-d array, validation loss or None, time); before the first epoch both losses
    are None; the function returns stop_condition.best_model"""
    from .. import arr
    T = load()["ginjax.ml.training"]
    sc = _sc()
    nb = 2
    name = f"C19/train/epochs={k},validation={validation}"
    structure = dict(epochs_unrolled=k, validation=validation, batches_per_epoch=nb, bounded_in="number of epochs")

    def body():
        sym.reset(todo=[])
        log = {"stop": [], "steps": [], "val": []}

        class Spy(sc.StopCondition):
            def stop(self, model, current_epoch, train_loss, val_loss, epoch_time):
                log["stop"].append((model, current_epoch, train_loss, val_loss))
                if len(log["stop"]) == 2:
                    self.best_model = "BEST"
                return len(log["stop"]) > k

        def get_batches(mis, batch_size, key, devices=None):
            return [[f"xb{j}" for j in range(nb)], [f"yb{j}" for j in range(nb)]]

        def train_step(map_and_loss, model, optim, opt_state, x, y, aux):
            n = len(log["steps"])
            lv = arr.source(f"loss{n}", [])
            log["steps"].append((model, x, y, lv))
            return f"model{n + 1}", opt_state, lv, aux

        def map_loss_in_batches(map_and_loss, model, x, y, batch_size, key, devices=None, aux_data=None):
            v = arr.source(f"val{len(log['val'])}", [])
            log["val"].append((model, v))
            return v

        class Opt:
            def init(self, p):
                return "opt_state"

        import sys as _s
        eqx = _s.modules["equinox"]
        saved = {n_: T.__dict__[n_] for n_ in ["get_batches", "train_step", "map_loss_in_batches"]}
        saved_filter = eqx.__dict__.get("filter")
        T.__dict__.update(get_batches=get_batches, train_step=train_step, map_loss_in_batches=map_loss_in_batches)
        eqx.filter = lambda m, f: m
        try:
            spy = Spy()
            res = T.train("X", "Y", "map_and_loss", "model0", ("key", 0), spy, 4, Opt(),
                          "VX" if validation else None, "VY" if validation else None, None, ["dev"], "AUX")
        finally:
            T.__dict__.update(saved)
            eqx.filter = saved_filter
        calls = log["stop"]
        if len(calls) != k + 1:
            return "refuted", f"stop() consulted {len(calls)} times for {k} epochs", None
        if calls[0][1] != 0 or calls[0][2] is not None or calls[0][3] is not None or calls[0][0] != "model0":
            return "refuted", f"before the first epoch stop() must see (model0, 0, None, None), got {calls[0]!r}", None
        for i in range(1, k + 1):
            model, ep, tl, vl = calls[i]
            if ep != i or isinstance(ep, bool):
                return "refuted", f"call {i}: current_epoch = {ep!r}", None
            if model != f"model{i * nb}":
                return "refuted", f"call {i}: model passed is {model!r}, the model after the last step is model{i * nb}", None
            if not (isinstance(tl, arr.SArray) and tl.ndim == 0):
                return "refuted", f"call {i}: the train loss is passed as {type(tl).__name__}, the loop is specified to pass a 0-d array", None
            exp = 0
            for j in range((i - 1) * nb, i * nb):
                exp = arr.t_bin("add", exp, log["steps"][j][3].elem(()))
            exp = arr.t_bin("div", exp, nb)
            st, m = sym.refute_or_prove(arr.t_eq(tl.elem(()), exp))
            if st != "proved":
                return ("refuted" if st == "refuted" else "undecided"), f"call {i}: train loss is not the mean of the epoch's batch losses", m
            if validation:
                if not (isinstance(vl, arr.SArray) and vl is log["val"][i - 1][1]) or log["val"][i - 1][0] != model:
                    return "refuted", f"call {i}: validation loss is not the one computed for this epoch's model", None
            elif vl is not None:
                return "refuted", f"call {i}: a validation loss without validation data", None
        best = "BEST" if k >= 1 else "model0"
        if res[0] != best or res[1] != "AUX":
            return "refuted", f"train returned {res[0]!r}, stop_condition.best_model is {best!r}", None
        return "proved", f"{k} epochs, {len(log['steps'])} steps", None

    o = guard(name + "/ensures:stop-condition-protocol", "ensures", body, structure)
    o["replay"] = dict(cls="train", k=k, validation=validation)
    return [o]


# ------------------------------------------------------------------------------------------------------------------
# the epoch loop of ml.train by INDUCTION through the real loop bodies (all numbers of epochs, all numbers of batches)

class Tok:
    """ghost value indexed by symbolic integers, e.g. Tok('model', e, j) = the model after j steps of the epoch that follows
    e completed epochs.  Equality of tokens is decided by z3 on the indices under the current path."""

    def __init__(self, kind, *idx):
        self.kind, self.idx = kind, tuple(idx)

    def same(self, other):
        if not isinstance(other, Tok) or other.kind != self.kind or len(other.idx) != len(self.idx):
            return False
        return all(valid(zi(a) == zi(b)) for a, b in zip(self.idx, other.idx))

    def __repr__(self):
        return f"{self.kind}{list(self.idx)}"


def ob_train_induction(validation):
    """{Inv(e)} one pass through the real body of `while not stop_condition.stop(...)` {Inv(e+1)} for a SYMBOLIC e >= 1, the
    base case through the real initial state, the exit on an arbitrary Inv state, and inside each pass the batch loop
    `for X_batch, Y_batch in zip(X_batches, Y_batches)` by its own induction over a symbolic number of batches nb >= 1.
    The unmodified function runs under CPython; its locals are put into the invariant by lib.frame_havoc (keyed by the AST of
    the two loops: every name the loops assign is either constrained by the invariant or poisoned)."""
    import sys as _s
    from .. import arr
    T = load()["ginjax.ml.training"]
    sc = _sc()
    name = f"C19/train/induction,validation={validation}"
    structure = dict(validation=validation, epochs="symbolic (induction)", batches_per_epoch="symbolic nb >= 1 (induction)")
    OUTER = {"model", "opt_state", "aux_data", "epoch", "epoch_loss", "epoch_val_loss", "val_loss", "rand_key", "epoch_time"}
    INNER = {"model", "opt_state", "aux_data", "epoch_loss"}

    def body():
        names_o, header_o, nouter = lib.loop_names(T.train, 0)
        names_i, header_i, _ = lib.loop_names(T.train, 0, nested=True)
        if nouter != 1 or "stop_condition" not in header_o or "stop" not in header_o:
            raise sym.OutOfReach("train no longer has the single loop `while not stop_condition.stop(...)` the loop contract is keyed to")
        if "zip" not in header_i or "X_batches" not in header_i or "Y_batches" not in header_i:
            raise sym.OutOfReach("the batch loop is no longer `for .. in zip(X_batches, Y_batches)`")
        if not OUTER <= names_o or not INNER <= names_i:
            raise sym.OutOfReach(f"loop contract variables are not assigned by the loops: {sorted(OUTER - names_o)} {sorted(INNER - names_i)}")
        verdicts = []
        for out in sym.run_paths(lambda: run_once(names_o, names_i), []):
            sym.CTX.path = list(out["path"])
            if "raised" in out:
                verdicts.append(("refuted", f"train() raises {out['raised']!r} on a feasible path", _model(out["path"])))
                continue
            verdicts.append(out["result"])
        for v in verdicts:
            if v[0] == "refuted":
                return v
        for v in verdicts:
            if v[0] != "proved":
                return v
        return "proved", f"{len(verdicts)} path(s): " + verdicts[0][1], None

    def run_once(names_o, names_i):
        L = z3.Function("batch_loss", z3.IntSort(), z3.IntSort(), z3.RealSort())       # loss of step j of epoch e
        S = z3.Function("partial_sum", z3.IntSort(), z3.IntSort(), z3.RealSort())      # ghost: sum_{j' < j} L(e, j')
        TL = z3.Function("train_loss", z3.IntSort(), z3.RealSort())                    # what stop() saw after e epochs
        VL = z3.Function("val_loss", z3.IntSort(), z3.RealSort())
        nb = z3.Int("nb")
        sym.CTX.path += [nb >= 1]
        fails = []
        st = {"e": 0, "calls": 0, "steps": 0, "val": [], "splits": [], "epoch_tag": None, "batches": None}

        def zero_d(t):
            return arr.SArray([], lambda idx: t, "real")

        def is0d(x, t, what):
            if not (isinstance(x, arr.SArray) and x.ndim == 0):
                fails.append(("refuted", f"{what}: expected a 0-d array, got {type(x).__name__}", None))
                return
            r, m = sym.refute_or_prove(arr.t_eq(x.elem(()), t))
            if r != "proved":
                fails.append((r, f"{what}: value differs from the specification", m))

        class Batches:
            """ghost list of the epoch's batches (symbolic length nb).  The X list drives the inner induction."""

            def __init__(self, kind, e, drive):
                self.kind, self.e, self.drive, self.i = kind, e, drive, None

            def gvc_slen(self):
                return SInt(nb)

            def __len__(self):
                raise sym.OutOfReach("len() of a symbolic batch list outside slen")

            def __iter__(self):
                e = self.e
                if not self.drive:
                    yield Tok(self.kind, e, 0)
                    yield Tok(self.kind, e, st["batches"][0].i)
                    return
                fr = _s._getframe(1)
                if fr.f_code is not T.train.__code__:
                    raise sym.OutOfReach("the batch list is not iterated directly by train()")
                loc = fr.f_locals          # inner base: the state before the first step
                if not (isinstance(loc["model"], Tok) and loc["model"].same(Tok("model", e, 0))):
                    fails.append(("refuted", f"the first step of an epoch does not start from the model stop() was consulted with: {loc['model']!r}", None))
                if not (loc["epoch_loss"] == 0 and not isinstance(loc["epoch_loss"], (arr.SArray, bool))):
                    fails.append(("refuted", f"epoch_loss is not reset to 0 at the start of the epoch: {loc['epoch_loss']!r}", None))
                yield Tok(self.kind, e, 0)
                self.check(_s._getframe(1), 1, "batch loop, base")
                i = z3.Int(sym.fresh_name("step"))
                sym.CTX.path += [i >= 1, i < nb]
                self.i = i
                self.havoc(_s._getframe(1), i)
                yield Tok(self.kind, e, i)
                self.check(_s._getframe(1), i + 1, "batch loop, step")
                self.havoc(_s._getframe(1), nb)

            def havoc(self, fr, j):
                e = self.e
                extra = {n_: lib.Poison(n_) for n_ in names_i - INNER}
                lib.frame_havoc(fr, model=Tok("model", e, j), opt_state=Tok("opt", e, j), aux_data=Tok("aux", e, j),
                                epoch_loss=zero_d(S(zi(e), zi(j))), **extra)
                st["chain"] = j

            def check(self, fr, j, what):
                e = self.e
                loc = fr.f_locals
                for nm, kind in [("model", "model"), ("opt_state", "opt"), ("aux_data", "aux")]:
                    if not (isinstance(loc[nm], Tok) and loc[nm].same(Tok(kind, e, j))):
                        fails.append(("refuted", f"{what}: `{nm}` is {loc[nm]!r}, the result of the step just taken is {Tok(kind, e, j)!r}", None))
                # ghost definition of the running sum: S(e, j) = S(e, j-1) + L(e, j-1), S(e, 0) = 0
                prev = S(zi(e), zi(j) - 1) if not (isinstance(j, int) and j == 1) else z3.RealVal(0)
                is0d(loc["epoch_loss"], prev + L(zi(e), zi(j) - 1), f"{what}: epoch_loss is not the running sum of the batch losses")

        def train_step(map_and_loss, model, optim, opt_state, x, y, aux):
            e = st["e"]
            j = st["chain"]
            ok = (map_and_loss == "map_and_loss" and isinstance(model, Tok) and model.same(Tok("model", e, j))
                  and isinstance(opt_state, Tok) and opt_state.same(Tok("opt", e, j)) and isinstance(aux, Tok) and aux.same(Tok("aux", e, j))
                  and isinstance(optim, Opt))
            if not ok:
                fails.append(("refuted", f"train_step #{j} of the epoch does not receive the model / optimiser state / aux data of the previous step: {model!r}, {opt_state!r}, {aux!r}", None))
            if not (isinstance(x, Tok) and x.same(Tok("xb", e, j)) and isinstance(y, Tok) and y.same(Tok("yb", e, j))):
                fails.append(("refuted", f"train_step #{j} does not receive the j-th input batch together with the j-th target batch: {x!r}, {y!r}", None))
            st["steps"] += 1
            return Tok("model", e, zi(j) + 1), Tok("opt", e, zi(j) + 1), zero_d(L(zi(e), zi(j))), Tok("aux", e, zi(j) + 1)

        def get_batches(mis, batch_size, key, devices=None):
            e = st["e"]
            if not (isinstance(mis, tuple) and len(mis) == 2 and mis[0] == "X" and mis[1] == "Y" and batch_size == 4 and devices == ["dev"]):
                fails.append(("refuted", f"get_batches is not called with ((X, Y), batch_size, key, devices): {mis!r}, {batch_size!r}, {devices!r}", None))
            if not st["splits"] or key is not st["splits"][-1][2]:
                fails.append(("refuted", "get_batches does not receive the sub-key split off for this epoch", None))
            st["chain"] = 0
            st["batches"] = [Batches("xb", e, True), Batches("yb", e, False)]
            return st["batches"]

        def map_loss_in_batches(map_and_loss, model, x, y, batch_size, key, devices=None, aux_data=None):
            e = st["e"]
            ok = (isinstance(model, Tok) and model.same(Tok("model", e, nb)) and x == "VX" and y == "VY" and batch_size == 4
                  and isinstance(aux_data, Tok) and aux_data.same(Tok("aux", e, nb)))
            if not ok:
                fails.append(("refuted", f"the validation loss is not computed for the model after this epoch's last step on the validation data: {model!r}, {x!r}, {y!r}", None))
            st["val"].append(e)
            return zero_d(VL(zi(e) + 1))

        class Rnd:
            @staticmethod
            def split(key, num=2):
                k = (key, ("key", sym.fresh_name("k0")), ("key", sym.fresh_name("k1")))
                st["splits"].append(k)
                return k[1], k[2]

        class Opt:
            def init(self, p):
                return Tok("opt", 0, 0)

        def outer_inv(e, start):
            """locals of train() when stop() is consulted after e >= 1 completed epochs.  The model then is the result of the
            last step, which is the start of the next epoch: Tok('model', e, 0) is DEFINED as Tok('model', e-1, nb)."""
            d = dict(model=Tok("model", e, 0), opt_state=Tok("opt", e, 0), aux_data=Tok("aux", e, 0), epoch=SInt(zi(e)) if arr.is_z3(zi(e)) else e,
                     epoch_loss=zero_d(TL(zi(e))), epoch_val_loss=zero_d(VL(zi(e))) if validation else None,
                     val_loss=zero_d(VL(zi(e))) if validation else None, rand_key=("key", sym.fresh_name("rk")), epoch_time=0.125)
            d.update({n_: lib.Poison(n_) for n_ in names_o - OUTER})
            return d

        def check_outer(args, fr, e_prev, what):
            """after a pass that started from Inv(e_prev): stop() must see Inv(e_prev + 1)"""
            model, ep, tl, vl, tm = args
            if not (isinstance(model, Tok) and model.same(Tok("model", e_prev, nb))):
                fails.append(("refuted", f"{what}: stop() is consulted with {model!r}, the model after the epoch's last step is {Tok('model', e_prev, 'nb')!r}", None))
            r, m = sym.refute_or_prove(zi(ep) == zi(e_prev) + 1) if not isinstance(ep, bool) else ("refuted", None)
            if r != "proved":
                fails.append((r, f"{what}: current_epoch = {ep!r} is not the number of completed epochs", m))
            is0d(tl, S(zi(e_prev), nb) / z3.ToReal(nb), f"{what}: train loss passed to stop()")
            if validation:
                if not st["val"] or st["val"][-1] is not e_prev:
                    fails.append(("refuted", f"{what}: no validation loss computed in this epoch", None))
                is0d(vl, VL(zi(e_prev) + 1), f"{what}: validation loss passed to stop()")
            elif vl is not None:
                fails.append(("refuted", f"{what}: a validation loss without validation data", None))
            loc = fr.f_locals
            if not (isinstance(loc["opt_state"], Tok) and loc["opt_state"].same(Tok("opt", e_prev, nb))
                    and isinstance(loc["aux_data"], Tok) and loc["aux_data"].same(Tok("aux", e_prev, nb))):
                fails.append(("refuted", f"{what}: optimiser state / aux data are not those of the last step", None))
            if not st["splits"] or loc["rand_key"] is not st["splits"][-1][1]:
                fails.append(("refuted", f"{what}: rand_key is not advanced by the split", None))

        class Spy(sc.StopCondition):
            def stop(self, model, current_epoch, train_loss, val_loss, epoch_time):
                fr = _s._getframe(1)
                if fr.f_code is not T.train.__code__:
                    raise sym.OutOfReach("stop() is not called directly by train()")
                st["calls"] += 1
                c = st["calls"]
                if c == 1:        # base: the real initial state
                    if not (model == "model0" and current_epoch == 0 and not isinstance(current_epoch, bool) and train_loss is None and val_loss is None):
                        fails.append(("refuted", f"before the first epoch stop() must see (model0, 0, None, None), got ({model!r}, {current_epoch!r}, {train_loss!r}, {val_loss!r})", None))
                    if self.best_model != "model0":
                        fails.append(("refuted", "best_model is not initialised with the model passed to train()", None))
                    # name the real initial state with the ghost tokens of epoch 0
                    lib.frame_havoc(fr, model=Tok("model", 0, 0), opt_state=Tok("opt", 0, 0), aux_data=Tok("aux", 0, 0))
                    st["e"] = 0
                    return False
                if c == 2:        # after the pass from the initial state: Inv(1); then an arbitrary e >= 1
                    check_outer((model, current_epoch, train_loss, val_loss, epoch_time), fr, 0, "first epoch")
                    e = z3.Int("e")
                    sym.CTX.path += [e >= 1]
                    st["e"] = e
                    lib.frame_havoc(fr, **outer_inv(e, True))
                    return False
                if c == 3:        # inductive step; then exit from an arbitrary Inv state
                    check_outer((model, current_epoch, train_loss, val_loss, epoch_time), fr, st["e"], "inductive step")
                    e2 = z3.Int("e_exit")
                    sym.CTX.path += [e2 >= 1]
                    st["e"] = e2
                    lib.frame_havoc(fr, **outer_inv(e2, False))
                    self.best_model = "BEST"
                    return True
                raise sym.OutOfReach("stop() consulted after it returned True")

        eqx = _s.modules["equinox"]
        saved = {n_: T.__dict__[n_] for n_ in ["get_batches", "train_step", "map_loss_in_batches", "random"]}
        saved_filter = eqx.__dict__.get("filter")
        T.__dict__.update(get_batches=get_batches, train_step=train_step, map_loss_in_batches=map_loss_in_batches, random=Rnd)
        eqx.filter = lambda m, f: m
        try:
            spy = Spy()
            res = T.train("X", "Y", "map_and_loss", "model0", ("key", 0), spy, 4, Opt(),
                          "VX" if validation else None, "VY" if validation else None, None, ["dev"], "AUX0")
        finally:
            T.__dict__.update(saved)
            eqx.filter = saved_filter
        if st["calls"] != 3:
            return "undecided", f"the loop driver saw {st['calls']} stop() calls", None
        e2 = st["e"]
        if res[0] != "BEST":
            fails.append(("refuted", f"train returns {res[0]!r}, not stop_condition.best_model", None))
        if not (isinstance(res[1], Tok) and res[1].same(Tok("aux", e2, 0))):
            fails.append(("refuted", f"train returns aux data {res[1]!r}, not the current one", None))
        is0d(res[2], TL(e2), "returned train loss")
        if validation:
            is0d(res[3], VL(e2), "returned validation loss")
        elif res[3] is not None:
            fails.append(("refuted", "a validation loss is returned without validation data", None))
        for f in fails:
            if f[0] == "refuted":
                return "refuted", f[1], f[2]
        for f in fails:
            return "undecided", f[1], f[2]
        return "proved", f"base + inductive step + exit of the epoch loop; base + step + exit of the batch loop (twice); {st['steps']} symbolic steps", None

    o = guard(name + "/invariant:stop-condition-protocol", "invariant", body, structure)
    o["replay"] = dict(cls="train", protocol=True, k=3, validation=validation, model=o.get("model"))
    return [o]


def ob_train_vallos_requires_validation():
    T = load()["ginjax.ml.training"]
    sc = _sc()

    def body():
        sym.reset(todo=[])
        try:
            T.train("X", "Y", "f", "m", ("key", 0), sc.ValLoss(), 4, object())
        except ValueError:
            return "proved", "ValueError", None
        except Exception as ex:
            return "refuted", f"raises {type(ex).__name__} instead of ValueError", None
        return "refuted", "ValLoss without validation data is accepted", None
    return [guard("C19/train/rejects:ValLoss-without-validation-data", "rejects", body)]
