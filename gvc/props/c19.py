"""C19 -- stopping conditions stop exactly when specified, for any loss history.

Induction over the history: one VC per call of the real `stop` method,
    {Inv(state)}  r = stop(model, epoch, train_loss, val_loss, t)  {Inv(state') and state' = spec_step(state, loss) and r = (since' > patience)}
with the constructor establishing Inv for the empty history.  All integers / reals are symbolic,
the representation of the loss (python float, numpy.float64, numpy.float32, 0-d jax array, None)
is enumerated."""
import z3
from .. import sym, lib, reps
from ..sym import SInt, SReal, SBool, zi, zr, valid
from ..core import Ob, guard
from ..loader import load

LEVEL = "proof"
MANIFEST = {
    "category": "proof",
    "technique": "contract-based deductive verification: symbolic execution of the real stop() methods, per-path VCs vs. a spec transition, z3; induction over the loss history",
    "text": "One VC per path of the real TrainLoss.stop / ValLoss.stop / EpochStop.stop (all numbers symbolic, loss representation enumerated) against the spec transition of the statement, plus the constructor VC: a Hoare-style induction that covers every loss history of every length, which no finite set of test histories does.",
    "note": "reals not IEEE floats; float() of numpy/jax scalars assumed exact; CPython + proxies + z3 trusted; print/log inert; the epoch loop of train() is covered only by a bounded unrolling / native stand-in",
}
FUNCTIONS = ["ginjax.ml.stopping_conditions.StopCondition.__init__", "ginjax.ml.stopping_conditions.EpochStop.__init__",
             "ginjax.ml.stopping_conditions.EpochStop.stop", "ginjax.ml.stopping_conditions.TrainLoss.__init__",
             "ginjax.ml.stopping_conditions.TrainLoss.stop", "ginjax.ml.stopping_conditions.ValLoss.__init__",
             "ginjax.ml.stopping_conditions.ValLoss.stop", "ginjax.ml.stopping_conditions.StopCondition.log_status (inlined, print inert)", "ginjax.ml.training.train (epoch loop, unrolled 0..3 epochs: bounded)"]
TRUSTED = ["CPython executes the concrete part of the real source; proxies SInt/SReal/SBool (gvc/sym.py)",
           "z3 decides the linear real/integer VCs", "float(x) of a numpy scalar / 0-d jax array is exact (assumed)",
           "Hoare-style induction over the history (meta-argument): constructor establishes Inv, every stop() preserves it",
           "spec: gvc/specs/stop_spec.py transcribes the statement"]
ASSUMPTIONS = ["losses are real numbers (no NaN, no IEEE rounding): comparisons are over the reals",
               "min_delta >= 0, patience >= 0 (pre-condition)", "print / log_status are inert",
               "the epoch loop of train() is verified by unrolling it for 0..3 epochs (bounded in the number of epochs; get_batches / train_step / map_loss_in_batches replaced by stubs returning opaque values)"]
EXPLANATION = ("Deductive: every path of the real TrainLoss.stop / ValLoss.stop / EpochStop.stop is executed symbolically "
               "(patience, epochs, counters symbolic Int; losses, min_delta symbolic Real; +inf initial best) and each "
               "post-condition clause is discharged by z3 against the spec transition; with the constructor VC this is an "
               "induction over histories of any length.")
GRID = {"quick": "class in {TrainLoss, ValLoss, EpochStop} x loss representation in {float, np.float64, np.float32, 0-d jax, None} x verbose in {0,1,2}",
        "thorough": "same (the VCs are unbounded; nothing further to enumerate)"}

REPS = ["float", "np.float64", "np.float32", "jax0d", "none"]


def mkrep(kind, name, pre):
    if kind == "none":
        return None, None
    v = z3.Real(name)
    if kind == "float":
        return SReal(v), v
    if kind == "np.float64":
        return reps.NpFloat64(v), v
    if kind == "np.float32":
        return reps.NpFloat32(v), v
    return reps.Jax0d(v), v


def jobs(tier):
    out = []
    for cls in ["TrainLoss", "ValLoss"]:
        out.append(("gvc.props.c19", "ob_init", {"cls": cls}))
        for rep in REPS:
            for verbose in [0, 1]:
                out.append(("gvc.props.c19", "ob_step", {"cls": cls, "rep": rep, "verbose": verbose}))
    out.append(("gvc.props.c19", "ob_init", {"cls": "EpochStop"}))
    for verbose in [0, 1, 2]:
        out.append(("gvc.props.c19", "ob_epoch", {"verbose": verbose}))
    out.append(("gvc.props.c19", "ob_lemmas", {}))
    for k in [0, 1, 2, 3]:
        for v in [False, True]:
            out.append(("gvc.props.c19", "ob_train_loop", {"k": k, "validation": v}))
    out.append(("gvc.props.c19", "ob_train_vallos_requires_validation", {}))
    return out


def _sc():
    return load()["ginjax.ml.stopping_conditions"]


def ob_init(cls):
    sc = _sc()
    name = f"C19/{cls}.__init__/ensures:Inv(empty history)"

    def body():
        pre = []
        if cls == "EpochStop":
            E = SInt(z3.Int("epochs"))
            res = []
            for out in sym.run_paths(lambda: sc.EpochStop(E, verbose=0), pre):
                if "raised" in out:
                    return "refuted", f"constructor raises {out['raised']!r}", None
                o = out["result"]
                ok = (o.best_model is None) and o.epochs is E
                if not ok:
                    return "refuted", "EpochStop.__init__ does not store epochs / clear best_model", None
            return "proved", "best_model None, epochs stored", None
        P = SInt(z3.Int("patience"))
        Dl = SReal(z3.Real("min_delta"))
        pre = [P.e >= 0, Dl.e >= 0]
        for out in sym.run_paths(lambda: getattr(sc, cls)(P, Dl, 0), pre):
            if "raised" in out:
                return "refuted", f"constructor raises {out['raised']!r}", None
            o = out["result"]
            best = getattr(o, "best_train_loss" if cls == "TrainLoss" else "best_val_loss")
            okb = isinstance(best, SReal) and best.inf is not None and valid(best.inf)
            oks = o.epochs_since_best == 0 and not isinstance(o.epochs_since_best, (SInt, bool))
            if not (okb and oks and o.best_model is None and o.patience is P and o.min_delta is Dl):
                return "refuted", f"initial state is not (best=+inf, since=0, best_model=None): best={best!r} since={o.epochs_since_best!r}", None
        return "proved", "best=+inf, since=0, best_model=None", None

    return [guard(name, "ensures", body)]


def _step_setup(cls, rep, verbose):
    sc = _sc()
    P = SInt(z3.Int("patience"))
    Dl = SReal(z3.Real("min_delta"))
    s = z3.Int("since")
    b = z3.Real("best")
    binf = z3.Bool("best_is_inf")
    pre = [P.e >= 0, Dl.e >= 0, s >= 0, z3.Implies(binf, s == 0)]
    loss, lv = mkrep(rep, "loss", pre)
    other, _ = mkrep("jax0d" if rep != "none" else "none", "other_loss", pre)
    return sc, P, Dl, s, b, binf, pre, loss, lv, other


def ob_step(cls, rep, verbose):
    """{Inv} stop(...) {Inv', state' = spec_step, r = (since' > patience)} for one monitored-loss representation"""
    sc, P, Dl, s, b, binf, pre, loss, lv, other = _step_setup(cls, rep, verbose)
    fld = "best_train_loss" if cls == "TrainLoss" else "best_val_loss"
    OLD, NEW = object(), object()
    E = SInt(z3.Int("epoch"))
    structure = {"class": cls, "loss_representation": rep, "verbose": verbose}
    obs = []
    results = {}

    def run():
        o = getattr(sc, cls)(P, Dl, verbose)
        setattr(o, fld, SReal(b, binf))
        o.epochs_since_best = SInt(s)
        o.best_model = OLD
        tl, vl = (loss, other) if cls == "TrainLoss" else (other, loss)
        r = o.stop(NEW, E, tl, vl, 0.25)
        return o, r

    # spec transition (from the statement)
    if rep == "none":
        improve = z3.BoolVal(False)
        best2_inf, best2, since2, stop2 = binf, b, s, z3.BoolVal(False)
    else:
        improve = z3.Or(binf, lv < b - Dl.e)
        best2_inf = z3.And(binf, z3.Not(improve))          # = False whenever a loss arrives
        best2 = z3.If(improve, lv, b)
        since2 = z3.If(improve, 0, s + 1)
        stop2 = since2 > P.e

    def clauses():
        paths = list(sym.run_paths(run, pre))
        res = {"result": [], "best": [], "since": [], "best_model": [], "raises": []}
        for out in paths:
            path = out["path"]
            sym.CTX.path = list(path)
            if "raised" in out:
                res["raises"].append(("refuted", f"stop() raises {out['raised']!r} on a feasible path", _model(path)))
                continue
            o, r = out["result"]
            rt = r.e if isinstance(r, SBool) else z3.BoolVal(bool(r))
            res["result"].append(sym.refute_or_prove(rt == stop2) + (f"returned {rt}",))
            bst = getattr(o, fld)
            if not isinstance(bst, SReal):
                res["best"].append(("refuted", None, f"best loss field became {type(bst).__name__}"))
            else:
                bi = bst.inf if bst.inf is not None else z3.BoolVal(False)
                res["best"].append(sym.refute_or_prove(z3.And(bi == best2_inf, z3.Or(bi, bst.e == best2))) + (f"best={bst!r}",))
            sn = o.epochs_since_best
            res["since"].append(sym.refute_or_prove(zi(sn) == since2) + (f"since={sn!r}",))
            if o.best_model is NEW:
                res["best_model"].append(sym.refute_or_prove(improve) + ("best_model := model passed now",))
            elif o.best_model is OLD:
                res["best_model"].append(sym.refute_or_prove(z3.Not(improve)) + ("best_model kept",))
            else:
                res["best_model"].append(("refuted", None, "best_model is neither the old nor the passed model"))
        res["npaths"] = len(paths)
        return res

    try:
        res = clauses()
        err = None
    except sym.OutOfReach as ex:
        res, err = None, str(ex)
    base = f"C19/{cls}.stop/rep={rep},verbose={verbose}"
    replay = {"cls": cls, "rep": rep, "verbose": verbose}
    for clause in ["result", "best", "since", "best_model"]:
        name = f"{base}/ensures:{clause}"
        if res is None:
            obs.append(Ob(name, "ensures", "undecided", f"out of reach: {err}", structure=structure))
            continue
        st, detail, model = "proved", f"{len(res[clause])} paths", None
        for r in res[clause] + res["raises"]:
            if r[0] != "proved":
                st, model, detail = ("refuted" if r[0] == "refuted" else "undecided"), r[1], r[2]
                break
        if not res[clause]:
            st, detail = "undecided", "no path reached the post-state"
        md = sym.model_to_dict(model) if model is not None else None
        obs.append(Ob(name, "ensures", st, detail, md, structure, dict(replay, model=md)))
    # cover: the pre-condition is satisfiable and both the improving and the non-improving case are reachable
    cov = [("improving", improve), ("non-improving", z3.Not(improve))] if rep != "none" else [("none", z3.BoolVal(True))]
    for nm, c in cov:
        r, m = sym.check_sat(pre + [c])
        obs.append(Ob(f"{base}/cover:{nm}", "cover", "proved" if r == "sat" else "refuted", "pre-condition /\\ case satisfiable",
                      sym.model_to_dict(m) if m is not None else None, structure))
    # canary: 'stop iff since' >= patience' (off by one) must be refutable through the same pipeline
    if rep != "none" and res is not None:
        bad = None
        for out in sym.run_paths(run, pre):
            if "raised" in out:
                continue
            sym.CTX.path = list(out["path"])
            r = out["result"][1]
            rt = r.e if isinstance(r, SBool) else z3.BoolVal(bool(r))
            st, m = sym.refute_or_prove(rt == (since2 >= P.e))
            if st == "refuted":
                bad = m
                break
        obs.append(Ob(f"{base}/canary:off-by-one", "canary", "refuted" if bad is not None else "proved",
                      "the clause 'stop <=> since >= patience' must be refuted", sym.model_to_dict(bad) if bad is not None else None, structure))
    return obs


def _model(path):
    r, m = sym.check_sat(list(path))
    return m


def ob_epoch(verbose):
    sc = _sc()
    Ep = SInt(z3.Int("epochs"))
    E = SInt(z3.Int("epoch"))
    pre = [E.e >= 0, Ep.e >= 0] + ([Ep.e >= 1] if verbose == 1 else [])
    NEW = object()
    structure = {"class": "EpochStop", "verbose": verbose}
    base = f"C19/EpochStop.stop/verbose={verbose}"

    def run():
        o = sc.EpochStop(Ep, verbose=verbose)
        r = o.stop(NEW, E, SReal(z3.Real("tl")), None, 0.5)
        return o, r

    def body_result():
        for out in sym.run_paths(run, pre):
            sym.CTX.path = list(out["path"])
            if "raised" in out:
                return "refuted", f"stop() raises {out['raised']!r}", _model(out["path"])
            o, r = out["result"]
            rt = r.e if isinstance(r, SBool) else z3.BoolVal(bool(r))
            st, m = sym.refute_or_prove(rt == (E.e >= Ep.e))
            if st != "proved":
                return st, f"returned {rt}", m
        return "proved", "r == (epoch >= epochs) on every path", None

    def body_model():
        for out in sym.run_paths(run, pre):
            if "raised" in out:
                return "refuted", f"stop() raises {out['raised']!r}", _model(out["path"])
            o, r = out["result"]
            if o.best_model is not NEW:
                return "refuted", "best_model is not the model passed", _model(out["path"])
        return "proved", "best_model is the model passed on every path", None

    rp = {"cls": "EpochStop", "verbose": verbose}
    obs = [guard(f"{base}/ensures:result", "ensures", body_result, structure, rp),
           guard(f"{base}/ensures:best_model", "ensures", body_model, structure, rp)]
    for o in obs:
        if o.get("model"):
            o["replay"] = dict(rp, model=o["model"])
    r, m = sym.check_sat(pre)
    obs.append(Ob(f"{base}/cover:pre", "cover", "proved" if r == "sat" else "refuted", "", sym.model_to_dict(m) if m else None, structure))
    return obs


def ob_lemmas():
    """lemmas over the spec transition only (z3)"""
    P, s, s2 = z3.Int("patience"), z3.Int("since"), z3.Int("since2")
    b, l, d = z3.Real("best"), z3.Real("loss"), z3.Real("min_delta")
    binf = z3.Bool("best_is_inf")
    improve = z3.Or(binf, l < b - d)
    since2 = z3.If(improve, 0, s + 1)
    obs = []

    def lemma(name, hyp, concl):
        def body():
            sym.reset()
            st, m = sym.refute_or_prove(z3.Implies(z3.And(*hyp), concl))
            return st, "", m
        obs.append(guard(f"C19/lemma:{name}", "lemma", body))

    inv = [P >= 0, s >= 0, d >= 0, z3.Implies(binf, s == 0)]
    # termination on a non-improving history: the ranking patience+1-since strictly decreases, and stop fires at <= 0
    lemma("ranking decreases on a non-improving epoch", inv + [z3.Not(improve)], (P + 1 - since2) == (P + 1 - s) - 1)
    lemma("stop fires exactly when the ranking reaches zero", inv, (since2 > P) == ((P + 1 - since2) <= 0))
    lemma("never earlier: no stop while at most `patience` consecutive non-improving epochs", inv + [since2 <= P], z3.Not(since2 > P))
    lemma("with min_delta = 0 the best value is the running minimum", inv + [d == 0, z3.Not(binf)],
          z3.If(improve, l, b) == z3.If(l < b, l, b))
    lemma("Inv is preserved (since' >= 0 and best finite after any loss)", inv, z3.And(since2 >= 0, z3.Not(z3.And(binf, z3.Not(improve)))))
    return obs


def ob_train_loop(k, validation):
    """the epoch loop of ml.train, unrolled for k epochs (BOUNDED in k; every quantity inside an epoch is symbolic):
    the stop condition is consulted before every epoch with (model after the last step, number of completed epochs,
    mean of that epoch's batch losses as a 0-d array, validation loss or None, time); before the first epoch both losses
    are None; the function returns stop_condition.best_model"""
    from .. import arr
    T = load()["ginjax.ml.training"]
    sc = _sc()
    nb = 2
    name = f"C19/train/epochs={k},validation={validation}"
    structure = dict(epochs_unrolled=k, validation=validation, batches_per_epoch=nb, bounded_in="number of epochs")

    def body():
        sym.reset(todo=[])
        log = {"stop": [], "steps": [], "val": []}

        class Spy(sc.StopCondition):
            def stop(self, model, current_epoch, train_loss, val_loss, epoch_time):
                log["stop"].append((model, current_epoch, train_loss, val_loss))
                if len(log["stop"]) == 2:
                    self.best_model = "BEST"
                return len(log["stop"]) > k

        def get_batches(mis, batch_size, key, devices=None):
            return [[f"xb{j}" for j in range(nb)], [f"yb{j}" for j in range(nb)]]

        def train_step(map_and_loss, model, optim, opt_state, x, y, aux):
            n = len(log["steps"])
            lv = arr.source(f"loss{n}", [])
            log["steps"].append((model, x, y, lv))
            return f"model{n + 1}", opt_state, lv, aux

        def map_loss_in_batches(map_and_loss, model, x, y, batch_size, key, devices=None, aux_data=None):
            v = arr.source(f"val{len(log['val'])}", [])
            log["val"].append((model, v))
            return v

        class Opt:
            def init(self, p):
                return "opt_state"

        import sys as _s
        eqx = _s.modules["equinox"]
        saved = {n_: T.__dict__[n_] for n_ in ["get_batches", "train_step", "map_loss_in_batches"]}
        saved_filter = eqx.__dict__.get("filter")
        T.__dict__.update(get_batches=get_batches, train_step=train_step, map_loss_in_batches=map_loss_in_batches)
        eqx.filter = lambda m, f: m
        try:
            spy = Spy()
            res = T.train("X", "Y", "map_and_loss", "model0", ("key", 0), spy, 4, Opt(),
                          "VX" if validation else None, "VY" if validation else None, None, ["dev"], "AUX")
        finally:
            T.__dict__.update(saved)
            eqx.filter = saved_filter
        calls = log["stop"]
        if len(calls) != k + 1:
            return "refuted", f"stop() consulted {len(calls)} times for {k} epochs", None
        if calls[0][1] != 0 or calls[0][2] is not None or calls[0][3] is not None or calls[0][0] != "model0":
            return "refuted", f"before the first epoch stop() must see (model0, 0, None, None), got {calls[0]!r}", None
        for i in range(1, k + 1):
            model, ep, tl, vl = calls[i]
            if ep != i or isinstance(ep, bool):
                return "refuted", f"call {i}: current_epoch = {ep!r}", None
            if model != f"model{i * nb}":
                return "refuted", f"call {i}: model passed is {model!r}, the model after the last step is model{i * nb}", None
            if not (isinstance(tl, arr.SArray) and tl.ndim == 0):
                return "refuted", f"call {i}: the train loss is passed as {type(tl).__name__}, the loop is specified to pass a 0-d array", None
            exp = 0
            for j in range((i - 1) * nb, i * nb):
                exp = arr.t_bin("add", exp, log["steps"][j][3].elem(()))
            exp = arr.t_bin("div", exp, nb)
            st, m = sym.refute_or_prove(arr.t_eq(tl.elem(()), exp))
            if st != "proved":
                return ("refuted" if st == "refuted" else "undecided"), f"call {i}: train loss is not the mean of the epoch's batch losses", m
            if validation:
                if not (isinstance(vl, arr.SArray) and vl is log["val"][i - 1][1]) or log["val"][i - 1][0] != model:
                    return "refuted", f"call {i}: validation loss is not the one computed for this epoch's model", None
            elif vl is not None:
                return "refuted", f"call {i}: a validation loss without validation data", None
        best = "BEST" if k >= 1 else "model0"
        if res[0] != best or res[1] != "AUX":
            return "refuted", f"train returned {res[0]!r}, stop_condition.best_model is {best!r}", None
        return "proved", f"{k} epochs, {len(log['steps'])} steps", None

    o = guard(name + "/ensures:stop-condition-protocol", "ensures", body, structure)
    o["replay"] = dict(cls="train", k=k, validation=validation)
    return [o]


def ob_train_vallos_requires_validation():
    T = load()["ginjax.ml.training"]
    sc = _sc()

    def body():
        sym.reset(todo=[])
        try:
            T.train("X", "Y", "f", "m", ("key", 0), sc.ValLoss(), 4, object())
        except ValueError:
            return "proved", "ValueError", None
        except Exception as ex:
            return "refuted", f"raises {type(ex).__name__} instead of ValueError", None
        return "refuted", "ValLoss without validation data is accepted", None
    return [guard("C19/train/rejects:ValLoss-without-validation-data", "rejects", body)]
