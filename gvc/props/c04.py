"""C04 -- convolution computes its mathematical definition in every mode."""
import itertools
import z3
from .. import sym, arr, lib, bigsum
from ..sym import SInt, zi, mk
from ..arr import Atom
from ..core import Ob, guard
from ..loader import load
from ..specs.conv import conv_sym
from .common import World, all_paths, cover, geom, sint

LEVEL = "proof"
MANIFEST = {
    "category": "proof",
    "technique": "contract-based deductive verification: the real convolve / convolve_ravel / convolve_contract / padding helpers executed on symbolic image batches and filter banks (symbolic batch, channels, extents, values) against the direct-sum definition; the channel sum stays a symbolic BigSum compared by congruence, taps unrolled; z3; lax.conv_general_dilated and jnp.pad(wrap) are assumed library contracts",
    "text": "For every enumerated option combination (d, tensor orders, filter sides incl. even / non-square, stride, filter dilation, image dilation, padding kind with symbolic integer / explicit amounts, all per-axis torus flags) the real convolve is proved equal to out[b,o,i] = sum_c sum_a P[b,c,i*stride+a*dil-lo] (x) F[o,c,a] with the statement's boundary treatment and the size formula, for ALL batch sizes, channel counts, image extents and real values. What is verified about ginjax: the NHWC/HWIO re-layouts, the per-component feature grouping, the wrap width, the zero padding of non-torus axes, the padding dispatch, the inverse re-layout; convolve_contract == contraction of convolve; bilinearity follows from the definition (lemma over the spec); even filters with implicit padding are rejected.",
    "note": "lax.conv_general_dilated and jnp.pad(mode='wrap') are assumed (they ARE the definition at the ravelled level); wrap model requires pad <= extent (pre-condition: image at least as large as the half filter); reals not floats; filter sides <= 3 quick / <= 5 thorough, (k,k') <= (1,1) quick / <= 2 thorough; torus padding only without image dilation (as in the statement)",
}
FUNCTIONS = ["functional_geometric_image.convolve", "functional_geometric_image.convolve_ravel", "functional_geometric_image.convolve_contract",
             "functional_geometric_image.conv_contract_image_expand", "functional_geometric_image.pre_tensor_product_expand",
             "functional_geometric_image.get_torus_expanded", "functional_geometric_image.get_same_padding", "functional_geometric_image.parse_shape (inlined)"]
TRUSTED = ["CPython for the concrete part", "structured-array engine + BigSum congruence/linearity", "z3",
           "ASSUMED: direct-sum contract of lax.conv_general_dilated (groups, dilations, padding, size formula) and of jnp.pad(mode='wrap')",
           "spec gvc/specs/conv.py transcribes the statement"]
ASSUMPTIONS = ["reals not floats", "XLA's convolution implements the documented direct sum", "image extent >= wrap width on torus axes", "option grid enumerated (stated in structure_grid)"]
EXPLANATION = "Unbounded in batch, channels, image extents, symbolic padding amounts and values; enumerated in d, tensor orders, filter sides, stride, dilations, padding kind, torus flags."
GRID = {"quick": "d=2 (dense sample) and d=3 (sparse sample) of: (k,k') in {0,1}^2, M in {1,3,(2,3)}, stride {1,2}, rhs dil {1,2}, lhs dil {None,2}, padding {TORUS,None,SAME,VALID,int p,explicit}, all torus flags",
        "thorough": "adds (k,k') up to 2, M=5 and (3,2), stride 3 and mixed, dilation 3, full flag sets in d=3"}


def F():
    return load()["ginjax.geometric.functional_geometric_image"]


def configs(tier):
    q = tier == "quick"
    out = []
    for D in [2, 3]:
        types = [(0, 0), (1, 0), (0, 1), (1, 1)] + ([] if q else [(2, 0), (1, 2), (2, 1)])
        Ms = [(3,) * D, (1,) * D, (2, 3, 3)[:D]] + ([] if q else [(5, 3, 3)[:D], (3, 2, 1)[:D]])
        strides = [1, 2] + ([] if q else [3])
        rdils = [1, 2] + ([] if q else [3])
        ldils = [None, 2]
        pads = ["TORUS", None, "SAME", "VALID", "int", "explicit"]
        flagsets = list(itertools.product([True, False], repeat=D))
        full = []
        for kk, M, st, rd, ld, pd in itertools.product(types, Ms, strides, rdils, ldils, pads):
            even = any(m % 2 == 0 for m in M)
            if even and pd in ("TORUS", None, "SAME"):
                continue
            if pd in ("TORUS", None) and ld is not None:
                continue
            full.append((kk, M, st, rd, ld, pd))
        step = (7 if D == 2 else 23) if q else (2 if D == 2 else 5)
        for i, (kk, M, st, rd, ld, pd) in enumerate(full):
            if i % step:
                continue
            fl = flagsets[(i // step) % len(flagsets)]
            out.append(dict(D=D, k=kk[0], kf=kk[1], M=list(M), stride=st, rdil=rd, ldil=ld, padding=pd, flags=list(fl)))
    # toroidal images NARROWER than the reach of the dilated filter (the wrap runs over several periods): concrete small extents
    out.append(dict(D=2, k=0, kf=1, M=[3, 3], stride=1, rdil=3, ldil=None, padding="TORUS", flags=[True, True], N=[2, 3]))
    out.append(dict(D=2, k=1, kf=0, M=[3, 3], stride=1, rdil=4, ldil=None, padding=None, flags=[True, False], N=[3, 2]))
    if not q:
        out.append(dict(D=2, k=0, kf=0, M=[5, 3], stride=1, rdil=2, ldil=None, padding="TORUS", flags=[True, True], N=[3, 1]))
        out.append(dict(D=3, k=0, kf=1, M=[3, 3, 3], stride=1, rdil=3, ldil=None, padding="TORUS", flags=[True, True, False], N=[2, 2, 3]))
    return out


def jobs(tier):
    out = []
    cfgs = configs(tier)
    narrow = [c for c in cfgs if c.get("N")]
    cfgs = [c for c in cfgs if not c.get("N")]
    for i in range(0, len(cfgs), 3):
        out.append(("gvc.props.c04", "ob_convolve", dict(cfgs=cfgs[i:i + 3])))
    out.append(("gvc.props.c04", "ob_convolve", dict(cfgs=narrow, tag="narrow-torus")))
    for D in [2, 3]:
        for (k, kf) in ([(0, 1), (1, 1), (1, 2)] if tier == "quick" else [(0, 1), (1, 1), (1, 2), (2, 2), (2, 3)]):
            if D == 3 and kf > 2 and tier == "quick":
                continue
            out.append(("gvc.props.c04", "ob_contract", dict(D=D, k=k, kf=kf)))
    out.append(("gvc.props.c04", "ob_padding", {}))
    out.append(("gvc.props.c04", "ob_reject_even", {}))
    out.append(("gvc.props.c04", "ob_bilinear", {}))
    return out


def _setup(D, k, kf, M, minext=None, N=None):
    W = World(D)
    if N is not None:           # concrete (small) extents: images narrower than the reach of the dilated filter
        W.spatial = [Atom(int(n), f"N{i}") for i, n in enumerate(N)]
    B = Atom(sint("batch", W.pre), "batch")
    ci = Atom(sint("in_c", W.pre), "in_c")
    co = Atom(sint("out_c", W.pre), "out_c")
    A = arr.source("A", [B, ci] + W.spatial + [Atom(D) for _ in range(k)])
    Fl = arr.source("F", [co, ci] + [Atom(m) for m in M] + [Atom(D) for _ in range(kf)])
    return W, A, Fl


def _padding_value(pd, D, pre):
    if pd == "int":
        return 2          # isinstance(padding, int) in the source: python ints only; symbolic amounts go through 'explicit'
    if pd == "int1":
        return 1
    if pd == "explicit":
        return tuple((sint(f"lo{d}", pre, 0), sint(f"hi{d}", pre, 0)) for d in range(D))
    return pd


def ob_convolve(cfgs, tag=None):
    Fm = F()
    obs = []
    arr.ENUM_SMALL[0] = 3
    for c in cfgs:
        D, k, kf, M = c["D"], c["k"], c["kf"], tuple(c["M"])
        W, A, Fl = _setup(D, k, kf, M, N=c.get("N"))
        pre = W.pre
        flags = tuple(c["flags"])
        pd = _padding_value(c["padding"], D, pre)
        rd = c["rdil"]
        # pre-condition of the wrap model / statement: the image is at least as large as the wrap width
        for d in range(D):
            if c.get("N") is not None:
                continue        # concrete small extents: the wrap may run over several periods (modelled exactly for concrete n)
            # at least one output pixel / image at least as large as the dilated filter (covers the wrap width too)
            pre.append(zi(W.spatial[d].ext) >= rd * (M[d] - 1) + 1)
        ld = None if c["ldil"] is None else (c["ldil"],) * D
        stride = c["stride"]
        name = "C04/convolve/" + ",".join(f"{a}={c[a]}" for a in ["D", "k", "kf", "M", "stride", "rdil", "ldil", "padding", "flags"] + (["N"] if c.get("N") else []))

        def body(D=D, A=A, Fl=Fl, flags=flags, stride=stride, pd=pd, ld=ld, rd=rd, pre=pre):
            spec = conv_sym(A, Fl, D, flags, (stride,) * D, pd, (1,) * D if ld is None else ld, (rd,) * D)
            return all_paths(pre, lambda: Fm.convolve(D, A, Fl, flags, stride, pd, ld, rd), lambda r: arr.compare(arr.lift(r), spec, "convolve"))

        o = guard(name + "/ensures:definition+shape", "ensures", body, c)
        o["replay"] = dict(scenario="convolve", model=o.get("model"), **c)
        obs.append(o)
    c = cfgs[0]
    obs.append(cover("C04/convolve/cover:pre#" + str(hash(str(c)) % 10000), pre, c))
    # canary per job: the filter flipped (correlation vs. true convolution) must be refuted for a 3-wide filter
    c = next((x for x in cfgs if tuple(x["M"]) == (3,) * x["D"] and x["stride"] == 1), None)
    if c is not None:
        D, k, kf, M = c["D"], c["k"], c["kf"], tuple(c["M"])
        W, A, Fl = _setup(D, k, kf, M)
        for d in range(D):
            W.pre.append(zi(W.spatial[d].ext) >= 3)
        flags = tuple(c["flags"])

        def canary():
            Ff = arr.SArray(Fl.dims, lambda idx: Fl.elem(list(idx[:2]) + [2 - v if i == 0 else v for i, v in enumerate(idx[2:2 + D])] + list(idx[2 + D:])))
            spec = conv_sym(A, Ff, D, flags, (1,) * D, "SAME", (1,) * D, (1,) * D)
            return all_paths(W.pre, lambda: Fm.convolve(D, A, Fl, flags, 1, "SAME", None, 1), lambda r: arr.compare(arr.lift(r), spec, "flipped filter (wrong)"))
        obs.append(guard(f"C04/convolve/D={D},k={k},kf={kf}/canary:flipped-filter", "canary", canary, c))
    return obs


def ob_contract(D, k, kf):
    """convolve_contract == convolution followed by Kronecker contraction of image index m with filter index m"""
    Fm = F()
    arr.ENUM_SMALL[0] = 3
    obs = []
    for (flags, pd, rd) in [((True,) * D, None, 1), ((True, False, False)[:D], "SAME", 2)]:
        W, A, Fl = _setup(D, k, kf, (3,) * D)
        for d in range(D):
            W.pre.append(zi(W.spatial[d].ext) >= rd)
        structure = dict(D=D, k=k, kf=kf, flags=list(flags), padding=pd, rdil=rd)

        def body(W=W, A=A, Fl=Fl, flags=flags, pd=pd, rd=rd):
            full = conv_sym(A, Fl, D, flags, (1,) * D, pd, (1,) * D, (rd,) * D)
            dims = full.dims[:2 + D] + full.dims[2 + D + 2 * k:]

            def elem(idx):
                tot = 0
                rest = list(idx[2 + D:])
                for u in itertools.product(range(D), repeat=k):
                    tot = arr.t_bin("add", tot, full.elem(list(idx[:2 + D]) + list(u) + list(u) + rest))
                return tot
            spec = arr.SArray(dims, elem)
            return all_paths(W.pre, lambda: Fm.convolve_contract(D, A, Fl, flags, 1, pd, None, rd), lambda r: arr.compare(arr.lift(r), spec, "convolve_contract"))

        o = guard(f"C04/convolve_contract/D={D},k={k},kf={kf},flags={list(flags)},padding={pd},rdil={rd}/ensures:contract-of-convolve", "ensures", body, structure)
        o["replay"] = dict(scenario="contract", model=o.get("model"), **structure)
        obs.append(o)
    return obs


def ob_padding():
    """get_same_padding / get_torus_expanded's padding lambda: symmetric ((M-1)//2)*dil on every axis, for ALL M >= 1, dil >= 1"""
    Fm = F()
    obs = []
    for D in [2, 3]:
        pre = []
        Ms = tuple(sint(f"M{d}", pre) for d in range(D))
        ds = tuple(sint(f"dil{d}", pre) for d in range(D))
        for flags in itertools.product([True, False], repeat=D):
            def body(flags=flags, pre=pre, Ms=Ms, ds=ds):
                def post(r):
                    if len(r) != D:
                        return "refuted", "wrong number of axes", None
                    for d in range(D):
                        lo, hi = r[d]
                        exp = ((Ms[d] - 1) // 2) * ds[d] if flags[d] else 0
                        st, m = sym.refute_or_prove(z3.And(zi(lo) == zi(exp), zi(hi) == zi(exp)))
                        if st != "proved":
                            return st, f"axis {d}: padding ({lo},{hi}) is not the symmetric ({exp},{exp})", m
                    return "proved", "symmetric", None
                return all_paths(pre, lambda: Fm.get_same_padding(Ms, ds, flags), post)
            obs.append(guard(f"C04/get_same_padding/D={D},pad_dims={list(flags)}/ensures:symmetric-half-width", "ensures", body, dict(D=D)))
    return obs


def ob_reject_even():
    """even filter sides with implicit padding (TORUS, SAME, None) are rejected; with literal padding accepted"""
    Fm = F()
    obs = []
    for D in [2, 3]:
        for M in [(2,) * D, (2, 3, 3)[:D]]:
            W, A, Fl = _setup(D, 0, 0, M)
            for pd in ["TORUS", "SAME", None]:
                obs.append(guard(f"C04/convolve/D={D},M={list(M)},padding={pd}/rejects:even-filter-needs-literal-padding", "rejects",
                                 lambda W=W, A=A, Fl=Fl, pd=pd, D=D: all_paths(W.pre, lambda: Fm.convolve(D, A, Fl, True, 1, pd, None, 1), None, expect_raise=AssertionError),
                                 dict(D=D, M=list(M), padding=pd)))
    return obs


def ob_bilinear():
    """bilinearity is a lemma over the definition: conv_spec(alpha*A + A', F) == alpha*conv_spec(A,F) + conv_spec(A',F), same in F"""
    obs = []
    arr.ENUM_SMALL[0] = 3
    for D, pd in [(2, "TORUS"), (2, "VALID"), (3, "VALID")]:
        for which in ["image", "filter"]:
            def body(which=which, D=D, pd=pd):
                W, A, Fl = _setup(D, 1, 1, (3,) * D)
                sym.reset(pre=W.pre + [zi(a.ext) >= 3 for a in W.spatial])
                al = sym.SReal(z3.Real("alpha"))
                A2 = arr.source("A2", list(A.dims))
                F2 = arr.source("F2", list(Fl.dims))
                cs = lambda a, f: conv_sym(a, f, D, (True,) * D, (1,) * D, pd, (1,) * D, (1,) * D)
                if which == "image":
                    lhs, rhs = cs(A * al + A2, Fl), cs(A, Fl) * al + cs(A2, Fl)
                else:
                    lhs, rhs = cs(A, Fl * al + F2), cs(A, Fl) * al + cs(A, F2)
                return arr.compare(lhs, rhs, "bilinearity")
            obs.append(guard(f"C04/lemma:definition-is-linear-in-the-{which}/D={D},padding={pd}", "lemma", body, dict(D=D, padding=pd)))
    return obs
