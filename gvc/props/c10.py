"""C10 -- symmetrisation wrappers make any inner model equivariant."""
import itertools
import numpy as np
import z3
from .. import sym, arr, lib
from ..sym import SInt, zi, mk
from ..arr import Atom, SArray
from ..core import Ob, guard
from ..loader import load
from ..specs.act import act_sym, rotated_flags, det_of
from .common import World, cmp_blocks, all_paths, cover, geom, sint
from . import c02

LEVEL = "proof"
MANIFEST = {
    "category": "proof",
    "technique": "contract-based deductive verification: the real GroupAverage.__call__, Climate1D.to1d / from1d / get_1d_signature / __call__ and ModelWrapper.__call__ executed on symbolic multi-images with the inner model an UNINTERPRETED (extensional) function from multi-images to multi-images; relational obligations GA(h.x) == h.GA(x) for every h of every enumerated group, re-layout round trip and reflection intertwining element-wise; z3",
    "text": "The inner model is an arbitrary function: a table of opaque outputs indexed by (provably) equal inputs. GroupAverage: for each group closed under product (B_2, its rotation subgroup, C2xC2, the cyclic group of a 90 degree rotation, a single-reflection group, listed with the identity first or not) and each h in it, with always_average or inference on, the real code (real times_group_element, +, /) gives GA(h.x) == h.GA(x) for all extents and every supported type incl. pseudo-types; with averaging off GA(x) is the inner model's output. Climate1D: from1d(to1d(x)) == x for every key order (past = future, no constants), to1d's signature equals get_1d_signature in content and order, to1d(longitude flip . x) == (1-D reflection) . to1d(x) with the x-component a pseudo-scalar, and the wrapper commutes with the equator reflection for any inner 1-D model; ModelWrapper restores the requested signature around any array model.",
    "note": "reals not floats; groups enumerated (d=2; C2^3 for d=3 in thorough); signatures enumerated; relies on C02's contract only through running the real times_group_element again (no assumption)",
}
FUNCTIONS = ["models.GroupAverage.__call__", "models.Climate1D.__call__", "models.Climate1D.to1d", "models.Climate1D.from1d", "models.Climate1D.get_1d_signature",
             "models.ModelWrapper.__call__", "MultiImage.times_group_element", "MultiImage.__add__", "MultiImage.__truediv__", "MultiImage.concat_inverse", "MultiImage.expand", "MultiImage.combine_axes"]
TRUSTED = ["CPython for the concrete part", "structured-array engine", "z3", "act_spec", "an arbitrary model is an extensional function (table of opaque outputs keyed by provably equal inputs)"]
ASSUMPTIONS = ["reals not floats", "groups are closed under product and transposition (checked per group)", "Climate1D: past_steps == future_steps for the round trip"]
EXPLANATION = "Exhaustive in h for each enumerated group, unbounded in extents, channels and the inner model."
GRID = {"quick": "groups B_2, SO-part, C2xC2, <r90> (identity last), <flip>; signatures [(0,0),(1,0)], [(0,1),(1,1)]; Climate1D key orders x constant layouts",
        "thorough": "adds C2^3 (d=3), all key orders, 3 constant layouts"}


def Md():
    return load()["ginjax.models"]


def groups(D):
    ops = [np.asarray(g) for g in c02.ops(D)]
    out = {}
    if D == 2:
        out["B_2"] = ops
        out["SO(2) part"] = [g for g in ops if det_of(g) == 1]
        out["C2xC2"] = [g for g in ops if np.array_equal(np.abs(g), np.eye(2, dtype=int))]
        r = np.array([[0, -1], [1, 0]])
        out["<r90> (identity last)"] = [r, r @ r, r @ r @ r, np.eye(2, dtype=int)]
        f = np.array([[1, 0], [0, -1]])
        out["<flip> (identity last)"] = [f, np.eye(2, dtype=int)]
    else:
        out["C2^3"] = [g for g in ops if np.array_equal(np.abs(g), np.eye(3, dtype=int))]
    return out


class InnerModel:
    """uninterpreted extensional model, possibly STATEFUL: the same (provably equal) input together with the same incoming
    state gives the same opaque output and the same opaque new state; a different incoming state gives unrelated ones
    (stateful=False: the state is passed through and ignored, the stateless case)"""

    def __init__(self, D, out_sig, tag="M", stateful=False):
        self.D, self.out_sig, self.table, self.tag, self.stateful = D, out_sig, [], tag, stateful

    def __call__(self, x, aux=None):
        G = geom()
        for n, (inp, flags, out, aux_in) in enumerate(self.table):
            if list(inp.keys()) != list(x.keys()) or flags != tuple(x.is_torus):
                continue
            if self.stateful and aux_in != aux:
                continue
            if all(arr.compare(arr.lift(x[k]), inp[k], "model input")[0] == "proved" for k in inp):
                return G.MultiImage({k: b for k, b in out}, self.D, x.is_torus), (("state-after-call", n) if self.stateful else aux)
        first = arr.lift(next(iter(x.values())))
        sp = first.dims[1:1 + self.D]
        out = [(k, arr.source(f"{self.tag}{len(self.table)}_{k[0]}{k[1]}", [c] + list(sp) + [Atom(self.D) for _ in range(k[0])])) for k, c in self.out_sig]
        self.table.append(({k: arr.lift(v) for k, v in x.items()}, tuple(x.is_torus), out, aux))
        return G.MultiImage({k: b for k, b in out}, self.D, x.is_torus), (("state-after-call", len(self.table) - 1) if self.stateful else aux)


def jobs(tier):
    out = []
    for gname, ops in groups(2).items():
        for sig in [[(0, 0), (1, 0)], [(0, 1), (1, 1)]]:
            for hi in range(len(ops)):
                out.append(("gvc.props.c10", "ob_group_average", dict(D=2, gname=gname, sig=sig, hi=hi)))
    if tier != "quick":
        for hi in range(8):
            out.append(("gvc.props.c10", "ob_group_average", dict(D=3, gname="C2^3", sig=[(0, 0), (1, 1)], hi=hi)))
    # a stateful inner model (aux_data / eqx.nn.State): every group element's call must see the SAME incoming state
    for gname, his in [("B_2", [1, 4, 6]), ("<r90> (identity last)", [0]), ("<flip> (identity last)", [0])]:
        for hi in his:
            out.append(("gvc.props.c10", "ob_group_average", dict(D=2, gname=gname, sig=[(0, 0), (1, 0)], hi=hi, stateful=True)))
    out.append(("gvc.props.c10", "ob_ga_off", dict(D=2)))
    orders = [[(0, 0), (0, 1), (1, 0)], [(1, 0), (0, 0), (0, 1)], [(0, 1), (1, 0), (0, 0)], [(1, 0)], [(0, 0), (1, 0)]]
    for o in orders:
        out.append(("gvc.props.c10", "ob_climate_roundtrip", dict(order=o)))
        for cl in ([{}] + ([{"(0, 0)": True}] if (0, 0) in [tuple(k) for k in o] else [])):
            out.append(("gvc.props.c10", "ob_climate_flip", dict(order=o, consts=list(cl.keys()))))
    out.append(("gvc.props.c10", "ob_climate_call", dict(order=[(0, 0), (1, 0)])))
    out.append(("gvc.props.c10", "ob_climate_call", dict(order=[(1, 0), (0, 1), (0, 0)])))
    out.append(("gvc.props.c10", "ob_model_wrapper", {}))
    return out


def _f(v):
    return "[" + " ".join(f"{a}{b}" for a, b in v) + "]"


def ob_group_average(D, gname, sig, hi, stateful=False):
    Gm, Mm = geom(), Md()
    arr.ENUM_SMALL[0] = 3
    ops = groups(D)[gname]
    h = ops[hi]
    sig = [tuple(k) for k in sig]
    W = World(D)
    ch = {k: Atom(sint(f"c{k[0]}{k[1]}", W.pre)) for k in sig}
    X = {k: arr.source(f"X{k[0]}{k[1]}", [ch[k]] + W.spatial + [Atom(D) for _ in range(k[0])]) for k in sig}
    out_sig = [(k, Atom(sint(f"o{k[0]}{k[1]}", W.pre))) for k in reversed(sig)]
    flags = (True, False, True)[:D]
    structure = dict(D=D, group=gname, order=len(ops), h=h.tolist(), sig=sig)
    name = f"C10/GroupAverage/D={D},group={gname},sig={_f(sig)},h#{hi}" + (",stateful-inner-model" if stateful else "")
    if stateful:
        structure["inner_model"] = "stateful (output and new state are opaque functions of input and incoming state)"

    def closed():
        keys = {tuple(g.reshape(-1)) for g in ops}
        return all(tuple((a @ b).reshape(-1)) in keys for a in ops for b in ops) and all(tuple(a.T.reshape(-1)) in keys for a in ops)

    def run():
        inner = InnerModel(D, out_sig, stateful=stateful)
        ga = Mm.GroupAverage(inner, list(ops), always_average=True)
        y0, _ = ga(Gm.MultiImage(dict(X), D, flags), "STATE0" if stateful else None)
        yh, _ = ga(Gm.MultiImage({k: act_sym(X[k], D, k[0], k[1], h, lead=1) for k in sig}, D, rotated_flags(flags, h)), "STATE0" if stateful else None)
        return y0, yh

    def post(res):
        if not closed():
            return "undecided", "group not closed", None
        y0, yh = res
        spec = {k: act_sym(arr.lift(y0[k]), D, k[0], k[1], h, lead=1) for k in y0.keys()}
        return cmp_blocks(yh, spec, D, rotated_flags(flags, h), None, "GA(h.x) vs h.GA(x)")

    o = guard(name + "/ensures:equivariant", "ensures", lambda: all_paths(W.pre, run, post), structure)
    o["replay"] = dict(scenario="group_average", D=D, gname=gname, sig=sig, hi=hi, stateful=stateful)
    obs = [o]
    if hi == 1 and gname == "B_2" and sig[0] == (0, 0):
        obs.append(cover(name + "/cover:pre", W.pre, structure))
        # canary: averaging over a NON-group (a rotation without its powers) must not be equivariant
        def canary():
            r = np.array([[0, -1], [1, 0]])
            inner = InnerModel(D, out_sig)
            ga = Mm.GroupAverage(inner, [np.eye(2, dtype=int), r], always_average=True)
            y0, _ = ga(Gm.MultiImage(dict(X), D, True))
            yh, _ = ga(Gm.MultiImage({k: act_sym(X[k], D, k[0], k[1], r, lead=1) for k in sig}, D, True))
            spec = {k: act_sym(arr.lift(y0[k]), D, k[0], k[1], r, lead=1) for k in y0.keys()}
            return cmp_blocks(yh, spec, D, True, None, "non-group average (must fail)")
        obs.append(guard(name + "/canary:average-over-a-non-group", "canary", lambda: all_paths(W.pre, canary, lambda r: r), structure))
    return obs


def ob_ga_off(D):
    Gm, Mm = geom(), Md()
    W = World(D)
    sig = [(0, 0), (1, 1)]
    ch = {k: Atom(sint(f"c{k[0]}{k[1]}", W.pre)) for k in sig}
    X = {k: arr.source(f"X{k[0]}{k[1]}", [ch[k]] + W.spatial + [Atom(D) for _ in range(k[0])]) for k in sig}
    out_sig = [(k, Atom(sint(f"o{k[0]}{k[1]}", W.pre))) for k in sig]
    ops = groups(D)["B_2"]
    obs = []
    for (aa, inf, oplist, expect_avg) in [(False, False, ops, False), (True, False, [], False)]:
        def run(aa=aa, inf=inf, oplist=oplist):
            inner = InnerModel(D, out_sig)
            ga = Mm.GroupAverage(inner, list(oplist), always_average=aa, inference=inf)
            x = Gm.MultiImage(dict(X), D, True)
            y, aux = ga(x, "AUX")
            return inner, y, aux

        def post(res):
            inner, y, aux = res
            if len(inner.table) != 1 or aux != "AUX":
                return "refuted", f"{len(inner.table)} inner-model calls, aux={aux!r}", None
            return cmp_blocks(y, dict(inner.table[0][2]), D, True, None, "GA(x) == M(x)")
        obs.append(guard(f"C10/GroupAverage/always_average={aa},inference={inf},operators={len(oplist)}/ensures:equals-inner-model-when-off", "ensures",
                         lambda run=run, post=post: all_paths(W.pre, run, post), dict(always_average=aa, inference=inf)))
    return obs


def _climate(order, consts=(), past=None):
    Gm, Mm = geom(), Md()
    D = 2
    pre = []
    nlon, nlat = sint("nlon", pre), sint("nlat", pre)
    P = sint("P", pre)
    lon, lat, PA = Atom(nlon, "lon"), Atom(nlat, "lat"), Atom(P, "P")
    order = [tuple(k) for k in order]
    blocks, cdict, cc = {}, {}, {}
    for k in order:
        c = Atom(sint(f"c{k[0]}{k[1]}", pre), f"c{k[0]}{k[1]}")
        parts = [arr.mkprod([c, PA])]
        if str(k) in consts:
            cc[k] = Atom(sint(f"cc{k[0]}{k[1]}", pre), f"cc{k[0]}{k[1]}")
            parts.append(cc[k])
            cdict[k] = cc[k].ext
        blocks[k] = arr.source(f"X{k[0]}{k[1]}", [arr.mksum(parts), lon, lat] + [Atom(D) for _ in range(k[0])])
    return Gm, Mm, pre, (nlon, nlat, P), (lon, lat, PA), blocks, cdict


def ob_climate_roundtrip(order):
    """from1d(to1d(x)) == x (no constants, past == future) and to1d's signature == get_1d_signature, any key order"""
    Gm, Mm, pre, (nlon, nlat, P), atoms, blocks, cdict = _climate(order)
    arr.ENUM_SMALL[0] = 3
    flags = (True, False)
    name = f"C10/Climate1D/order={_f([tuple(k) for k in order])}"

    def run():
        x = Gm.MultiImage(dict(blocks), 2, flags)
        m = Mm.Climate1D(None, x.get_signature(), P, P, (nlon, nlat), {}, flags)
        one = m.to1d(x)
        return x, one, m.from1d(one), Mm.Climate1D.get_1d_signature(x.get_signature(), nlat)

    def post(res):
        x, one, back, sig1d = res
        st = cmp_blocks(back, blocks, 2, flags, None, "from1d(to1d(x))")
        if st[0] != "proved":
            return st
        got = one.get_signature()
        # content (not order) of the 1-D signature: the statement does not fix the order of the 1-D types
        if sorted(k for k, _ in got) != sorted(k for k, _ in sig1d):
            return "refuted", f"to1d types {[k for k, _ in got]} != get_1d_signature {[k for k, _ in sig1d]}", None
        d1 = dict(sig1d)
        for (k, a) in got:
            b = d1[k]
            st, m = sym.refute_or_prove(zi(a) == zi(b))
            if st != "proved":
                return ("refuted" if st == "refuted" else "undecided"), f"1-D channel count of {k}: {a} vs get_1d_signature {b}", m
        if one.D != 1 or tuple(one.is_torus) != (True,):
            return "refuted", "1-D image metadata", None
        return "proved", "round trip + signature", None

    o = guard(name + "/ensures:lossless-relayout+signature", "ensures", lambda: all_paths(pre, run, post), dict(order=order))
    o["replay"] = dict(scenario="climate", order=order, consts=[])
    return [o]


def ob_climate_flip(order, consts):
    """to1d(longitude flip . x) == (1-D reflection) . to1d(x)"""
    Gm, Mm, pre, (nlon, nlat, P), atoms, blocks, cdict = _climate(order, consts)
    arr.ENUM_SMALL[0] = 3
    flags = (True, False)
    lonflip = np.array([[-1, 0], [0, 1]])
    refl1 = np.array([[-1]])
    name = f"C10/Climate1D.to1d/order={_f([tuple(k) for k in order])},consts={consts}"

    def run():
        x = Gm.MultiImage(dict(blocks), 2, flags)
        m = Mm.Climate1D(None, x.get_signature(), P, P, (nlon, nlat), dict(cdict), flags)
        a = m.to1d(Gm.MultiImage({k: act_sym(b, 2, k[0], k[1], lonflip, lead=1) for k, b in blocks.items()}, 2, flags))
        b = m.to1d(x)
        return a, b

    def post(res):
        a, b = res
        spec = {k: act_sym(arr.lift(v), 1, k[0], k[1], refl1, lead=1) for k, v in b.items()}
        return cmp_blocks(a, spec, 1, (True,), list(b.keys()), "to1d(flip.x) vs reflect.to1d(x)")

    o = guard(name + "/ensures:longitude-flip-becomes-1d-reflection", "ensures", lambda: all_paths(pre, run, post), dict(order=order, consts=consts))
    o["replay"] = dict(scenario="climate", order=order, consts=consts)
    return [o]


def ob_climate_call(order):
    """Climate1D.__call__ commutes with the equator reflection for any inner 1-D model"""
    Gm, Mm, pre, (nlon, nlat, P), atoms, blocks, cdict = _climate(order)
    arr.ENUM_SMALL[0] = 3
    flags = (True, False)
    eq = np.array([[1, 0], [0, -1]])
    name = f"C10/Climate1D.__call__/order={_f([tuple(k) for k in order])}"

    def run():
        x = Gm.MultiImage(dict(blocks), 2, flags)
        sig = x.get_signature()
        sig1d = Mm.Climate1D.get_1d_signature(sig, nlat)

        class Inner1D(InnerModel):
            pass
        inner = InnerModel(1, [(tuple(k), Atom(c)) for k, c in sig1d], tag="M1d")
        # the 1-D model's output has the 1-D signature; spatial = longitudes
        m = Mm.Climate1D(inner, sig, P, P, (nlon, nlat), {}, flags)
        y0, _ = m(x)
        yg, _ = m(Gm.MultiImage({k: act_sym(b, 2, k[0], k[1], eq, lead=1) for k, b in blocks.items()}, 2, flags))
        return y0, yg

    def post(res):
        y0, yg = res
        spec = {k: act_sym(arr.lift(v), 2, k[0], k[1], eq, lead=1) for k, v in y0.items()}
        return cmp_blocks(yg, spec, 2, flags, None, "C1D(flip.x) vs flip.C1D(x)")

    o = guard(name + "/ensures:commutes-with-equator-reflection", "ensures", lambda: all_paths(pre, run, post), dict(order=order))
    o["replay"] = dict(scenario="climate_call", order=order)
    return [o]


def ob_model_wrapper():
    Gm, Mm = geom(), Md()
    D = 2
    W = World(D)
    sig = [(1, 0), (0, 0)]
    ch = {k: Atom(sint(f"c{k[0]}{k[1]}", W.pre)) for k in sig}
    X = {k: arr.source(f"X{k[0]}{k[1]}", [ch[k]] + W.spatial + [Atom(D) for _ in range(k[0])]) for k in sig}
    oc = {(0, 1): sint("o01", W.pre), (2, 0): sint("o20", W.pre)}
    osig = Gm.Signature(tuple((k, c) for k, c in oc.items()))
    total = sum(c * (D ** k[0]) for k, c in oc.items())
    seen = {}

    def array_model(a):
        seen["in"] = a
        out = arr.source("CNN", [Atom(total)] + W.spatial)
        seen["out"] = out
        return out

    def run():
        mw = Mm.ModelWrapper(D, array_model, osig, (False, True))
        return mw(Gm.MultiImage(dict(X), D, True), "AUX")

    def post(res):
        y, aux = res
        if aux != "AUX" or list(y.keys()) != list(oc.keys()) or y.D != D or tuple(y.is_torus) != (False, True):
            return "refuted", f"keys {list(y.keys())}, D {y.D}, flags {y.is_torus}, aux {aux}", None
        for k, c in oc.items():
            b = arr.lift(y[k])
            if not arr.ext_eq(b.shape[0], c) or not all(arr.ext_eq(a, s.ext) for a, s in zip(b.shape[1:1 + D], W.spatial)):
                return "refuted", f"block {k} shape {b.shape}", None
        return "proved", "requested signature, D, flags", None
    return [guard("C10/ModelWrapper/ensures:requested-signature-around-any-array-model", "ensures", lambda: all_paths(W.pre, run, post))]
