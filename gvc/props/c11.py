"""C11 -- the linear layer computes its defining sum and returns the requested types."""
import itertools
import z3
from .. import sym, arr, lib, bigsum
from ..sym import SInt, SReal, zi, mk
from ..arr import Atom
from ..core import Ob, guard
from ..loader import load
from ..specs.conv import conv_sym
from .common import World, cmp_blocks, all_paths, cover, geom, sint

LEVEL = "proof"
MANIFEST = {
    "category": "proof",
    "technique": "contract-based deductive verification: the real ConvContract.__init__ / individual_convolve / __call__ executed with symbolic channel counts, weights, biases, inputs and an arbitrary (opaque) filter bank; individual_convolve against the defining sum built from conv_spec + contraction; __call__ modularly against the callee contract of individual_convolve for all five bias settings; z3 with BigSum congruence",
    "text": "individual_convolve: for every enumerated signature pair and option set, with symbolic channel counts, symbolic numbers of filters per type, opaque weights / filters / inputs and all image extents, block t of the result equals sum over input types s (with an available filter) of the contraction over the input's tensor indices of conv_spec(x_s, sum_f W_st[.,.,f] F_f^(k_s+k_t, p_s+p_t)), with the spatial shape of the size formula. __call__: for 'auto', 'mean', 'scalar', True, False the output holds exactly the reachable target types, in target order, each Z[t] + b[t] (true scalars, additive modes), Z[t] + mean_spatial(Z[t])*b[t] (mean modes) or Z[t]; nothing reachable is dropped, nothing non-scalar gets an additive constant. __init__: weight / bias shapes for exactly the reachable pairs, missing_filter, bias-mode normalisation.",
    "note": "relies on C04's assumed library contracts; signatures enumerated (<= 3 types from {(k,p): k<=2} quick k<=1); filter banks are opaque arrays (the statement does not depend on invariance); reals not floats; fast_convolve is dead code on the pinned tree (fast_mode is forced False); the public entry point __call__ is verified for fresh and pytree-round-tripped layers with equal channel counts, so whichever internal path it takes is compared with the defining sum",
}
FUNCTIONS = ["ml.layers.ConvContract.__init__", "ml.layers.ConvContract.individual_convolve", "ml.layers.ConvContract.__call__",
             "functional_geometric_image.convolve_contract", "functional_geometric_image.convolve", "MultiImage.append/empty/items"]
TRUSTED = ["CPython for the concrete part", "structured-array engine + BigSum rules", "z3", "ASSUMED library contracts of C04; random.uniform / random.split give opaque values",
           "spec: conv_spec + contraction + bias rule transcribed from the statement"]
ASSUMPTIONS = ["reals not floats", "signature pairs and option sets enumerated", "image extent >= dilated filter extent"]
EXPLANATION = "Unbounded in channel counts, numbers of filters, weights, biases, inputs, extents; enumerated in signatures, bias setting, padding / dilation options, D."
GRID = {"quick": "D=2; signature pairs over {(0,0),(1,0),(0,1)}; options {default, SAME+rdil 2, explicit+lhs dil 2, SAME+stride 2 (non-torus)}; five bias settings x 3 signatures",
        "thorough": "D in {2,3}; adds (2,0), (1,1) types and stride 2"}


def L():
    return load()["ginjax.ml.layers"]


def jobs(tier):
    out = []
    q = tier == "quick"
    sigs = [([(0, 0), (1, 0)], [(1, 0), (0, 0)]), ([(1, 0)], [(0, 1), (0, 0)]), ([(0, 1), (0, 0)], [(1, 0)]), ([(0, 1), (1, 1)], [(1, 1), (0, 1)])]
    if not q:
        sigs += [([(1, 1), (0, 0)], [(1, 0), (1, 1)]), ([(2, 0)], [(0, 0), (1, 0)])]
    opts = [dict(stride=1, padding=None, ldil=None, rdil=1, flags=True), dict(stride=1, padding="SAME", ldil=None, rdil=2, flags=[True, False, True]),
            dict(stride=1, padding="explicit", ldil=2, rdil=1, flags=False), dict(stride=2, padding="SAME", ldil=None, rdil=1, flags=False)] + \
        ([] if q else [dict(stride=2, padding="VALID", ldil=None, rdil=1, flags=True)])
    for D in ([2] if q else [2, 3]):
        for (si, so) in sigs:
            for oi, o in enumerate(opts):
                if q and oi > 0 and (si, so) != sigs[0]:
                    continue
                out.append(("gvc.props.c11", "ob_defining_sum", dict(D=D, sin=si, sout=so, opt=o)))
        # layers that have been through a pytree round trip (jit, an optimiser step, load), equal channel counts, targets listed in
        # non-sorted order, through the public entry point
        for (si, so) in [([(0, 0), (1, 0)], [(1, 0), (0, 0)]), ([(1, 0)], [(1, 0), (0, 0)])] + ([] if q else [([(0, 0), (1, 0)], [(0, 0), (1, 0), (0, 1)])]):
            for eqc in [True, False]:
                out.append(("gvc.props.c11", "ob_defining_sum", dict(D=D, sin=si, sout=so, opt=opts[0], history="pytree", eqc=eqc, entry="__call__")))
        out.append(("gvc.props.c11", "ob_defining_sum", dict(D=D, sin=sigs[0][0], sout=sigs[0][1], opt=opts[0], history="fresh", eqc=True, entry="__call__")))
        for ub in ["auto", "mean", "scalar", True, False]:
            for (si, so) in [([(0, 0), (1, 0)], [(1, 0), (0, 1), (0, 0)]), ([(1, 0)], [(0, 1), (1, 1)]), ([(0, 0)], [(0, 1), (0, 0), (1, 0)])]:
                out.append(("gvc.props.c11", "ob_call", dict(D=D, sin=si, sout=so, use_bias=ub)))
        out.append(("gvc.props.c11", "ob_init", dict(D=D)))
    # the defining sum is stated through the convolution's definition (C04); the layer obligations above carry the pre-condition
    # extent >= reach of the dilated filter on toroidal axes.  Narrower toroidal images (several wrap periods) are covered by
    # C04's obligations for concrete small extents, re-run here because the layer's boundary clause relies on them
    from .common import dep_jobs
    out += dep_jobs("gvc.props.c04", lambda fn, kw: fn == "ob_convolve" and kw.get("tag") == "narrow-torus", tier)
    return out


def _bank(G, D, W, types, M=3):
    """an arbitrary filter bank: per type an opaque array (n_filters, M.., tensor) with a symbolic number of filters"""
    blocks = {}
    nf = {}
    for (k, p) in types:
        n = Atom(sint(f"nf{k}{p}", W.pre), f"nf{k}{p}")
        nf[(k, p)] = n
        blocks[(k, p)] = arr.source(f"FB{k}{p}", [n] + [Atom(M) for _ in range(D)] + [Atom(D) for _ in range(k)])
    return G.MultiImage(blocks, D, True), blocks, nf


def _sig(G, keys, W, tag, equal=False):
    if equal:        # one channel count shared by all types (the configuration the layer's single-convolution path is meant for)
        c = Atom(sint(f"{tag}", W.pre), f"{tag}")
        ch = {k: c for k in keys}
    else:
        ch = {k: Atom(sint(f"{tag}{k[0]}{k[1]}", W.pre), f"{tag}{k[0]}{k[1]}") for k in keys}
    return G.Signature(tuple((k, ch[k].ext) for k in keys)), ch


def _fmt(v):
    return "[" + " ".join(f"{a}{b}" for a, b in v) + "]"


def ob_defining_sum(D, sin, sout, opt, history="fresh", eqc=False, entry="individual_convolve"):
    """history='pytree': the layer has been flattened and rebuilt as a pytree before the call (what jit / an optimiser step / load
    do to every layer: dict-valued fields come back in sorted key order, static fields as they were); entry='__call__': the
    public entry point with use_bias=False, whichever internal path it takes"""
    G, Lm = geom(), L()
    arr.ENUM_SMALL[0] = 3
    W = World(D)
    sin, sout = [tuple(k) for k in sin], [tuple(k) for k in sout]
    ftypes = sorted(({(a[0] + b[0], (a[1] + b[1]) % 2) for a in sin for b in sout} | {(a[0] + b[0], 1 - (a[1] + b[1]) % 2) for a in sin for b in sout})
                    - {(0, 1)})   # both parities of every reachable order, but no pseudoscalar filters (as for M=3)
    bank, fblocks, nf = _bank(G, D, W, ftypes)
    isig, ich = _sig(G, sin, W, "ci", eqc)
    osig, och = _sig(G, sout, W, "co", eqc)
    rd = opt["rdil"]
    for d in range(D):
        W.pre.append(zi(W.spatial[d].ext) >= rd * 2 + 1)
    flags = opt["flags"]
    flags = tuple(flags[:D]) if isinstance(flags, list) else (flags,) * D
    pd = opt["padding"]
    if pd == "explicit":
        p_ = sint("pad", W.pre, 0)
        pd = ((p_, p_),) * D
    ld = None if opt["ldil"] is None else (opt["ldil"],) * D
    X = {k: arr.source(f"X{k[0]}{k[1]}", [ich[k]] + W.spatial + [Atom(D) for _ in range(k[0])]) for k in sin}
    structure = dict(D=D, input=sin, target=sout, **{k: str(v) for k, v in opt.items()})

    def run():
        layer = Lm.ConvContract(isig, osig, bank, False, opt["stride"], pd, ld, rd, key=("key", 0))
        if history == "pytree":
            leaves, rebuild = lib.tree_flatten_obj(layer)
            layer = rebuild(leaves)
        x = G.MultiImage(dict(X), D, flags)
        if entry == "__call__":
            return layer, layer(x)
        return layer, layer.individual_convolve(x, layer.weights)

    def post(res):
        layer, out = res
        spec, order = {}, []
        for s in (sin if entry != "__call__" else []):      # emission order of individual_convolve: first reached
            for t in sout:
                fk = (s[0] + t[0], (s[1] + t[1]) % 2)
                if fk in fblocks and t not in order:
                    order.append(t)
        if entry == "__call__":             # the public entry point: reachable target types in target order
            order = [t for t in sout if any((s[0] + t[0], (s[1] + t[1]) % 2) in fblocks for s in sin)]
        for t in sout:
            total = None
            for s in sin:
                fk = (s[0] + t[0], (s[1] + t[1]) % 2)
                if fk not in fblocks:
                    continue
                Wst = layer.weights[s][t]
                FBk = fblocks[fk]
                # filter block of the pair: sum_f W[o,c,f] * F[f,...]
                fb = arr.einsum("ocf,f...->oc...", Wst, FBk)
                xs = X[s][None]
                full = conv_sym(xs, fb, D, flags, (opt["stride"],) * D, pd, (1,) * D if ld is None else ld, (rd,) * D)
                ks = s[0]
                dims = full.dims[1:2 + D] + full.dims[2 + D + 2 * ks:]

                def elem(idx, full=full, ks=ks):
                    tot = 0
                    for u in itertools.product(range(D), repeat=ks):
                        tot = arr.t_bin("add", tot, full.elem([0] + list(idx[:1 + D]) + list(u) + list(u) + list(idx[1 + D:])))
                    return tot
                part = arr.SArray(dims, elem)
                total = part if total is None else total + part
            if total is not None:
                spec[t] = total
        return cmp_blocks(out, spec, D, flags, order, "individual_convolve")

    name = f"C11/ConvContract.{entry}/D={D},in={_fmt(sin)},out={_fmt(sout)},opt={opt['padding']}/{opt['rdil']}/{opt['ldil']}/{opt['stride']}"
    if history != "fresh" or eqc:
        name += f",history={history},equal_channels={eqc}"
        structure.update(history=history, equal_channels=eqc, entry=entry)
    o = guard(name + "/ensures:defining-sum", "ensures", lambda: all_paths(W.pre, run, post), structure)
    o["replay"] = dict(scenario="layer", model=o.get("model"), D=D, sin=sin, sout=sout, opt=opt, use_bias=False, history=history, equal_channels=eqc)
    return [o, cover(name + "/cover:pre", W.pre, structure)]


def ob_call(D, sin, sout, use_bias):
    """__call__ against the callee contract of individual_convolve (opaque Z blocks for the reachable types)"""
    G, Lm = geom(), L()
    W = World(D)
    sin, sout = [tuple(k) for k in sin], [tuple(k) for k in sout]
    ftypes = sorted({(a[0] + b[0], (a[1] + b[1]) % 2) for a in sin for b in sout} - {(0, 1)})
    bank, fblocks, nf = _bank(G, D, W, ftypes)
    isig, ich = _sig(G, sin, W, "ci")
    osig, och = _sig(G, sout, W, "co")
    reach = [t for t in sout if any((s[0] + t[0], (s[1] + t[1]) % 2) in fblocks for s in sin)]
    emit = []
    for s in sin:
        for t in sout:
            if (s[0] + t[0], (s[1] + t[1]) % 2) in fblocks and t not in emit:
                emit.append(t)
    Z = {t: arr.source(f"Z{t[0]}{t[1]}", [och[t]] + W.spatial + [Atom(D) for _ in range(t[0])]) for t in reach}
    X = {k: arr.source(f"X{k[0]}{k[1]}", [ich[k]] + W.spatial + [Atom(D) for _ in range(k[0])]) for k in sin}
    structure = dict(D=D, input=sin, target=sout, use_bias=str(use_bias), reachable=reach)
    calls = []

    def stub(self, x, weights):
        calls.append((x, weights))
        out = x.empty()
        for t in emit:                       # callee contract: reachable types, first-reached order
            out.append(t[0], t[1], Z[t])
        return out

    def run():
        layer = Lm.ConvContract(isig, osig, bank, use_bias, 1, None, None, 1, key=("key", 0))
        orig = Lm.ConvContract.individual_convolve
        Lm.ConvContract.individual_convolve = stub
        try:
            return layer, layer(G.MultiImage(dict(X), D, True))
        finally:
            Lm.ConvContract.individual_convolve = orig

    mode = "auto" if use_bias is True else use_bias

    def post(res):
        layer, out = res
        spec = {}
        for t in reach:
            z = Z[t]
            if mode in ("auto", "scalar") and t == (0, 0):
                b = layer.bias.get(t)
                if b is None:
                    return "refuted", f"no bias parameter for {t} in mode {mode}", None
                spec[t] = z + b
            elif (mode == "auto" and t != (0, 0)) or mode == "mean":
                b = layer.bias.get(t)
                if b is None:
                    return "refuted", f"no bias parameter for {t} in mode {mode}", None
                spec[t] = z + arr.amean(z, axis=tuple(range(1, 1 + D)), keepdims=True) * b
            else:
                spec[t] = z
        return cmp_blocks(out, spec, D, True, reach, "layer output")

    name = f"C11/ConvContract.__call__/D={D},in={_fmt(sin)},out={_fmt(sout)},use_bias={use_bias}"
    o = guard(name + "/ensures:bias-rule+exactly-the-reachable-types-in-target-order", "ensures", lambda: all_paths(W.pre, run, post), structure)
    o["replay"] = dict(scenario="layer", model=o.get("model"), D=D, sin=sin, sout=sout, opt=dict(stride=1, padding=None, ldil=None, rdil=1, flags=True), use_bias=use_bias)
    obs = [o]
    if mode in ("auto", "scalar") and (0, 1) in reach:
        # canary: a per-channel additive constant on the pseudoscalar block must be refuted
        def post_bad(res):
            layer, out = res
            b = layer.bias.get((0, 1))
            if b is None:
                return "refuted", "no bias parameter for (0,1): additive constant impossible", None
            return arr.compare(out[(0, 1)], Z[(0, 1)] + b, "additive bias on a pseudoscalar (wrong)")
        obs.append(guard(name + "/canary:additive-bias-on-pseudoscalar", "canary", lambda: all_paths(W.pre, run, post_bad), structure))
    return obs


def ob_init(D):
    """weights exactly for the reachable (input,target) pairs, shapes (out_c, in_c, n_filters); bias shapes; flags"""
    G, Lm = geom(), L()
    obs = []
    for (sin, sout) in [([(0, 0), (1, 0)], [(1, 0), (0, 1), (0, 0)]), ([(0, 0)], [(0, 1)])]:
        for ub in ["auto", "mean", "scalar", True, False]:
            W = World(D)
            ftypes = sorted({(a[0] + b[0], (a[1] + b[1]) % 2) for a in sin for b in sout} - {(0, 1)})
            bank, fblocks, nf = _bank(G, D, W, ftypes)
            isig, ich = _sig(G, sin, W, "ci")
            osig, och = _sig(G, sout, W, "co")

            def post(layer, sin=sin, sout=sout, fblocks=fblocks, nf=nf, ich=ich, och=och, ub=ub):
                missing = False
                for s in sin:
                    if s not in layer.weights:
                        return "refuted", f"no weight dict for input type {s}", None
                    for t in sout:
                        fk = (s[0] + t[0], (s[1] + t[1]) % 2)
                        if fk not in fblocks:
                            missing = True
                            if t in layer.weights[s]:
                                return "refuted", f"weights for the unreachable pair {s}->{t}", None
                            continue
                        w = layer.weights[s].get(t)
                        if w is None:
                            return "refuted", f"no weights for the reachable pair {s}->{t}", None
                        shp = tuple(w.shape)
                        if len(shp) != 3 or not (arr.ext_eq(shp[0], och[t].ext) and arr.ext_eq(shp[1], ich[s].ext) and arr.ext_eq(shp[2], nf[fk].ext)):
                            return "refuted", f"weight shape {shp} for {s}->{t}", None
                if bool(layer.missing_filter) != missing:
                    return "refuted", f"missing_filter={layer.missing_filter}, expected {missing}", None
                exp_mode = "auto" if ub is True else ub
                if layer.use_bias != exp_mode:
                    return "refuted", f"use_bias stored as {layer.use_bias!r}, expected the normalised {exp_mode!r}", None
                if exp_mode:
                    for t in sout:
                        if any((s[0] + t[0], (s[1] + t[1]) % 2) in fblocks for s in sin):
                            b = layer.bias.get(t)
                            if b is None:
                                return "refuted", f"no bias for reachable type {t}", None
                            shp = tuple(b.shape)
                            if len(shp) != 1 + D + t[0] or not arr.ext_eq(shp[0], och[t].ext) or any(sym.concrete_int(v) != 1 for v in shp[1:]):
                                return "refuted", f"bias shape {shp} for {t}", None
                elif layer.bias:
                    return "refuted", "bias parameters created although use_bias is False", None
                return "proved", "weights / bias / flags", None

            obs.append(guard(f"C11/ConvContract.__init__/D={D},in={_fmt(sin)},out={_fmt(sout)},use_bias={ub}/ensures:parameters", "ensures",
                             lambda W=W, isig=isig, osig=osig, bank=bank, ub=ub, post=post: all_paths(W.pre, lambda: Lm.ConvContract(isig, osig, bank, ub, key=("key", 0)), post),
                             dict(D=D, input=sin, target=sout, use_bias=str(ub))))
    return obs
