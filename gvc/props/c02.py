"""C02 -- the group action on images is a genuine, type-correct group action."""
import itertools
import numpy as np
import z3
from .. import sym, arr, lib
from ..sym import SInt, zi, mk
from ..arr import Atom, Prod, Sum, Br, Flat
from ..core import Ob, guard
from ..loader import load
from ..specs.act import act_sym, perm_of, det_of, rotated_flags
from .common import World, cmp_blocks, all_paths, cover, geom, sint

LEVEL = "proof"
MANIFEST = {
    "category": "proof",
    "technique": "contract-based deductive verification: the real times_group_element / get_rotated_keys / hash and the GeometricImage / MultiImage entry points executed with symbolic spatial extents and opaque pixels for every element of the finite group B_d; post-condition = the statement's formula (act_spec); group-action laws as z3 lemmas over act_spec for every pair (g,h)",
    "text": "For every g in B_d (2, 8, 48 elements for d=1,2,3; exhaustive), every enumerated type (k,p) and ALL spatial extents at once (symbolic, so non-square, non-cubic and extent-1 shapes are inside one VC) the real array-level action equals det(g)^p g^{(x)k} A(g^-1 x) about the image centre, with result shape |g|s; the single-image and multi-image entry points return that same action per leading index with D, k, parity kept and extents AND per-axis is_torus flags permuted with their axes. Identity, (gh).A = g.(h.A) for all pairs, linearity, pixel bijection and per-pixel norm preservation are lemmas over the spec. The generators make_all_operators / make_C2_group are evaluated and compared with an independent enumeration of the signed permutation matrices. Tests use cubes and a few elements.",
    "note": "reals not floats; np.rint (round-half-even) / remainder / abs encoded with context-aware simplification; k <= 2 quick, k <= 3 thorough (enumerated); tensor components enumerated concretely; the pixel enumeration of get_rotated_keys is executed through a generic-representative product iterator; 0-2 leading axes for the multi-image entry point",
}
FUNCTIONS = ["functional_geometric_image.times_group_element", "functional_geometric_image.get_rotated_keys", "functional_geometric_image.hash",
             "functional_geometric_image.tensor_times_gg", "functional_geometric_image.parse_shape (inlined)", "GeometricImage.times_group_element",
             "GeometricImage.get_rotated_keys", "MultiImage.times_group_element", "common.make_all_operators", "common.make_C2_group",
             "common.permutation_matrix_from_sequence"]
TRUSTED = ["CPython for the concrete part (group matrices are concrete numpy arrays)", "structured-array engine gvc/arr.py",
           "z3 (linear integer/real arithmetic after context-aware simplification of abs/rint/remainder)",
           "generic-representative iteration for itertools.product over symbolic ranges (gvc.lib.GenericProduct)", "vmap contract",
           "spec gvc/specs/act.py transcribes the statement's formula"]
ASSUMPTIONS = ["pixel values are reals", "np.rint rounds half to even; jnp.remainder has the sign of the divisor; einsum as documented (contract models)",
               "g ranges over the finite group B_d, enumerated exhaustively", "k <= 3, D <= 3"]
EXPLANATION = "Exhaustive in g (finite group), unbounded in spatial extents, leading-axis sizes and pixel values; enumerated in (k,p) and D."
GRID = {"quick": "d=1: 2, d=2: 8, d=3: 48 elements; (k,p) with k<=1 (d=3), k<=2 (d=2); entry points with 0-2 leading axes for d=2 and a 3-cycle/reflection subset for d=3; composition pairs: all 64 (d=2), 48x6 generators (d=3)",
        "thorough": "all g, k<=3 (d=2), k<=2 (d=3); all 2304 pairs for d=3"}


def F():
    return load()["ginjax.geometric.functional_geometric_image"]


def ops(D):
    return geom().make_all_operators(D)


def types_for(D, tier):
    if D == 1:
        return [(0, 0), (0, 1)]
    kmax = (2 if tier == "quick" else 3) if D == 2 else (1 if tier == "quick" else 2)
    return [(k, p) for k in range(kmax + 1) for p in (0, 1)]


def jobs(tier):
    out = [("gvc.props.c02", "ob_generators", {})]
    q = tier == "quick"
    for D in [1, 2, 3]:
        n = len(ops(D))
        chunk = 4 if D == 3 else 8
        for (k, p) in types_for(D, tier):
            for lo in range(0, n, chunk):
                out.append(("gvc.props.c02", "ob_array", dict(D=D, k=k, p=p, gs=list(range(lo, min(n, lo + chunk))))))
        # entry points
        gsel = list(range(n)) if D < 3 else ([0, 5, 9, 17, 24, 26, 31, 33, 40, 47] if q else list(range(n)))
        for (k, p) in ([(0, 0), (1, 1)] if D > 1 else [(0, 1)]):
            for lo in range(0, len(gsel), 6):
                out.append(("gvc.props.c02", "ob_entry", dict(D=D, k=k, p=p, gs=gsel[lo:lo + 6], tier=tier)))
        # group-action laws over the spec
        pairs = [(a, b) for a in range(n) for b in range(n)]
        if D == 3 and q:
            gens = [1, 8, 16, 24, 32, 47]
            pairs = [(a, b) for a in range(n) for b in gens]
        for lo in range(0, len(pairs), 96):
            out.append(("gvc.props.c02", "ob_laws", dict(D=D, pairs=pairs[lo:lo + 96], tier=tier)))
    return out


def _src(D, k, lead=(), name="A"):
    W = World(D)
    A = arr.source(name, list(lead) + W.spatial + [Atom(D) for _ in range(k)])
    return W, A


def ob_generators():
    """make_all_operators(d) / make_C2_group(d) are exactly the signed permutation / diagonal sign matrices"""
    G = geom()
    obs = []
    for D in [1, 2, 3]:
        def body(D=D):
            got = [np.asarray(g) for g in G.make_all_operators(D)]
            exp = []
            for perm in itertools.permutations(range(D)):
                for signs in itertools.product([1, -1], repeat=D):
                    m = np.zeros((D, D), dtype=int)
                    for i, j in enumerate(perm):
                        m[i, j] = signs[i]
                    exp.append(m)
            keyf = lambda m: tuple(int(v) for v in np.asarray(m).reshape(-1))
            if sorted(map(keyf, got)) != sorted(map(keyf, exp)) or len(got) != len(exp):
                return "refuted", f"make_all_operators({D}) is not the set of {len(exp)} signed permutation matrices", None
            c2 = [np.asarray(g) for g in G.make_C2_group(D)]
            expc = [np.diag(s) for s in itertools.product([1, -1], repeat=D)]
            if sorted(map(keyf, c2)) != sorted(map(keyf, expc)):
                return "refuted", f"make_C2_group({D}) is not the group of diagonal sign matrices", None
            # closure, inverses = transposes, identity first
            keys = set(map(keyf, got))
            for a in got:
                if keyf(a.T) not in keys or not np.array_equal(a @ a.T, np.eye(D, dtype=int)):
                    return "refuted", "an operator's transpose is not its inverse in the group", None
                for b in got:
                    if keyf(a @ b) not in keys:
                        return "refuted", "group not closed under product", None
            return "proved", f"{len(got)} operators, closed, g^T = g^-1", None
        obs.append(guard(f"C02/make_all_operators+make_C2_group/D={D}/ensures:exact-group", "ensures", body, {"D": D}))
    return obs


def ob_array(D, k, p, gs):
    """array-level entry point == act_spec, for all spatial extents"""
    Fm = F()
    G = ops(D)
    obs = []
    arr.ENUM_SMALL[0] = 3
    for gi in gs:
        g = np.asarray(G[gi])
        W, A = _src(D, k)
        structure = dict(D=D, k=k, parity=p, g=g.tolist())
        name = f"C02/times_group_element/D={D},k={k},p={p},g#{gi}"

        def body(g=g, W=W, A=A):
            spec = act_sym(A, D, k, p, g)
            return all_paths(W.pre, lambda: Fm.times_group_element(D, A, p, g, None), lambda r: arr.compare(arr.lift(r), spec, "g.A"))

        o = guard(name + "/ensures:formula", "ensures", body, structure)
        o["replay"] = dict(scenario="array", D=D, k=k, p=p, g=g.tolist(), model=o.get("model"))
        obs.append(o)
        if k == 1 and gi in (1, 3, 5) and D >= 2:
            # tensor_times_gg on a single tensor, and a canary (forward instead of inverse pixel map)
            def body_t(g=g):
                Wt = World(D)
                T = arr.source("T", [Atom(D)])
                spec = arr.SArray([Atom(D)], lambda idx: arr.t_bin("mul", (det_of(g) ** p if p else 1) * perm_of(g)[1][int(idx[0])],
                                                                 T.elem([perm_of(g)[0][int(idx[0])]])))
                return all_paths([], lambda: Fm.tensor_times_gg(T, p, g, None), lambda r: arr.compare(arr.lift(r), spec, "g.T"))
            obs.append(guard(f"C02/tensor_times_gg/D={D},p={p},g#{gi}/ensures:formula", "ensures", body_t, structure))
    # canary once per job: the action with g instead of g^-1 on the pixels must be refuted for a non-involution
    gi = next((i for i in gs if not np.array_equal(np.asarray(G[i]) @ np.asarray(G[i]), np.eye(D, dtype=int))), None)
    if gi is not None:
        g = np.asarray(G[gi])
        W, A = _src(D, k)

        def canary():
            spec = act_sym(A, D, k, p, g.T)      # wrong: inverse element
            if not all(arr.ext_eq(a, b) for a, b in zip(spec.shape, act_sym(A, D, k, p, g).shape)):
                return "refuted", "shape already differs", None
            return all_paths(W.pre + [zi(W.spatial[0].ext) == zi(W.spatial[1].ext)] if D == 2 else W.pre + [zi(a.ext) == zi(W.spatial[0].ext) for a in W.spatial],
                             lambda: Fm.times_group_element(D, A, p, g, None), lambda r: arr.compare(arr.lift(r), spec, "wrong"))
        obs.append(guard(f"C02/times_group_element/D={D},k={k},p={p},g#{gi}/canary:inverse-element", "canary", canary, dict(D=D, k=k, parity=p)))
    obs.append(cover(f"C02/times_group_element/D={D},k={k},p={p}/cover:pre#{gs[0]}", _src(D, k)[0].pre, dict(D=D, k=k, parity=p)))
    return obs


def ob_entry(D, k, p, gs, tier):
    """GeometricImage / MultiImage entry points: same action per leading index, metadata transported"""
    Gm = geom()
    G = ops(D)
    obs = []
    arr.ENUM_SMALL[0] = 3
    flags = tuple(i % 2 == 0 for i in range(D)) if D > 1 else (True,)
    if D == 3:
        flags = (True, False, False)
    for gi in gs:
        g = np.asarray(G[gi])
        structure = dict(D=D, k=k, parity=p, g=g.tolist(), is_torus=list(flags))
        # single image
        W, A = _src(D, k)

        def body_gi(g=g, W=W, A=A):
            spec = act_sym(A, D, k, p, g)

            def post(r):
                if (r.D, r.k, r.parity) != (D, k, p):
                    return "refuted", f"(D,k,parity) = {(r.D, r.k, r.parity)} != {(D, k, p)}", None
                if tuple(r.is_torus) != rotated_flags(flags, g):
                    return "refuted", f"is_torus {tuple(r.is_torus)} != flags carried with their axes {rotated_flags(flags, g)}", None
                sd = tuple(r.spatial_dims)
                if len(sd) != D or not all(arr.ext_eq(a, b) for a, b in zip(sd, spec.shape[:D])):
                    return "refuted", f"spatial_dims {sd} != rotated extents", None
                return arr.compare(r.data, spec, "GeometricImage action")
            return all_paths(W.pre, lambda: Gm.GeometricImage(A, p, D, flags).times_group_element(g), post)

        o = guard(f"C02/GeometricImage.times_group_element/D={D},k={k},p={p},g#{gi}/ensures:action+metadata", "ensures", body_gi, structure)
        o["replay"] = dict(scenario="image", D=D, k=k, p=p, g=g.tolist(), flags=list(flags), model=o.get("model"))
        obs.append(o)
        # multi image, 0..2 leading axes, a second type alongside
        for nlead in ([1, 2] if tier == "quick" else [0, 1, 2]):
            other = (0, 1) if (k, p) != (0, 1) else (0, 0)

            def body_mi(g=g, nlead=nlead, other=other):
                Wm = World(D)
                lead = Wm.lead(nlead, "L")
                blocks = {(k, p): arr.source("X", lead + Wm.spatial + [Atom(D) for _ in range(k)]),
                          other: arr.source("Y", lead + Wm.spatial + [Atom(D) for _ in range(other[0])])}
                if nlead == 0 and len(blocks) > 1:
                    pass
                spec = {key: act_sym(b, D, key[0], key[1], g, lead=nlead) for key, b in blocks.items()}

                def post(r):
                    return cmp_blocks(r, spec, D, rotated_flags(flags, g), list(blocks.keys()), "MultiImage action")
                return all_paths(Wm.pre, lambda: Gm.MultiImage(dict(blocks), D, flags).times_group_element(g), post)

            o = guard(f"C02/MultiImage.times_group_element/D={D},k={k},p={p},lead={nlead},g#{gi}/ensures:per-image-action+metadata", "ensures", body_mi,
                      dict(structure, nlead=nlead))
            o["replay"] = dict(scenario="multi", D=D, k=k, p=p, g=g.tolist(), flags=list(flags), nlead=nlead, model=o.get("model"))
            obs.append(o)
    return obs


def ob_laws(D, pairs, tier):
    """lemmas over act_spec: identity, composition for every pair, linearity, bijection, norm preservation"""
    G = [np.asarray(g) for g in ops(D)]
    obs = []
    arr.ENUM_SMALL[0] = 3
    types = [(0, 1), (1, 0)] if D > 1 else [(0, 1)]
    if tier != "quick" and D > 1:
        types.append((2, 1))
    first = pairs[0]
    for (a, b) in pairs:
        g, h = G[a], G[b]
        for (k, p) in types:
            def body(g=g, h=h, k=k, p=p):
                W, A = _src(D, k)
                sym.reset(pre=W.pre)
                lhs = act_sym(act_sym(A, D, k, p, h), D, k, p, g)
                rhs = act_sym(A, D, k, p, g @ h)
                return arr.compare(lhs, rhs, "g.(h.A) vs (gh).A")
            obs.append(guard(f"C02/lemma:composition/D={D},k={k},p={p},g#{a},h#{b}", "lemma", body, dict(D=D, k=k, parity=p)))
    if first == (0, 0):
        ident = next(i for i, g in enumerate(G) if np.array_equal(g, np.eye(D, dtype=int)))
        for (k, p) in types:
            def body_id(k=k, p=p):
                W, A = _src(D, k)
                sym.reset(pre=W.pre)
                return arr.compare(act_sym(A, D, k, p, G[ident]), A, "e.A vs A")
            obs.append(guard(f"C02/lemma:identity/D={D},k={k},p={p}", "lemma", body_id, dict(D=D, k=k, parity=p)))
        for gi, g in enumerate(G):
            k, p = types[-1]

            def body_lin(g=g, k=k, p=p):
                W, A = _src(D, k)
                B = arr.source("B", list(A.dims))
                sym.reset(pre=W.pre)
                al = z3.Real("alpha")
                lhs = act_sym(A * sym.SReal(al) + B, D, k, p, g)
                rhs = act_sym(A, D, k, p, g) * sym.SReal(al) + act_sym(B, D, k, p, g)
                return arr.compare(lhs, rhs, "linearity")
            obs.append(guard(f"C02/lemma:linearity/D={D},g#{gi}", "lemma", body_lin, dict(D=D)))

            def body_bij(g=g):
                # the pixel map x -> g^T(x-c')+c is injective and maps the result box into the source box
                W = World(D)
                sym.reset(pre=W.pre)
                col, sgn = perm_of(g)
                s = [zi(a.ext) for a in W.spatial]
                x = [z3.Int(f"x{i}") for i in range(D)]
                y = [z3.Int(f"y{i}") for i in range(D)]
                rng = lambda v: z3.And(*[z3.And(v[i] >= 0, v[i] < s[col[i]]) for i in range(D)])
                mp = lambda v: [v[i] if sgn[i] == 1 else s[col[i]] - 1 - v[i] for i in range(D)]
                inbox = z3.And(*[z3.And(mp(x)[i] >= 0, mp(x)[i] < s[col[i]]) for i in range(D)])
                inj = z3.Implies(z3.And(*[mp(x)[i] == mp(y)[i] for i in range(D)]), z3.And(*[x[i] == y[i] for i in range(D)]))
                st, m = sym.refute_or_prove(z3.Implies(z3.And(rng(x), rng(y)), z3.And(inbox, inj)))
                return st, "pixel map is an injection of the result box into the (equal-sized) source box", m
            obs.append(guard(f"C02/lemma:pixel-bijection/D={D},g#{gi}", "lemma", body_bij, dict(D=D)))

            def body_norm(g=g):
                # per-pixel Frobenius norm: sum_t (g.A)(x)[t]^2 == sum_u A(src)[u]^2  (k=1: a signed permutation of components)
                W, A = _src(D, 1)
                sym.reset(pre=W.pre)
                R = act_sym(A, D, 1, 1, g)
                n2 = arr.asum(R * R, axis=-1)
                col, sgn = perm_of(g)
                src = act_sym(arr.asum(A * A, axis=-1), D, 0, 0, g)
                return arr.compare(n2, src, "squared pixel norm")
            if D > 1:
                obs.append(guard(f"C02/lemma:pixel-norm-preserved/D={D},g#{gi}", "lemma", body_norm, dict(D=D)))
    return obs
