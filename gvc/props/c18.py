"""C18 -- losses compute their definition, pair blocks by type and are symmetry-invariant."""
import itertools
import z3
from .. import sym, arr, lib, bigsum
from ..sym import SInt, SReal, zi, zr, mk
from ..arr import Atom, Prod, Sum, Br, Flat
from ..bigsum import SumExpr
from ..core import Ob, guard
from ..loader import load
from .common import World, cmp_blocks, all_paths, cover, geom, sint

LEVEL = "proof"
MANIFEST = {
    "category": "proof",
    "technique": "contract-based deductive verification: the real loss functions executed on symbolic arrays; sums over symbolic ranges kept as BigSum terms and compared with the statement's formula by linearity + congruence (Fubini for reordering), z3 for the summands; key orders of both arguments enumerated",
    "text": "smse_loss, timestep_smse_loss and normalized_smse_loss are executed with symbolic batch, channel, step and spatial extents and opaque real values, for every pair of insertion orders of prediction and target (incl. the sorted order a jit round trip produces). The result is proved equal to the statement's formula indexed by type (so pairing by type is part of the post-condition), for reduce modes mean / None; steps sum to the total; zero on equal arguments; every summand is a non-negative square. Tests never call the losses.",
    "note": "reals not floats; sums over symbolic ranges handled only by linearity/congruence/Fubini (Lean statements in lean/Rules.lean; correspondence by inspection); reduce='max': jnp.argmax over the symbolic batch axis is an uninterpreted index (its contract assumed); proved: the vector it is applied to is the per-entry totals and the result is the per-step loss of that one entry; sqrt is an uninterpreted function with its defining axiom instantiated; invariance under a common group element is proved per group element in C02-dependent obligations (re-indexing rule) and bounded natively",
}
FUNCTIONS = ["ginjax.ml.losses.smse_loss", "ginjax.ml.losses.timestep_smse_loss", "ginjax.ml.losses.normalized_smse_loss",
             "ginjax.geometric.functional_geometric_image.norm", "MultiImage.get_n_leading", "MultiImage.get_spatial_dims", "MultiImage.get_L"]
TRUSTED = ["CPython for the concrete part", "structured-array engine + BigSum rules (linearity, congruence, Fubini) in gvc/bigsum.py", "z3 (non-linear real arithmetic for the summands)"]
ASSUMPTIONS = ["losses over the reals (no rounding)", "key sets enumerated (<= 3 types)", "eps > 0", "jnp.sum / jnp.mean / linalg.norm as documented (contract models)"]
EXPLANATION = "Unbounded in batch, channels, steps, extents and values; enumerated in key sets, key orders, D, reduce mode."
GRID = {"quick": "D=2; key sets [(0,0),(1,0)], [(0,1),(1,1),(2,0)]; all order pairs; reduce mean/None",
        "thorough": "D in {2,3}; 4 key sets; all order pairs; reduce mean/None"}


def losses():
    return load()["ginjax.ml.losses"]


def jobs(tier):
    out = []
    q = tier == "quick"
    sets = [[(0, 0), (0, 1)], [(0, 0), (1, 0)], [(0, 1), (1, 1), (2, 0)]] if q else [[(0, 0), (0, 1)], [(0, 0), (1, 0)], [(0, 1), (1, 1), (2, 0)], [(1, 0), (1, 1)], [(1, 0)]]
    for D in ([2] if q else [2, 3]):
        for ks in sets:
            orders = list(itertools.permutations(ks))
            pairs = [(orders[0], o) for o in orders] + [(orders[-1], orders[0])]
            for oa, ob_ in pairs:
                for fn in ["smse", "timestep", "normalized"]:
                    for reduce in (["mean", None] if fn != "normalized" else ["mean"]):
                        out.append(("gvc.props.c18", "ob_loss", dict(fn=fn, D=D, kx=list(oa), ky=list(ob_), reduce=reduce)))
            out.append(("gvc.props.c18", "ob_lemmas", dict(D=D, ks=list(ks))))
            out.append(("gvc.props.c18", "ob_timestep_max", dict(D=D, kx=list(orders[0]), ky=list(orders[-1]))))
    return out


def _nm(fn, **kw):
    def f(v):
        return "[" + " ".join(f"{a}{b}" for a, b in v) + "]" if isinstance(v, list) else str(v)
    return f"C18/{fn}/" + ",".join(f"{k}={f(v)}" for k, v in kw.items())


def _setup(D, ks, steps=False):
    W = World(D)
    Bt = Atom(sint("batch", W.pre), "batch")
    T = Atom(sint("steps", W.pre), "steps") if steps else None
    X, Y, C = {}, {}, {}
    same_k = len(ks) > 1 and len({k[0] for k in ks}) == 1
    for k in ks:
        c = Atom(sint(f"c{k[0]}{k[1]}", W.pre), f"c{k[0]}{k[1]}") if not same_k else W.chan((9, 9))
        C[k] = c
        cd = arr.mkprod([c, T]) if steps else c
        tail = W.spatial + [Atom(D) for _ in range(k[0])]
        X[k] = arr.source(f"x_{k[0]}{k[1]}", [Bt, cd] + tail)
        Y[k] = arr.source(f"y_{k[0]}{k[1]}", [Bt, cd] + tail)
    return W, Bt, T, X, Y, C


def _comps(D, k):
    return list(itertools.product(range(D), repeat=k))


def spec_smse(W, D, Bt, X, Y, b):
    """statement: per batch entry b, sum over types, channels, components, pixels of (x-y)^2, divided by #pixels"""
    N = 1
    for a in W.spatial:
        N = N * a.ext
    tot = 0
    for k in X:
        cd = X[k].dims[1]

        def body(vals, k=k):
            c, pix = vals[0], list(vals[1:])
            s = 0
            for u in _comps(D, k[0]):
                d = arr.t_bin("sub", X[k].elem([b, c] + pix + list(u)), Y[k].elem([b, c] + pix + list(u)))
                s = arr.t_bin("add", s, arr.t_bin("mul", d, d))
            return s
        tot = arr.t_bin("add", tot, arr.t_bin("div", bigsum.bigsum([cd] + W.spatial, body), arr.t_norm(N)))
    return tot


def spec_timestep(W, D, Bt, T, X, Y, C, b, t):
    N = 1
    for a in W.spatial:
        N = N * a.ext
    tot = 0
    for k in X:
        def body(vals, k=k):
            c, pix = vals[0], list(vals[1:])
            s = 0
            for u in _comps(D, k[0]):
                d = arr.t_bin("sub", X[k].elem([b, (c, t)] + pix + list(u)), Y[k].elem([b, (c, t)] + pix + list(u)))
                s = arr.t_bin("add", s, arr.t_bin("mul", d, d))
            return s
        tot = arr.t_bin("add", tot, arr.t_bin("div", bigsum.bigsum([C[k]] + W.spatial, body), arr.t_norm(N)))
    return tot


def spec_normalized(W, D, Bt, X, Y, b, eps):
    N = 1
    for a in W.spatial:
        N = N * a.ext
    tot = 0
    for k in X:
        def body(vals, k=k):
            c, pix = vals[0], list(vals[1:])
            n2 = 0
            for u in _comps(D, k[0]):
                yv = Y[k].elem([b, c] + pix + list(u))
                n2 = arr.t_bin("add", n2, arr.t_bin("mul", yv, yv))
            den = arr.t_bin("add", n2, arr.t_norm(eps))
            s = 0
            for u in _comps(D, k[0]):
                d = arr.t_bin("sub", X[k].elem([b, c] + pix + list(u)), Y[k].elem([b, c] + pix + list(u)))
                s = arr.t_bin("add", s, arr.t_bin("div", arr.t_bin("mul", d, d), den))
            return s
        tot = arr.t_bin("add", tot, arr.t_bin("div", bigsum.bigsum([X[k].dims[1]] + W.spatial, body), arr.t_norm(N)))
    return tot


def _mean_over_batch(Bt, f):
    return arr.t_bin("div", bigsum.bigsum([Bt], lambda v: f(v[0])), arr.t_norm(Bt.ext))


def ob_loss(fn, D, kx, ky, reduce):
    G, Ls = geom(), losses()
    steps = fn == "timestep"
    ks = sorted(kx)
    W, Bt, T, X, Y, C = _setup(D, ks, steps)
    structure = dict(D=D, keys_pred=kx, keys_target=ky, reduce=reduce)
    eps = SReal(z3.Real("eps"))
    pre = W.pre + ([eps.e > 0] if fn == "normalized" else [])
    t_ = tuple(i % 2 == 0 for i in range(D))

    def run():
        x = G.MultiImage({k: X[k] for k in kx}, D, t_)
        y = G.MultiImage({k: Y[k] for k in ky}, D, t_)
        if fn == "smse":
            return Ls.smse_loss(x, y, reduce)
        if fn == "timestep":
            return Ls.timestep_smse_loss(x, y, T.ext, reduce)
        return Ls.normalized_smse_loss(x, y, eps)

    def post(r):
        r = arr.lift(r)
        if fn == "smse":
            if reduce == "mean":
                spec = arr.SArray([], lambda idx: _mean_over_batch(Bt, lambda b: spec_smse(W, D, Bt, X, Y, b)))
            else:
                spec = arr.SArray([Bt], lambda idx: spec_smse(W, D, Bt, X, Y, idx[0]))
        elif fn == "timestep":
            if reduce == "mean":
                spec = arr.SArray([T], lambda idx: _mean_over_batch(Bt, lambda b: spec_timestep(W, D, Bt, T, X, Y, C, b, idx[0])))
            else:
                spec = arr.SArray([Bt, T], lambda idx: spec_timestep(W, D, Bt, T, X, Y, C, idx[0], idx[1]))
        else:
            spec = arr.SArray([], lambda idx: _mean_over_batch(Bt, lambda b: spec_normalized(W, D, Bt, X, Y, b, eps)))
        return arr.compare(r, spec, "loss")

    name = _nm({"smse": "smse_loss", "timestep": "timestep_smse_loss", "normalized": "normalized_smse_loss"}[fn], **structure)
    o = guard(name + "/ensures:definition+pairing-by-type", "ensures", lambda: all_paths(pre, run, post), structure)
    o["replay"] = dict(scenario="loss", fn=fn, model=o.get("model"), **structure)
    obs = [o]
    if kx == ky and reduce is None and fn == "smse":
        obs.append(cover(name + "/cover:pre", pre, structure))
        # canary: the mean over pixels forgotten (sum instead of mean) must be refuted
        def post_bad(r):
            r = arr.lift(r)
            N = 1
            for a in W.spatial:
                N = N * a.ext
            spec = arr.SArray([Bt], lambda idx: arr.t_bin("mul", spec_smse(W, D, Bt, X, Y, idx[0]), arr.t_norm(N)))
            return arr.compare(r, spec, "sum instead of mean over pixels (wrong)")
        obs.append(guard(name + "/canary:no-pixel-mean", "canary", lambda: all_paths(pre + [zi(W.spatial[0].ext) >= 2], run, post_bad), structure))
    if kx != ky and reduce is None and fn == "smse" and len(kx) == 2 and kx[0][0] == kx[1][0]:
        # canary: positional pairing (prediction block i with target block i) must be refuted
        def post_pos(r):
            r = arr.lift(r)
            Yp = {kx[i]: Y[ky[i]] for i in range(len(kx))}
            spec = arr.SArray([Bt], lambda idx: spec_smse(W, D, Bt, X, Yp, idx[0]))
            return arr.compare(r, spec, "positional pairing (wrong)")
        obs.append(guard(name + "/canary:positional-pairing", "canary", lambda: all_paths(pre, run, post_pos), structure))
    return obs


def ob_lemmas(D, ks):
    """lemmas over code + spec: zero on equal arguments, non-negativity, steps sum to the total"""
    G, Ls = geom(), losses()
    obs = []
    structure = dict(D=D, keys=ks)
    # (1) zero on equal arguments (real code, same blocks in both arguments, different key orders)
    W, Bt, T, X, Y, C = _setup(D, ks, True)
    t_ = tuple(i % 2 == 0 for i in range(D))
    eps = SReal(z3.Real("eps"))
    for fn in ["smse", "timestep", "normalized"]:
        def run(fn=fn):
            x = G.MultiImage({k: X[k] for k in ks}, D, t_)
            y = G.MultiImage({k: X[k] for k in reversed(ks)}, D, t_)
            if fn == "smse":
                return Ls.smse_loss(x, y, None)
            if fn == "timestep":
                return Ls.timestep_smse_loss(x, y, T.ext, None)
            return Ls.normalized_smse_loss(x, y, eps)

        def post(r):
            r = arr.lift(r)
            return arr.compare(r, arr.SArray(r.dims, lambda idx: 0), "loss of equal arguments")
        obs.append(guard(_nm(f"lemma:{fn}-zero-on-equal-arguments", **structure), "lemma",
                         lambda run=run, post=post: all_paths(W.pre + [eps.e > 0], run, post), structure))
    # (2) non-negativity of the spec formulas: every summand is a square over a positive denominator
    for fn in ["smse", "normalized"]:
        def body(fn=fn):
            sym.reset(pre=W.pre + [eps.e > 0])
            b = z3.Int("b")
            with sym.scope([b >= 0, b < zi(Bt.ext)]):
                e = spec_smse(W, D, Bt, X, Y, b) if fn == "smse" else spec_normalized(W, D, Bt, X, Y, b, eps)
                return bigsum.nonneg(e)
        obs.append(guard(_nm(f"lemma:{fn}-non-negative (sum of non-negative summands)", **structure), "lemma", body, structure))
    # (3) the per-step losses sum to the total (Fubini over (channel, step))
    def body3():
        sym.reset(pre=W.pre)
        b = z3.Int("b")
        with sym.scope([b >= 0, b < zi(Bt.ext)]):
            total = spec_smse(W, D, Bt, X, Y, b)
            per = bigsum.bigsum([T], lambda v: spec_timestep(W, D, Bt, T, X, Y, C, b, v[0]))
            return bigsum.sum_equal(per, total)
    obs.append(guard(_nm("lemma:timestep-losses-sum-to-the-total", **structure), "lemma", body3, structure))
    # (4) zero only if equal: a sum of non-negative summands vanishes only if every summand does (Finset.sum_eq_zero_iff_of_nonneg,
    #     rule, lean/Rules.lean) and a summand (x-y)^2/N with N>0 vanishes only if x == y (z3)
    def body4():
        sym.reset()
        x, y, N = z3.Reals("x y N")
        st, m = sym.refute_or_prove(z3.Implies(z3.And(N > 0, (x - y) * (x - y) / N == 0), x == y))
        return st, "", m
    obs.append(guard(_nm("lemma:summand-zero-only-if-equal", **structure), "lemma", body4, structure))
    return obs


def ob_timestep_max(D, kx, ky):
    """timestep_smse_loss(reduce='max'): the per-step losses of ONE batch entry r -- the entry jnp.argmax picks from the
    per-entry totals.  jnp.argmax over the symbolic batch axis is an uninterpreted index 0 <= r < batch (its contract -- an
    index attaining the maximum -- is assumed from JAX); what is proved about ginjax: (i) the array handed to argmax is the
    vector of per-entry totals (sum over steps of the statement's per-step loss), (ii) the result is, for every step t, the
    statement's per-step loss of that same entry r.  Hence the steps returned sum to the total of a worst entry."""
    G, Ls = geom(), losses()
    ks = sorted(kx)
    W, Bt, T, X, Y, C = _setup(D, ks, True)
    structure = dict(D=D, keys_pred=kx, keys_target=ky, reduce="max")
    t_ = tuple(i % 2 == 0 for i in range(D))
    name = _nm("timestep_smse_loss", **structure)
    jnp_ = Ls.__dict__["jnp"]

    def body():
        seen = []
        saved = jnp_.__dict__.get("argmax")

        def argmax_stub(a, axis=None, **kw):
            a = arr.lift(a)
            if a.ndim != 1 or axis not in (None, 0, -1):
                raise sym.OutOfReach("argmax is not taken over a vector of per-entry totals")
            r = z3.Int(sym.fresh_name("worst"))
            sym.CTX.path += [r >= 0, r < zi(a.shape[0])]
            seen.append((a, r))
            return SInt(r)
        verdicts = []
        jnp_.argmax = argmax_stub
        try:
            for out in sym.run_paths(lambda: Ls.timestep_smse_loss(G.MultiImage({k: X[k] for k in kx}, D, t_), G.MultiImage({k: Y[k] for k in ky}, D, t_), T.ext, "max"), W.pre):
                sym.CTX.path = list(out["path"])
                if "raised" in out:
                    return "refuted", f"raises {out['raised']!r}", None
                if len(seen) != 1:
                    return "refuted", f"jnp.argmax called {len(seen)} times: the entry must be chosen once, for all steps together", None
                a, r = seen[-1]
                st = arr.compare(a, arr.SArray([Bt], lambda idx: bigsum.bigsum([T], lambda v: spec_timestep(W, D, Bt, T, X, Y, C, idx[0], v[0]))), "vector given to argmax vs per-entry totals")
                if st[0] != "proved":
                    return st
                st = arr.compare(arr.lift(out["result"]), arr.SArray([T], lambda idx: spec_timestep(W, D, Bt, T, X, Y, C, r, idx[0])), "per-step losses of the chosen entry")
                if st[0] != "proved":
                    return st
                verdicts.append(st)
                seen.clear()
        finally:
            if saved is None:
                jnp_.__dict__.pop("argmax", None)
            else:
                jnp_.argmax = saved
        if not verdicts:
            return "undecided", "no path", None
        return "proved", f"{len(verdicts)} path(s): one entry chosen from the per-entry totals, its per-step losses returned", None
    o = guard(name + "/ensures:steps-of-one-worst-entry", "ensures", body, structure)
    o["replay"] = dict(scenario="loss", fn="timestep", model=o.get("model"), **structure)
    return [o]
