"""C12 -- multi-image arithmetic pairs blocks by type, whatever their storage history."""
import itertools
import z3
from .. import sym, arr, lib
from ..sym import SInt, SReal, SBool, zi
from ..core import Ob, guard
from .common import World, build_mi, cmp_blocks, all_paths, cover, geom, extents_from_model

LEVEL = "proof"
MANIFEST = {
    "category": "proof",
    "technique": "contract-based deductive verification: real MultiImage operators executed on structured symbolic arrays (all extents and values symbolic), element-wise post-conditions per type discharged by z3; construction histories enumerated",
    "text": "For every enumerated pair of construction histories (insertion orders x constructor/append/copy/jit-pytree round trip/vector round trip) the real __add__/__sub__/__mul__/__truediv__/__eq__ are executed with symbolic extents, leading axes and pixel values; the post-condition (a op b)[t] == a[t] op b[t] for every type t, the key set, D and flags are discharged by z3 for all shapes and values at once; operands with different type sets must raise on every path. Tests sample one insertion order and a few shapes.",
    "note": "reals not floats; key sets of size <= 3 from {(k,p): k<=2} enumerated; jit/vmap modelled by the pytree flatten/unflatten contract (dict children in sorted key order); jnp.allclose is an uninterpreted, reflexive predicate",
}
FUNCTIONS = ["MultiImage.__init__", "MultiImage.append", "MultiImage.copy", "MultiImage.empty", "MultiImage.to_vector",
             "MultiImage.from_vector", "MultiImage.__add__", "MultiImage.__sub__", "MultiImage.__mul__", "MultiImage.__truediv__",
             "MultiImage.__eq__", "MultiImage.tree_flatten", "MultiImage.tree_unflatten", "MultiImage.get_n_leading (inlined)",
             "MultiImage.keys/values/items (inlined)"]
TRUSTED = ["CPython executes the concrete part (dict insertion order is literal)", "structured-array engine gvc/arr.py (reshape regrouping, segment slicing)",
           "z3 (linear integer / real arithmetic; polynomial identities for sizes)"]
ASSUMPTIONS = ["pixel values are reals, not IEEE floats", "jax.jit/vmap reorder a MultiImage only through tree_flatten/tree_unflatten with dict children in sorted key order (assumed JAX contract)",
               "key sets enumerated: subsets of size <= 3 of {(0,0),(0,1),(1,0),(1,1),(2,0),(2,1)}; D in {1,2,3}; 0-2 leading axes", "allclose: uninterpreted reflexive predicate"]
EXPLANATION = "Per-structure proofs: unbounded in all extents and values, enumerated in key sets / insertion orders / histories."
GRID = {"quick": "D=2; key sets {(0,0),(1,0)}, {(0,1),(1,1),(2,0)}; all insertion orders of b; histories ctor/append/jit/copy/vector; leading axes 1",
        "thorough": "D in {1,2,3}; 5 key sets up to 3 types; all order pairs; all histories; leading axes 0,1,2"}

KEYSETS_Q = [[(0, 0), (0, 1)], [(0, 0), (1, 0)], [(1, 1), (0, 1), (2, 0)]]
KEYSETS_T = KEYSETS_Q + [[(2, 1), (1, 0), (0, 0)], [(1, 0)], [(1, 0), (1, 1)]]
VIAS = ["ctor", "append", "jit", "copy", "vector"]


def jobs(tier):
    out = []
    Ds = [2] if tier == "quick" else [1, 2, 3]
    leads = [1] if tier == "quick" else [0, 1, 2]
    keysets = KEYSETS_Q if tier == "quick" else KEYSETS_T
    for D in Ds:
        for ks in keysets:
            if D == 1:
                ks = [k for k in ks if k[0] == 0]
                if not ks:
                    continue
            for nlead in leads:
                orders = list(itertools.permutations(ks))
                for oi, ob_ in enumerate(orders):
                    # a in canonical order, b in every order; the history of b varies with the order index
                    via_b = VIAS[oi % len(VIAS)]
                    via_a = VIAS[(oi + 2) % len(VIAS)]
                    for op in ["add", "sub"]:
                        out.append(("gvc.props.c12", "ob_binop", dict(op=op, D=D, nlead=nlead, ka=list(ks), kb=list(ob_), via_a=via_a, via_b=via_b)))
                    out.append(("gvc.props.c12", "ob_eq", dict(D=D, nlead=nlead, ka=list(ks), kb=list(ob_), via_a=via_a, via_b=via_b)))
                for via in (VIAS if tier != "quick" else ["ctor", "jit"]):
                    for o in orders[:: max(1, len(orders) // 2)]:
                        out.append(("gvc.props.c12", "ob_scalar", dict(op="mul", D=D, nlead=nlead, ka=list(o), via=via)))
                        out.append(("gvc.props.c12", "ob_scalar", dict(op="div", D=D, nlead=nlead, ka=list(o), via=via)))
            # rejection: different key sets
            if len(ks) >= 2:
                out.append(("gvc.props.c12", "ob_reject", dict(D=D, ka=list(ks), kb=list(ks[:-1]))))
                out.append(("gvc.props.c12", "ob_reject", dict(D=D, ka=list(ks[:-1]), kb=list(ks))))
                swapped = [(k, 1 - p) for k, p in ks]
                if set(swapped) != set(ks):
                    out.append(("gvc.props.c12", "ob_reject", dict(D=D, ka=list(ks), kb=swapped)))
    return out


def _name(fn, **kw):
    return f"C12/MultiImage.{fn}/" + ",".join(f"{k}={_fmt(v)}" for k, v in kw.items())


def _fmt(v):
    if isinstance(v, list):
        return "[" + " ".join(f"{a}{b}" for a, b in v) + "]"
    return str(v)


def ob_binop(op, D, nlead, ka, kb, via_a, via_b):
    G = geom()
    W = World(D)
    lead = W.lead(nlead)
    same_k = len({k[0] for k in ka}) == 1      # then blocks may have equal shapes: one shared channel extent
    ch = (lambda k: W.chan((9, 9))) if same_k else W.chan
    A = {k: W.block("a", k, lead, ch(k)) for k in ka}
    B = {k: W.block("b", k, lead, ch(k)) for k in ka}
    structure = dict(op=op, D=D, nlead=nlead, keys_a=ka, keys_b=kb, via_a=via_a, via_b=via_b)
    name = _name("__add__" if op == "add" else "__sub__", **structure)
    spec = {k: (A[k] + B[k]) if op == "add" else (A[k] - B[k]) for k in ka}

    def run():
        a = build_mi(G, A, ka, D, True, via_a)
        b = build_mi(G, B, kb, D, True, via_b)
        return (a + b) if op == "add" else (a - b)

    def body():
        return all_paths(W.pre, run, lambda r: cmp_blocks(r, spec, D, True, None, "a op b"))

    replay = dict(scenario="binop", **structure)
    obs = [guard(name + "/ensures:blockwise", "ensures", body, structure, replay)]
    for o in obs:
        o["replay"] = dict(replay, model=o.get("model"))
    # canary: the positional pairing (what to_vector/from_vector would give) must be refuted when orders differ
    if ka != kb and op == "add":
        if same_k:
            def canary():
                wrong = {ka[i]: A[ka[i]] + B[kb[i]] for i in range(len(ka))}
                return all_paths(W.pre, run, lambda r: cmp_blocks(r, wrong, D, True, None, "positional"))
            obs.append(guard(name + "/canary:positional-pairing", "canary", canary, structure))
    obs.append(cover(name + "/cover:pre", W.pre, structure))
    return obs


def ob_scalar(op, D, nlead, ka, via):
    G = geom()
    W = World(D)
    lead = W.lead(nlead)
    same_k = len({k[0] for k in ka}) == 1      # equal block shapes are the interesting case for positional slicing
    ch = (lambda k: W.chan((9, 9))) if same_k else W.chan
    A = {k: W.block("a", k, lead, ch(k)) for k in ka}
    s = SReal(z3.Real("s"))
    pre = W.pre + ([s.e != 0] if op == "div" else [])
    structure = dict(op=op, D=D, nlead=nlead, keys_a=ka, via=via)
    name = _name("__mul__" if op == "mul" else "__truediv__", **structure)
    spec = {k: (A[k] * s) if op == "mul" else (A[k] / s) for k in ka}

    def run():
        a = build_mi(G, A, ka, D, True, via)
        return (a * s) if op == "mul" else (a / s)

    def body():
        return all_paths(pre, run, lambda r: cmp_blocks(r, spec, D, True, None, "a op s"))

    replay = dict(scenario="scalar", **structure)
    o = guard(name + "/ensures:blockwise", "ensures", body, structure, replay)
    o["replay"] = dict(replay, model=o.get("model"))
    return [o]


def ob_eq(D, nlead, ka, kb, via_a, via_b):
    """a == b is decided by key: b holds, under each key, the very array a holds (=> True on every path),
    and in a second obligation arbitrary other arrays (=> result == AND_t allclose(a[t], b[t]))"""
    G = geom()
    W = World(D)
    lead = W.lead(nlead)
    A = {k: W.block("a", k, lead, W.chan(k)) for k in ka}
    B = {k: W.block("b", k, lead, W.chan(k)) for k in ka}
    structure = dict(D=D, nlead=nlead, keys_a=ka, keys_b=kb, via_a=via_a, via_b=via_b)
    name = _name("__eq__", **structure)
    replay = dict(scenario="eq", **structure)

    def run_same():
        a = build_mi(G, A, ka, D, True, via_a if via_a != "vector" else "ctor")
        b = build_mi(G, A, kb, D, True, via_b if via_b != "vector" else "ctor")
        return a == b

    def post_true(r):
        if r is True:
            return "proved", "True", None
        return "refuted", f"equal multi-images (same blocks under the same keys) compare {r!r}", None

    def run_diff():
        a = build_mi(G, A, ka, D, True, "ctor")
        b = build_mi(G, B, kb, D, True, "ctor")
        return a == b, a, b

    def post_iff(res):
        r, a, b = res
        conj = z3.And(*[lib.allclose(a[k], b[k]).e if isinstance(lib.allclose(a[k], b[k]), SBool) else z3.BoolVal(bool(lib.allclose(a[k], b[k]))) for k in ka])
        rt = r.e if isinstance(r, SBool) else z3.BoolVal(bool(r))
        st, m = sym.refute_or_prove(rt == conj)
        return st, f"result {rt} vs AND_t allclose(a[t], b[t])", m

    obs = [guard(name + "/ensures:reflexive-by-key", "ensures", lambda: all_paths(W.pre, run_same, post_true), structure, replay),
           guard(name + "/ensures:iff-all-keys-close", "ensures", lambda: all_paths(W.pre, run_diff, post_iff), structure, replay)]
    for o in obs:
        o["replay"] = dict(replay, model=o.get("model"))
    return obs


def ob_reject(D, ka, kb):
    G = geom()
    W = World(D)
    lead = W.lead(1)
    A = {k: W.block("a", k, lead, W.chan(k)) for k in ka}
    B = {k: W.block("b", k, lead, W.chan(k)) for k in kb}
    structure = dict(D=D, keys_a=ka, keys_b=kb)
    obs = []
    for op in ["add", "sub"]:
        def run(op=op):
            a = build_mi(G, A, ka, D, True)
            b = build_mi(G, B, kb, D, True)
            return (a + b) if op == "add" else (a - b)
        nm = _name("__add__" if op == "add" else "__sub__", **structure) + "/rejects:different-type-sets"
        o = guard(nm, "rejects", lambda run=run: all_paths(W.pre, run, None, expect_raise=AssertionError), structure,
                  dict(scenario="reject", op=op, **structure))
        obs.append(o)

    def run_eq():
        return build_mi(G, A, ka, D, True) == build_mi(G, B, kb, D, True)
    obs.append(guard(_name("__eq__", **structure) + "/ensures:different-type-sets-unequal", "ensures",
                     lambda: all_paths(W.pre, run_eq, lambda r: ("proved", "", None) if r is False else ("refuted", f"returned {r!r}", None)),
                     structure, dict(scenario="reject", op="eq", **structure)))
    return obs
