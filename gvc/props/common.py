"""helpers shared by the property modules: symbolic MultiImages, comparison against specs,
the obligation pattern 'every path of the real code satisfies the post-condition'."""
from __future__ import annotations
import itertools
import z3
from .. import sym, arr, lib
from ..sym import SInt, SReal, SBool, zi, OutOfReach, Refuted
from ..arr import SArray, Atom, Prod, Sum
from ..core import Ob, guard
from ..loader import load

ALL_TYPES = [(0, 0), (0, 1), (1, 0), (1, 1), (2, 0), (2, 1)]


def geom():
    return load()["ginjax.geometric"]


def sint(name, pre, lo=1):
    v = z3.Int(name)
    pre.append(v >= lo)
    return SInt(v)


class World:
    """a symbolic set-up: pre-conditions + named extents"""

    def __init__(self, D):
        self.D = D
        self.pre = []
        self.spatial = [Atom(sint(f"N{i}", self.pre), f"N{i}") for i in range(D)]
        self._lead = {}
        self._chan = {}

    def lead(self, n, tag="B"):
        out = []
        for i in range(n):
            nm = f"{tag}{i}"
            if nm not in self._lead:
                self._lead[nm] = Atom(sint(nm, self.pre), nm)
            out.append(self._lead[nm])
        return out

    def chan(self, key, tag="C", concrete=None):
        nm = f"{tag}{key[0]}{key[1]}"
        if nm not in self._chan:
            self._chan[nm] = Atom(concrete if concrete is not None else sint(nm, self.pre), nm)
        return self._chan[nm]

    def block(self, name, key, lead, chan=None, spatial=None):
        """opaque source block with dims lead + [channel] + spatial + tensor"""
        k = key[0]
        dims = list(lead) + ([chan] if chan is not None else []) + list(spatial if spatial is not None else self.spatial) + \
            [Atom(self.D) for _ in range(k)]
        return arr.source(f"{name}_{key[0]}{key[1]}", dims)

    def mi(self, name, keys, nlead=0, is_torus=True, chan_tag="C", via="ctor", concrete_chan=None, with_chan=True):
        """MultiImage with the given key insertion order; returns (mi, blocks dict)"""
        G = geom()
        lead = self.lead(nlead)
        blocks = {}
        for key in keys:
            c = self.chan(key, chan_tag, concrete_chan) if with_chan else None
            blocks[key] = self.block(name, key, lead, c)
        return build_mi(G, blocks, list(keys), self.D, is_torus, via), blocks


def build_mi(G, blocks, order, D, is_torus, via="ctor"):
    """construction histories of a MultiImage holding `blocks`, inserted in `order`"""
    MI = G.MultiImage
    if via == "ctor":
        return MI({k: blocks[k] for k in order}, D, is_torus)
    if via == "append":
        m = MI({}, D, is_torus)
        for k in order:
            m.append(k[0], k[1], blocks[k])
        return m
    if via == "copy":
        return MI({k: blocks[k] for k in order}, D, is_torus).copy()
    if via == "jit":           # pytree flatten / unflatten: what jit / vmap do to the argument
        m = MI({k: blocks[k] for k in order}, D, is_torus)
        leaves, rebuild = lib.tree_flatten_obj(m)
        return rebuild(leaves)
    if via == "vector":
        m = MI({k: blocks[k] for k in order}, D, is_torus)
        return MI.from_vector(m.to_vector(), m)
    raise ValueError(via)


def cmp_blocks(code_mi, spec_blocks, D=None, is_torus=None, order=None, what="result"):
    """code MultiImage vs. dict key -> spec SArray.  Checks key set (and order if given), D, flags,
    every block element-wise."""
    keys = list(code_mi.keys())
    if set(keys) != set(spec_blocks.keys()) or len(keys) != len(spec_blocks):
        return "refuted", f"{what}: key set {keys} != expected {list(spec_blocks.keys())}", None
    if order is not None and keys != list(order):
        return "refuted", f"{what}: key order {keys} != expected {list(order)}", None
    if D is not None and code_mi.D != D:
        return "refuted", f"{what}: D={code_mi.D} != {D}", None
    if is_torus is not None:
        t = is_torus if isinstance(is_torus, tuple) else (is_torus,) * code_mi.D
        if tuple(code_mi.is_torus) != tuple(t):
            return "refuted", f"{what}: is_torus={code_mi.is_torus} != {t}", None
    n = 0
    for key in keys:
        c = code_mi[key]
        if not isinstance(c, SArray):
            c = arr.lift(c)
        st, detail, m = arr.compare(c, spec_blocks[key], f"{what}[{key}]")
        if st != "proved":
            return st, detail, m
        n += 1
    return "proved", f"{what}: {n} blocks equal element-wise", None


def all_paths(pre, run, post, expect_raise=None):
    """every feasible path of run() must satisfy post(result) -> (status, detail, model).
    expect_raise: exception class that every path must raise instead (rejection obligations)."""
    n = 0
    for out in sym.run_paths(run, pre):
        n += 1
        sym.CTX.path = list(out["path"])
        if "raised" in out:
            if expect_raise is not None and isinstance(out["raised"], expect_raise):
                continue
            r, m = sym.check_sat(list(out["path"]))
            return "refuted", f"raises {type(out['raised']).__name__}: {str(out['raised'])[:200]}", m
        if expect_raise is not None:
            r, m = sym.check_sat(list(out["path"]))
            return "refuted", f"expected {expect_raise.__name__}, but the call returned normally", m
        st, detail, m = post(out["result"])
        if st != "proved":
            if st == "refuted" and m is None:
                r, m = sym.check_sat(list(out["path"]))
            return st, detail, m
    if n == 0:
        return "undecided", "no feasible path", None
    return "proved", f"{n} path(s)", None


def cover(name, pre, structure=None):
    def body():
        sym.reset()
        r, m = sym.check_sat(list(pre))
        return ("proved" if r == "sat" else "refuted" if r == "unsat" else "undecided"), "pre-condition satisfiable", m
    return guard(name, "cover", body, structure)


def extents_from_model(model, names, default=2, cap=4):
    """small concrete extents for the native replay from a solver model dict"""
    out = {}
    for n in names:
        v = (model or {}).get(n)
        try:
            out[n] = max(1, min(cap, int(str(v)))) if v is not None else default
        except ValueError:
            out[n] = default
    return out


def perms(keys, limit=None):
    ps = list(itertools.permutations(keys))
    return ps if limit is None else ps[:limit]


def dep_jobs(modname, pred=lambda fn, kw: True, tier="quick"):
    """jobs of ANOTHER property's module that this property's argument depends on (leaf contracts, the library action ==
    act_spec).  Verification is modular: a composite property is proved against the contracts of the functions it calls, so
    a defect inside a callee breaks the callee's obligation, not the composite's.  Running the callee obligations that the
    composite relies on as part of the composite's check makes the check self-contained: `./check C07` fails when a layer
    contract it uses fails.  The obligations keep the names of the property that owns them."""
    import importlib
    mod = importlib.import_module(modname)
    return [j for j in mod.jobs(tier) if pred(j[1], j[2])]
